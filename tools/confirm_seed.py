#!/usr/bin/env python3
"""Confirm an independently seeded change and store it under /verif/seeded/<name>/.

usage: confirm_seed.py <property id> <agent worktree> <agent out dir> <name>
Confirms in a fresh scratch worktree of /repo HEAD: (1) with the patch the existing test suite passes,
(2) the demonstration fails with the patch, (3) the demonstration passes without it.
"""
import json, os, shutil, subprocess, sys
prop, wt_agent, out, name = sys.argv[1:5]
VERIF = '/verif'
env = dict(os.environ, GOFLAGS='-mod=mod', GOPROXY='off', GOSUMDB='off', GOTOOLCHAIN='local')
wt = '/tmp/verif-confirm-%s' % name
subprocess.run(['git', '-C', '/repo', 'worktree', 'remove', '--force', wt], capture_output=True)
subprocess.run(['git', '-C', '/repo', 'worktree', 'add', '--detach', '-f', wt, 'HEAD'], check=True, capture_output=True)
def suite():
    ok = True; log = []
    for mod in ('kernel', 'kbuild'):
        r = subprocess.run(['go', 'test', '-vet=off', '-count=1', './...'], cwd=os.path.join(wt, mod), env=env, capture_output=True, text=True)
        for l in (r.stdout + r.stderr).splitlines():
            if l.startswith('FAIL') or l.startswith('---') or 'panic' in l:
                if 'goruntime' in l: continue
                if l.strip() == 'FAIL': continue
                ok = False; log.append(l)
    return ok, log
# demo files: every untracked file in the agent worktree
r = subprocess.run(['git', '-C', wt_agent, 'status', '--porcelain'], capture_output=True, text=True)
demos = [l[3:] for l in r.stdout.splitlines() if l.startswith('??')]
def demo(run_pkgs):
    res = []
    for pkg in run_pkgs:
        mod = 'kernel' if pkg.startswith('kernel/') else 'kbuild'
        rel = './' + os.path.relpath(pkg, mod) if pkg != mod else '.'
        r = subprocess.run(['go', 'test', '-vet=off', '-count=1', '-run', 'Seed', rel], cwd=os.path.join(wt, mod), env=env, capture_output=True, text=True)
        res.append((r.returncode, (r.stdout + r.stderr)[-1500:]))
    return res
result = {}
try:
    r = subprocess.run(['git', '-C', wt, 'apply', os.path.join(out, 'patch.diff')], capture_output=True, text=True)
    if r.returncode != 0:
        print('patch does not apply:', r.stderr); sys.exit(1)
    ok, log = suite()
    result['suite_passes_with_change'] = ok
    if not ok: print('\n'.join(log[:20]))
    pkgs = sorted({os.path.dirname(d) for d in demos if d.endswith('_test.go')})
    for d in demos:
        os.makedirs(os.path.dirname(os.path.join(wt, d)), exist_ok=True)
        if os.path.isdir(os.path.join(wt_agent, d)): shutil.copytree(os.path.join(wt_agent, d), os.path.join(wt, d), dirs_exist_ok=True)
        else: shutil.copy(os.path.join(wt_agent, d), os.path.join(wt, d))
    withc = demo(pkgs)
    result['demo_fails_with_change'] = any(rc != 0 for rc, _ in withc)
    subprocess.run(['git', '-C', wt, 'apply', '-R', os.path.join(out, 'patch.diff')], check=True)
    without = demo(pkgs)
    result['demo_passes_without_change'] = all(rc == 0 for rc, _ in without)
    result['demo_packages'] = pkgs
    print(json.dumps(result, indent=1))
    if withc: print('--- demo output with change (tail):\n' + withc[0][1][-600:])
    if all([result['suite_passes_with_change'], result['demo_fails_with_change'], result['demo_passes_without_change']]):
        dst = os.path.join(VERIF, 'seeded', name)
        shutil.rmtree(dst, ignore_errors=True); os.makedirs(dst)
        shutil.copy(os.path.join(out, 'patch.diff'), dst)
        os.makedirs(os.path.join(dst, 'demo'))
        for d in demos:
            tgt = os.path.join(dst, 'demo', d)
            os.makedirs(os.path.dirname(tgt), exist_ok=True)
            if os.path.isdir(os.path.join(wt_agent, d)): shutil.copytree(os.path.join(wt_agent, d), tgt, dirs_exist_ok=True)
            else: shutil.copy(os.path.join(wt_agent, d), tgt)
        if os.path.exists(os.path.join(out, 'demo.sh')): shutil.copy(os.path.join(out, 'demo.sh'), dst)
        try: am = json.load(open(os.path.join(out, 'meta.json')))
        except Exception: am = {}
        meta = {'property': prop, 'summary': am.get('summary', ''), 'needs_to_manifest': am.get('needs_to_manifest', ''),
                'files_changed': am.get('files_changed', []), 'origin': 'fresh sub-agent given only the property text and a scratch worktree',
                'confirmed_by_main_session': result,
                'what_i_ran': ['git worktree add (fresh, /repo HEAD)', 'git apply patch.diff', 'go test -vet=off -count=1 ./... in kernel and kbuild (goruntime link failure ignored, as in the baseline)',
                               'go test -run Seed <demo packages> with the patch -> fails', 'git apply -R; same -> passes'],
                'demo_files_relative_to_repo': demos}
        json.dump(meta, open(os.path.join(dst, 'meta.json'), 'w'), indent=1)
        print('stored', dst)
    else:
        print('NOT CONFIRMED')
finally:
    subprocess.run(['git', '-C', '/repo', 'worktree', 'remove', '--force', wt], capture_output=True)
    shutil.rmtree(wt, ignore_errors=True)
    subprocess.run(['git', '-C', '/repo', 'worktree', 'prune'], capture_output=True)
