#!/usr/bin/env python3
"""Confirm a property-preserving change written by an independent agent and store it under
/verif/seeded/<name>/ with "expect_silent": the checks must stay quiet on it.

usage: confirm_preserve.py <property id> <agent worktree> <agent out dir> <name>
Confirms in a fresh scratch worktree of /repo HEAD: with the patch the existing test suite passes and the
agent's own witness test (zz_preserve_test.go) passes with and without the patch.
"""
import json, os, shutil, subprocess, sys
prop, wt_agent, out, name = sys.argv[1:5]
VERIF = '/verif'
env = dict(os.environ, GOFLAGS='-mod=mod', GOPROXY='off', GOSUMDB='off', GOTOOLCHAIN='local')
wt = '/tmp/verif-confirm-%s' % name
subprocess.run(['git', '-C', '/repo', 'worktree', 'remove', '--force', wt], capture_output=True)
base = 'HEAD'
def fresh():
    subprocess.run(['git', '-C', '/repo', 'worktree', 'remove', '--force', wt], capture_output=True)
    subprocess.run(['git', '-C', '/repo', 'worktree', 'add', '--detach', '-f', wt, base], check=True, capture_output=True)
fresh()
def suite():
    ok = True; log = []
    for mod in ('kernel', 'kbuild'):
        r = subprocess.run(['go', 'test', '-vet=off', '-count=1', './...'], cwd=os.path.join(wt, mod), env=env, capture_output=True, text=True)
        for l in (r.stdout + r.stderr).splitlines():
            if l.startswith('FAIL') or l.startswith('---') or 'panic' in l:
                if 'goruntime' in l or l.strip() == 'FAIL': continue
                ok = False; log.append(l)
    return ok, log
r = subprocess.run(['git', '-C', wt_agent, 'status', '--porcelain'], capture_output=True, text=True)
extra = [l[3:] for l in r.stdout.splitlines() if l.startswith('??')]
def witness(pkgs):
    res = []
    for pkg in pkgs:
        mod = 'kernel' if pkg.startswith('kernel/') else 'kbuild'
        rel = './' + os.path.relpath(pkg, mod) if pkg != mod else '.'
        r = subprocess.run(['go', 'test', '-vet=off', '-count=1', rel], cwd=os.path.join(wt, mod), env=env, capture_output=True, text=True)
        res.append((r.returncode, (r.stdout + r.stderr)[-1200:]))
    return res
result = {}
try:
    r = subprocess.run(['git', '-C', wt, 'apply', os.path.join(out, 'patch.diff')], capture_output=True, text=True)
    if r.returncode != 0:
        # written against an older commit (a repository fix has touched the same lines since): keep it there
        base = subprocess.run(['git', '-C', wt_agent, 'rev-parse', 'HEAD'], capture_output=True, text=True).stdout.strip()
        fresh()
        r = subprocess.run(['git', '-C', wt, 'apply', os.path.join(out, 'patch.diff')], capture_output=True, text=True)
        if r.returncode != 0:
            print('patch does not apply:', r.stderr); sys.exit(1)
        result['base'] = base
    ok, log = suite()
    result['suite_passes_with_change'] = ok
    if not ok: print('\n'.join(log[:20]))
    pkgs = sorted({os.path.dirname(d) for d in extra if d.endswith('_test.go')})
    for d in extra:
        if os.path.isdir(os.path.join(wt_agent, d)): continue
        os.makedirs(os.path.dirname(os.path.join(wt, d)), exist_ok=True)
        shutil.copy(os.path.join(wt_agent, d), os.path.join(wt, d))
    w1 = witness(pkgs)
    result['witness_passes_with_change'] = all(rc == 0 for rc, _ in w1)
    subprocess.run(['git', '-C', wt, 'apply', '-R', os.path.join(out, 'patch.diff')], check=True)
    w0 = witness(pkgs)
    result['witness_passes_without_change'] = all(rc == 0 for rc, _ in w0)
    print(json.dumps(result, indent=1))
    if not result['witness_passes_with_change'] and w1: print(w1[0][1][-600:])
    if result['suite_passes_with_change'] and result['witness_passes_with_change']:
        dst = os.path.join(VERIF, 'seeded', name)
        shutil.rmtree(dst, ignore_errors=True); os.makedirs(os.path.join(dst, 'witness'))
        shutil.copy(os.path.join(out, 'patch.diff'), dst)
        for d in extra:
            if os.path.isdir(os.path.join(wt_agent, d)): continue
            tgt = os.path.join(dst, 'witness', d)
            os.makedirs(os.path.dirname(tgt), exist_ok=True)
            shutil.copy(os.path.join(wt_agent, d), tgt)
        try: am = json.load(open(os.path.join(out, 'meta.json')))
        except Exception: am = {}
        meta = {'property': prop, 'expect_silent': True, 'summary': am.get('summary', ''),
                'why_property_still_holds': am.get('why_property_still_holds', ''),
                'what_a_coupled_checker_might_trip_over': am.get('what_a_coupled_checker_might_trip_over', ''),
                'files_changed': am.get('files_changed', []),
                'origin': 'fresh sub-agent given only the property text and a scratch worktree, asked for a change that PRESERVES the property',
                'confirmed_by_main_session': result}
        if result.get('base'): meta['base'] = result['base']
        json.dump(meta, open(os.path.join(dst, 'meta.json'), 'w'), indent=1)
        print('stored', dst)
    else:
        print('NOT CONFIRMED')
finally:
    subprocess.run(['git', '-C', '/repo', 'worktree', 'remove', '--force', wt], capture_output=True)
    shutil.rmtree(wt, ignore_errors=True)
    subprocess.run(['git', '-C', '/repo', 'worktree', 'prune'], capture_output=True)
