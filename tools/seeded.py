#!/usr/bin/env python3
"""Run the checks against the independently seeded changes under /verif/seeded/<id>/.

Each seeded/<id>/ holds patch.diff (source change that breaks a property but passes the existing
tests), the demonstration, and meta.json. For every change a scratch worktree of /repo HEAD is
created, the patch applied, and the property's check run with VERIF_REPO=<worktree>; exit 1 is
expected. Results go to seeded/RESULTS.md and into each meta.json ("check_result").

usage: seeded.py [--only id|Cxx|*suffix] [--tier quick|thorough] [--also Cxx,Cyy]
"""
import argparse, json, os, shutil, subprocess, sys, time, hashlib
VERIF = os.path.dirname(os.path.dirname(os.path.abspath(__file__)))
ap = argparse.ArgumentParser(); ap.add_argument('--only'); ap.add_argument('--tier', default='quick'); ap.add_argument('--also', default='')
a = ap.parse_args()
root = os.path.join(VERIF, 'seeded')
rows = []
for d in sorted(os.listdir(root)):
    dd = os.path.join(root, d)
    if not os.path.isdir(dd) or not os.path.exists(os.path.join(dd, 'patch.diff')): continue
    if a.only and a.only != d and not d.startswith(a.only + '-') and not (a.only.startswith('*') and d.endswith(a.only[1:])): continue
    meta = json.load(open(os.path.join(dd, 'meta.json')))
    props = [meta['property']] + [p for p in a.also.split(',') if p] + meta.get('also_check', [])
    wt = '/tmp/verif-seeded-%s-%d' % (d, os.getpid())
    # 'base' (rare): the change rewrites code that a later repository fix also touched; it is kept on the commit it was written for
    subprocess.run(['git', '-C', '/repo', 'worktree', 'add', '--detach', '-f', wt, meta.get('base', 'HEAD')], check=True, capture_output=True)
    try:
        r = subprocess.run(['git', '-C', wt, 'apply', os.path.join(dd, 'patch.diff')], capture_output=True, text=True)
        if r.returncode != 0:
            r = subprocess.run(['git', '-C', wt, 'apply', '--3way', os.path.join(dd, 'patch.diff')], capture_output=True, text=True)
        if r.returncode != 0:
            rows.append((d, meta['property'], 'PATCH DOES NOT APPLY', '', r.stderr.strip()[:200])); continue
        res = {}
        for p in dict.fromkeys(props):
            t0 = time.time()
            r = subprocess.run([os.path.join(VERIF, 'check'), p, '--tier', meta.get('tier', a.tier), '--no-evidence'], cwd=VERIF, capture_output=True, text=True,
                               env=dict(os.environ, VERIF_REPO=wt))
            why = [''.join(ch if 32 <= ord(ch) < 127 else '?' for ch in l.strip()) for l in r.stdout.splitlines() if 'failing test' in l]
            res[p] = {'exit': r.returncode, 'seconds': round(time.time() - t0, 1), 'why': (why[0][:300] if why else '')}
            status = 'detected' if r.returncode == 1 else ('MISSED' if r.returncode == 0 else 'inconclusive(exit %d)' % r.returncode)
            if r.returncode == 1 and meta.get('tier', a.tier) != a.tier:
                status = 'detected (%s tier)' % meta['tier']
            if meta.get('expect_silent'):
                status = {0: 'silent, as it should be (the change preserves the property)', 1: 'ALARM ON A CHANGE SAID TO PRESERVE THE PROPERTY'}.get(r.returncode, status)
            if meta.get('out_of_domain') and r.returncode == 0:
                status = 'silent, as it should be (outside the quantifier)'
            if meta.get('neutralised_by_fix') and r.returncode == 0:
                status = 'silent, as it should be (harmless since fix %s)' % meta['neutralised_by_fix']['commit']
            rows.append((d, p, status, '%.0fs' % (time.time() - t0), why[0][:200] if why else ''))
        meta['check_result'] = res
        json.dump(meta, open(os.path.join(dd, 'meta.json'), 'w'), indent=1)
    finally:
        subprocess.run(['git', '-C', '/repo', 'worktree', 'remove', '--force', wt], capture_output=True)
        shutil.rmtree(wt, ignore_errors=True)
        subprocess.run(['git', '-C', '/repo', 'worktree', 'prune'], capture_output=True)
        shutil.rmtree(os.path.join(VERIF, 'work', 'harness-' + hashlib.sha1(wt.encode()).hexdigest()[:10]), ignore_errors=True)
for r in rows: print(' | '.join(r))
if not a.only:
    with open(os.path.join(root, 'RESULTS.md'), 'w') as f:
        f.write('# Independently seeded changes vs. checks (%s tier)\n\n| seeded change | check | result | time | first failure line |\n|---|---|---|---|---|\n' % a.tier)
        for r in rows: f.write('| ' + ' | '.join(x.replace('|', '\\|') for x in r) + ' |\n')
