import json,subprocess,os
env=dict(os.environ)
want=set(json.load(open('/root/.vp/BASELINE.json'))['stable_pass'])
got=set()
for m in ('kernel','kbuild'):
    r=subprocess.run(['go','test','-json','-vet=off','-count=1','-timeout','25m','./...'],cwd='/repo/'+m,env=env,capture_output=True,text=True)
    for l in r.stdout.splitlines():
        try: e=json.loads(l)
        except: continue
        if e.get('Action')=='pass' and e.get('Test'):
            got.add(e['Package']+'::'+e['Test'])
print('stable_pass',len(want),'passing now',len(want&got),'missing',sorted(want-got)[:10])
