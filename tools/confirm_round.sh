#!/bin/sh
# usage: tools/confirm_round.sh <suffix>   (e.g. e)  - confirms every finished seed under /tmp/seed that is
# not stored yet as /verif/seeded/Cxx-<suffix>, then runs the property's quick check against it.
suf=$1
cd /verif || exit 1
for out in /tmp/seed/C??-out; do
  p=$(basename $out -out)
  [ -f $out/meta.json ] || continue
  [ -d seeded/$p-$suf ] && continue
  rm -f $out/p.diff
  r=$(python3 tools/confirm_seed.py $p /tmp/seed/$p $out $p-$suf 2>&1 | grep -a '"suite_passes\|"demo_fails\|"demo_passes\|does not apply' | tr -d '\n ')
  echo "confirm $p-$suf: $r"
  [ -d seeded/$p-$suf ] && python3 tools/seeded.py --only $p-$suf 2>&1 | tail -1 | cut -c1-330
done
