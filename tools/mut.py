#!/usr/bin/env python3
"""Sensitivity pass: apply hand-written mutations to /repo one at a time, run the
property's check, expect exit 1, and restore the file.

usage: mut.py [--prop Cxx] [--name substr] [--tier quick]
Mutations live in tools/mutations.json: [{prop, name, file, old, new, count?}]
Results are appended to work/mut-results.jsonl.
"""
import argparse, json, os, subprocess, sys, time
VERIF = os.path.dirname(os.path.dirname(os.path.abspath(__file__)))
REPO = '/repo'
ap = argparse.ArgumentParser()
ap.add_argument('--prop'); ap.add_argument('--name'); ap.add_argument('--tier', default='quick')
ap.add_argument('--baseline', action='store_true', help='also run the package unit tests under the mutation')
a = ap.parse_args()
import glob
muts = []
for _f in sorted(glob.glob(os.path.join(VERIF, 'tools', 'mutations.d', '*.json'))):
    muts += json.load(open(_f))
# Mutations are applied in a scratch worktree of /repo's HEAD (never in /repo itself), so several
# runners and ordinary checks can run at the same time.
SCRATCH = '/tmp/verif-mut-%d' % os.getpid()
subprocess.run(['git', '-C', REPO, 'worktree', 'add', '--detach', '-f', SCRATCH, 'HEAD'], check=True, capture_output=True)
import atexit, shutil
def _cleanup():
    subprocess.run(['git', '-C', '/repo', 'worktree', 'remove', '--force', SCRATCH], capture_output=True)
    shutil.rmtree(SCRATCH, ignore_errors=True)
    subprocess.run(['git', '-C', '/repo', 'worktree', 'prune'], capture_output=True)
    import hashlib
    shutil.rmtree(os.path.join(VERIF, 'work', 'harness-' + hashlib.sha1(SCRATCH.encode()).hexdigest()[:10]), ignore_errors=True)
atexit.register(_cleanup)
REPO = SCRATCH
res = []
for m in muts:
    if a.prop and m['prop'] != a.prop: continue
    if a.name and a.name not in m['name']: continue
    path = os.path.join(REPO, m['file'])
    src = open(path).read()
    n = src.count(m['old'])
    if n != m.get('count', 1):
        print('SKIP %s/%s: pattern occurs %d times' % (m['prop'], m['name'], n)); continue
    try:
        open(path, 'w').write(src.replace(m['old'], m['new']))
        base = ''
        if a.baseline:
            mod = 'kernel' if m['file'].startswith('kernel/') else 'kbuild'
            pkgdir = os.path.dirname(m['file'])[len(mod) + 1:]
            env = dict(os.environ, GOFLAGS='-mod=mod', GOPROXY='off', GOSUMDB='off', GOTOOLCHAIN='local')
            r = subprocess.run(['go', 'test', '-vet=off', '-count=1', './' + pkgdir], cwd=os.path.join(REPO, mod),
                               env=env, capture_output=True, text=True)
            base = 'unit-tests:%s' % ('pass' if r.returncode == 0 else 'FAIL')
        t0 = time.time()
        r = subprocess.run([os.path.join(VERIF, 'check'), m['prop'], '--tier', a.tier, '--no-evidence'], cwd=VERIF, capture_output=True, text=True, env=dict(os.environ, VERIF_REPO=REPO))
        dt = time.time() - t0
        viol = [l for l in r.stdout.splitlines() if l.startswith('VIOLATION')]
        why = [l for l in r.stdout.splitlines() if 'failing test' in l]
        verdict = 'as-expected' if r.returncode == m.get('expect', 1) else 'UNEXPECTED'
        print('%s %-40s exit=%d (%s) %s %.0fs %s' % (m['prop'], m['name'], r.returncode, verdict, base, dt, (why[0][:160] if why else '')))
        if r.returncode not in (0, 1):
            print(r.stdout[-1500:])
        res.append({'prop': m['prop'], 'name': m['name'], 'exit': r.returncode, 'baseline': base, 'why': why[:1]})
    finally:
        open(path, 'w').write(src)
    # remove replays produced by mutation runs
os.makedirs(os.path.join(VERIF, 'work'), exist_ok=True)
with open(os.path.join(VERIF, 'work', 'mut-results.jsonl'), 'a') as f:
    for r in res: f.write(json.dumps(r) + '\n')
