#!/usr/bin/env python3
"""Assemble seeded/RESULTS.md from the check_result recorded in each seeded/<id>/meta.json by the most recent
tools/seeded.py run of that change (a full sweep rewrites the file itself; this is for partial sweeps)."""
import json, os
root = os.path.join(os.path.dirname(os.path.dirname(os.path.abspath(__file__))), 'seeded')
rows = []
for d in sorted(os.listdir(root)):
    mp = os.path.join(root, d, 'meta.json')
    if not os.path.exists(mp): continue
    m = json.load(open(mp))
    for p, r in (m.get('check_result') or {}).items():
        ex = r.get('exit')
        st = 'detected' if ex == 1 else ('MISSED' if ex == 0 else 'inconclusive(exit %s)' % ex)
        if m.get('expect_silent'):
            st = {0: 'silent, as it should be (the change preserves the property)', 1: 'ALARM ON A CHANGE SAID TO PRESERVE THE PROPERTY'}.get(ex, st)
            if ex == 1 and p != m['property']:
                st = 'detected (the change preserves %s but breaks %s)' % (m['property'], p)
        elif ex == 0 and m.get('out_of_domain'): st = 'silent, as it should be (outside the quantifier)'
        elif ex == 0 and m.get('neutralised_by_fix'): st = 'silent, as it should be (harmless since fix %s)' % m['neutralised_by_fix']['commit']
        elif ex == 0 and p == m['property'] and m.get('also_check'): st = 'not by this check; see ' + ', '.join(m['also_check'])
        elif ex == 1 and m.get('tier'): st = 'detected (%s tier)' % m['tier']
        rows.append((d, p, st, '%ss' % round(r.get('seconds', 0)), (r.get('why') or '')[:200]))
with open(os.path.join(root, 'RESULTS.md'), 'w') as f:
    f.write('# Independently written changes vs. checks\n\nAssembled from the most recent run of each change (`tools/seeded.py`; quick tier unless noted). '
            '`-a`..`-o`: seeded faults (exit 1 expected), `-p`..`-t`: property-preserving changes (exit 0 expected).\n\n'
            '| change | check | result | time | first failure line |\n|---|---|---|---|---|\n')
    for r in rows: f.write('| ' + ' | '.join(x.replace('|', '\\|') for x in r) + ' |\n')
print(len(rows), 'rows')
