#!/usr/bin/env python3
"""Pretty-print a C11/C12 replay case (AML program AST)."""
import json,sys
c=json.load(open(sys.argv[1]))
def name(n):
    return ('\\' if n.get('root') else '')+'^'*n.get('carets',0)+'.'.join(n['segs'] or [])
def data(d):
    k=d['k']
    if k=='package': return 'Package{'+','.join(data(e) for e in d.get('elems') or [])+'}'
    if k=='buffer': return 'Buffer(%d){%s}'%(d.get('v',0),d.get('s',''))
    if k=='string': return 'str:'+str(d.get('s',''))
    return k+':'+str(d.get('v',''))
def expr(e):
    if e is None: return 'null'
    k=e['k']
    if k=='data': return data(e['data'])
    if k in('local','arg'): return k+str(e.get('n',0))
    if k=='ref': return e['name']
    if k=='call': return e['name']+'('+','.join(expr(a) for a in e.get('args') or [])+')'
    return e.get('op',k)+'('+','.join(expr(a) for a in e.get('args') or [])+(';'+expr(e.get('target')) if k=='binop' else '')+')'
def stmts(l,ind):
    for s in l or []:
        if s['k']=='decl':
            o=s['obj']; print(' '*ind+'decl',o['k'],name(o['name']),'abs='+o['abs'], data(o['data']) if o.get('data') else ''); continue
        print(' '*ind+s['k'], expr(s.get('e')) if s.get('e') else '', '-> '+expr(s.get('t')) if s.get('t') else '')
        stmts(s.get('body'),ind+2)
        if s.get('haselse'): print(' '*ind+'else'); stmts(s.get('else'),ind+2)
def dump(l,ind):
    for o in l:
        extra=''
        if o['k']=='method': extra='argc=%d'%o.get('argc',0)
        if o['k']=='name': extra=data(o['data'])
        if o['k'] in('field','indexfield'): extra=name(o['region'])+' '+' '.join((e['k'][0]+':'+e.get('name','')+str(e.get('bits',''))) for e in o.get('elems') or [])
        print(' '*ind+o['k'],name(o['name']),'abs='+o['abs'],extra)
        stmts(o.get('stmts'),ind+4)
        dump(o.get('body') or [],ind+2)
for t in c['tables']:
    print('--table'); dump(t,1)
