#!/bin/sh
# usage: tools/confirm_preserve_round.sh <suffix>  - like confirm_round.sh, for property-preserving changes
suf=$1
cd /verif || exit 1
for out in /tmp/seed/C??-out; do
  p=$(basename $out -out)
  [ -f $out/meta.json ] || continue
  [ -d seeded/$p-$suf ] && continue
  r=$(python3 tools/confirm_preserve.py $p /tmp/seed/$p $out $p-$suf 2>&1 | grep -a '"suite_passes\|"witness\|does not apply\|NOT CONFIRMED' | tr -d '\n ')
  echo "confirm $p-$suf: $r"
  [ -d seeded/$p-$suf ] && python3 tools/seeded.py --only $p-$suf 2>&1 | tail -1 | cut -c1-400
done
