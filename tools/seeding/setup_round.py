#!/usr/bin/env python3
"""Prepare /tmp/seed for a round of independent fault seeding: one scratch worktree of /repo HEAD per
property, the property text, the prompt and a line per property that summarises the mechanisms
earlier rounds used (from /verif/seeded/*/meta.json). Nothing from /verif other than that is copied.
usage: setup_round.py <round file name, e.g. R6.txt> [extra guidance text]"""
import json, os, subprocess, sys, glob, shutil
round_file = sys.argv[1]
extra = sys.argv[2] if len(sys.argv) > 2 else ''
os.makedirs('/tmp/seed', exist_ok=True)
shutil.copy('/verif/tools/seeding/PROMPT.txt', '/tmp/seed/PROMPT.txt')
avoid = []
for l in open('/verif/properties.jsonl'):
    p = json.loads(l); pid = p['id']
    txt = "Property %s: %s\n\nStatement: %s\n\nQuantifier (%s): %s\n\nAnchor source files: %s\n" % (
        pid, p['title'], p['statement'], ', '.join(p['quantifier']['over']), p['quantifier']['text'], ', '.join(p['anchors']['files']))
    st = p['anchors'].get('state') or []
    if st:
        txt += "\nRelevant state:\n" + ''.join(" - %s: %s (%s)\n" % (s.get('name'), s.get('meaning'), s.get('where')) for s in st)
    open('/tmp/seed/%s-prop.txt' % pid, 'w').write(txt)
    used = []
    for d in sorted(glob.glob('/verif/seeded/%s-*' % pid)):
        m = json.load(open(d + '/meta.json'))
        used.append('(%d) %s' % (len(used) + 1, m['summary'].replace('\n', ' ')[:260]))
    avoid.append('%s: earlier engineers already used these mechanisms - do something different: %s' % (pid, ' || '.join(used)))
    os.makedirs('/tmp/seed/%s-out' % pid, exist_ok=True)
    subprocess.run(['git', '-C', '/repo', 'worktree', 'add', '--detach', '-f', '/tmp/seed/' + pid, 'HEAD'], check=True, capture_output=True)
open('/tmp/seed/AVOID.txt', 'w').write('\n'.join(avoid) + '\n')
base = open('/verif/tools/seeding/ROUND.txt').read()
base = base.replace('four earlier engineers', 'the earlier engineers')
if extra:
    base = base.replace('Prefer a narrow trigger.', 'Prefer a narrow trigger. ' + extra)
open('/tmp/seed/' + round_file, 'w').write(base)
print('ready:', round_file)
