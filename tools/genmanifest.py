#!/usr/bin/env python3
"""Regenerate /verif/MANIFEST.json from driver/props.py (keeps it valid at all times)."""
import json, os, sys
VERIF = os.path.dirname(os.path.dirname(os.path.abspath(__file__)))
sys.path.insert(0, os.path.join(VERIF, 'driver'))
from props import PROPS
allp = [json.loads(l)['id'] for l in open(os.path.join(VERIF, 'properties.jsonl'))]
claimed = set(open(os.path.join(VERIF, 'driver', 'claimed.txt')).read().split())
checks = []
for pid in allp:
    if pid not in PROPS or pid not in claimed:
        continue
    c = PROPS[pid]
    checks.append({
        'property_id': pid,
        'quick_cmd': './check %s --tier quick' % pid,
        'thorough_cmd': './check %s --tier thorough' % pid,
        'evidence_file': 'evidence/%s.json' % pid,
        'replay_cmd_template': './check %s --replay {path}' % pid,
        'engine': 'rapid-overlay',
        'level_claimed': {'category': 'exploration', 'text': c['level_text'], 'design_ref': 'DESIGN.md section 4, ' + pid},
        'level_note': c['level_note'],
        'technique': c['technique'],
    })
na = []
NA = {}
try:
    from props import NOT_APPLICABLE as NA
except ImportError:
    pass
for pid in allp:
    if pid not in PROPS or pid not in claimed:
        na.append({'property_id': pid, 'reason': NA.get(pid, 'check not built yet in this session; no claim is made')})
m = {
    'version': 1,
    'setup_cmd': './check --build-all',
    'hooks': {
        'guard': 'verif',
        'enable': 'no source hooks in /repo: in-package harness files under /verif/harness/ov are injected with `go test -overlay` and built with `-tags verif` from the module /verif/harness (replace => /repo/kernel, /repo/kbuild)',
        'baseline_off_cmd': 'for m in kernel kbuild; do (cd /repo/$m && GOFLAGS=-mod=mod GOPROXY=off GOSUMDB=off go test -json -vet=off -count=1 -timeout 25m ./...); done',
        'source_commits': [],
        'add_only': True,
    },
    'engines': [{'name': 'rapid-overlay', 'path': 'check', 'serves_properties': [c['property_id'] for c in checks],
                 'kind_free_text': 'pgregory.net/rapid v1.3.0 generators + shrinking (stateful where the property is over histories), Go native coverage-guided fuzzing in the thorough tier, explicit reference-model / differential / round-trip oracles, driven by the Python driver ./check'}],
    'checks': checks,
    'not_applicable': na,
    'notes': 'Genuine defects repaired by fix: commits in /repo and open findings are listed in KNOWN_FINDINGS.txt; DESIGN.md explains every check.',
}
json.dump(m, open(os.path.join(VERIF, 'MANIFEST.json'), 'w'), indent=1)
print('claimed', len(checks), 'not applicable', len(na))
