#!/usr/bin/env python3
"""Write the -overlay JSON that maps /verif/harness/ov/<rel>/<name> to /repo/<rel>/verif_<name>."""
import json, os, sys
root = os.path.join(os.path.dirname(os.path.abspath(__file__)), 'ov')
repo = os.environ.get('VERIF_REPO', '/repo')
out = sys.argv[1]
rep = {}
for d, _, fs in os.walk(root):
    for f in fs:
        if not f.endswith('.go') and not f.endswith('.s'):
            continue
        src = os.path.join(d, f)
        rel = os.path.relpath(d, root)
        rep[os.path.join(repo, rel, 'verif_' + f)] = src
json.dump({'Replace': rep}, open(out, 'w'), indent=1)
