//go:build verif && go1.21

// Package early15 is part of the C15 harness. It has no dependency on package kfmt as far as
// the Go tool can see, and package kfmt's test imports it, so its init function runs BEFORE the
// initialiser of package kfmt - the situation the kernel is in during early boot, where the
// formatter is used long before goruntime.Init runs the package initialisers. The init function
// formats a matrix of verbs, widths and argument types through kfmt.Fprintf (reached with
// go:linkname) and records what came out; the test compares that with what the same calls
// produce once everything is initialised.
package early15

import (
	"io"
	_ "unsafe"
)

//go:linkname fprintf github.com/ProjectSerenity/firefly/kernel/kfmt.Fprintf
func fprintf(w io.Writer, format string, args ...interface{})

//go:linkname printf github.com/ProjectSerenity/firefly/kernel/kfmt.Printf
func printf(format string, args ...interface{})

// Probe is one early call and its outcome.
type Probe struct {
	Format string
	Args   []interface{}
	Out    string
	Panic  string // non-empty: the call panicked with this value
}

// Probes holds the outcomes, Ran is set when the init function completed.
var (
	Probes []Probe
	Ran    bool
)

type sink struct {
	b [512]byte
	n int
}

func (s *sink) Write(p []byte) (int, error) {
	s.n += copy(s.b[s.n:], p)
	return len(p), nil
}

func describe(r interface{}) string {
	switch v := r.(type) {
	case error:
		return v.Error()
	case string:
		return v
	}
	return "a panic value that is neither an error nor a string"
}

func run(format string, args ...interface{}) {
	p := Probe{Format: format, Args: args}
	w := &sink{}
	func() {
		defer func() {
			if r := recover(); r != nil {
				p.Panic = describe(r)
			}
		}()
		fprintf(w, format, args...)
		// and into the early ring buffer, as the kernel's first messages go
		printf(format, args...)
	}()
	p.Out = string(w.b[:w.n])
	Probes = append(Probes, p)
}

func init() {
	ints := []interface{}{
		int(0), int(-1), int(-9223372036854775808), int8(-128), int8(127), int16(-32768), int32(2147483647), int64(9223372036854775807),
		uint(0), uint8(255), uint16(65535), uint32(4294967295), uint64(18446744073709551615), uintptr(0xfee00000),
	}
	for _, v := range ints {
		for _, f := range []string{"%d", "%o", "%x", "%10d", "%10x", "%3o", "%40x", "[%0d]"} {
			run(f, v)
		}
	}
	for _, f := range []string{"%s", "%8s", "%0s", "<%20s>"} {
		run(f, "early")
		run(f, []byte("bytes"))
		run(f, "")
	}
	run("%t %t %5t", true, false, true)
	run("literal only, 100%%")
	run("[mem %10x-%10x] %s (%d Kb)", uint64(0x100000), uint64(0x7fe0000), "available", uint64(130944)) // the line pmm.Init prints per region
	run("%d %s %x")                                                                                        // missing
	run("%d", 1, 2, "surplus")                                                                             // surplus
	run("%d %s %t %x", "not a number", 7, 7, true)                                                         // wrong types
	run("%s", nil)
	run("%5", 5)
	run("%")
	Ran = true
}
