// Empty assembly file: lets the package declare functions without a body (go:linkname).
