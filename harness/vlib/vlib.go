// Package vlib is the shared support library of the verification harness:
// statistics / evidence collection, failure reporting in a form the driver
// (/verif/check) understands, replay loading, panic capture and guarded memory.
//
// It deliberately does not import pgregory.net/rapid so that it can be used
// from replay tests and fuzz targets that bypass the library.
package vlib

import (
	"encoding/json"
	"fmt"
	"hash/fnv"
	"os"
	"path/filepath"
	"runtime/debug"
	"sort"
	"strconv"
	"strings"
	"sync"
	"syscall"
	"time"
)

// TB is the subset of testing.TB / *rapid.T the library needs.
type TB interface {
	Fatalf(format string, args ...interface{})
	Logf(format string, args ...interface{})
}

// Thorough reports whether the check runs in the thorough tier.
func Thorough() bool { return os.Getenv("VERIF_TIER") == "thorough" }

// Scale returns q in the quick tier and t in the thorough tier.
func Scale(q, t int) int {
	if Thorough() {
		return t
	}
	return q
}

// EnvInt reads an integer environment variable.
func EnvInt(name string, def int) int {
	if v, err := strconv.Atoi(os.Getenv(name)); err == nil {
		return v
	}
	return def
}

// ---------------------------------------------------------------------------
// statistics

const maxHashes = 400000
const maxSamples = 4

// Stats accumulates what a run of one property actually covered.
type Stats struct {
	mu         sync.Mutex
	Prop       string            `json:"prop"`
	Evals      int64             `json:"evals"`
	NonTrivial int64             `json:"nontrivial_total"`
	Classes    map[string]int64  `json:"classes"`
	Excluded   map[string]int64  `json:"excluded"`
	Hashes     []string          `json:"hashes"`
	Samples    []json.RawMessage `json:"samples"`
	Extra      map[string]int64  `json:"extra"`
	seen       map[uint64]struct{}
	sampleStep int64
}

var (
	statsMu  sync.Mutex
	statsAll = map[string]*Stats{}
)

// For returns the (process-wide) statistics object of a property.
func For(prop string) *Stats {
	statsMu.Lock()
	defer statsMu.Unlock()
	if s, ok := statsAll[prop]; ok {
		return s
	}
	s := &Stats{Prop: prop, Classes: map[string]int64{}, Excluded: map[string]int64{}, Extra: map[string]int64{}, seen: map[uint64]struct{}{}}
	statsAll[prop] = s
	return s
}

// HashJSON returns a 64-bit hash of the canonical JSON of v and the JSON.
func HashJSON(v interface{}) (uint64, []byte) {
	b, err := json.Marshal(v)
	if err != nil {
		panic("vlib: case not serialisable: " + err.Error())
	}
	h := fnv.New64a()
	h.Write(b)
	return h.Sum64(), b
}

// Case records one executed case. nontrivial is the property's stated rule
// evaluated on this case; labels are class labels for the histogram.
func (s *Stats) Case(c interface{}, nontrivial bool, labels ...string) {
	s.mu.Lock()
	defer s.mu.Unlock()
	s.Evals++
	for _, l := range labels {
		s.Classes[l]++
	}
	if !nontrivial {
		return
	}
	s.NonTrivial++
	if len(s.seen) >= maxHashes {
		return
	}
	h, b := HashJSON(c)
	if _, dup := s.seen[h]; dup {
		return
	}
	s.seen[h] = struct{}{}
	// keep a few samples spread over the run: 1st, 10th, 100th, ... distinct case
	n := int64(len(s.seen))
	if len(s.Samples) < maxSamples && (n == 1 || n == 10 || n == 100 || n == 1000) && len(b) < 6000 {
		s.Samples = append(s.Samples, json.RawMessage(append([]byte(nil), b...)))
	}
}

// Label bumps a class counter without counting a case.
func (s *Stats) Label(l string) {
	s.mu.Lock()
	s.Classes[l]++
	s.mu.Unlock()
}

// Add adds n to a named extra counter.
func (s *Stats) Add(name string, n int64) {
	s.mu.Lock()
	s.Extra[name] += n
	s.mu.Unlock()
}

// Exclude counts a candidate that was constructed around (known finding class).
func (s *Stats) Exclude(label string) {
	s.mu.Lock()
	s.Excluded[label]++
	s.mu.Unlock()
}

// Flush writes the statistics of every property touched by this process to
// $VERIF_STATS_DIR/<prop>.<pid>.json (no-op when the variable is unset).
func Flush() {
	dir := os.Getenv("VERIF_STATS_DIR")
	if dir == "" {
		return
	}
	statsMu.Lock()
	defer statsMu.Unlock()
	for _, s := range statsAll {
		s.mu.Lock()
		s.Hashes = s.Hashes[:0]
		hs := make([]uint64, 0, len(s.seen))
		for h := range s.seen {
			hs = append(hs, h)
		}
		sort.Slice(hs, func(i, j int) bool { return hs[i] < hs[j] })
		for _, h := range hs {
			s.Hashes = append(s.Hashes, strconv.FormatUint(h, 16))
		}
		b, _ := json.Marshal(s)
		s.mu.Unlock()
		name := filepath.Join(dir, fmt.Sprintf("%s.%d.%s.json", s.Prop, os.Getpid(), os.Getenv("VERIF_SHARD")))
		tmp := name + ".tmp"
		if err := os.WriteFile(tmp, b, 0o644); err == nil {
			os.Rename(tmp, name)
		}
	}
}

// ---------------------------------------------------------------------------
// failures and replay

// Failure describes a violated oracle.
type Failure struct{ Msg string }

// Failf builds a Failure.
func Failf(format string, args ...interface{}) *Failure {
	return &Failure{Msg: fmt.Sprintf(format, args...)}
}

func (f *Failure) Error() string { return f.Msg }

// Report fails the test with the marker lines the driver looks for. The case
// is printed as one line of JSON and becomes the replay file.
func Report(t TB, prop string, c interface{}, f *Failure) {
	if f == nil {
		return
	}
	_, b := HashJSON(c)
	t.Fatalf("VERIF-FAIL property=%s :: %s\nVERIF-CASE %s\nVERIF-END", prop, f.Msg, b)
}

// LoadReplay loads the JSON case named by $VERIF_REPLAY into v. It returns
// false when no replay was requested.
func LoadReplay(v interface{}) (bool, error) {
	p := os.Getenv("VERIF_REPLAY")
	if p == "" {
		return false, nil
	}
	b, err := os.ReadFile(p)
	if err != nil {
		return true, err
	}
	return true, json.Unmarshal(b, v)
}

// ---------------------------------------------------------------------------
// panic capture

// Caught is the result of running code under Catch.
type Caught struct {
	Panicked bool
	Value    interface{}
	Stack    string
}

func (c Caught) String() string {
	if !c.Panicked {
		return "no panic"
	}
	return fmt.Sprintf("panic: %v\n%s", c.Value, c.Stack)
}

// Catch runs f and captures a panic (including memory faults when
// debug.SetPanicOnFault is active on the calling goroutine).
func Catch(f func()) (c Caught) {
	defer func() {
		if r := recover(); r != nil {
			c.Panicked = true
			c.Value = r
			c.Stack = cleanStack(string(debug.Stack()))
		}
	}()
	f()
	return
}

// CatchFault is Catch with SetPanicOnFault enabled for the duration of f.
func CatchFault(f func()) Caught {
	old := debug.SetPanicOnFault(true)
	defer debug.SetPanicOnFault(old)
	return Catch(f)
}

// OpenFinding reports whether the known finding with the given id is listed
// as open (not fixed) in /verif/KNOWN_FINDINGS.txt; the driver passes the list
// in $VERIF_OPEN_FINDINGS. Generators use it to construct around that class.
func OpenFinding(id string) bool {
	for _, f := range strings.Split(os.Getenv("VERIF_OPEN_FINDINGS"), ",") {
		if f == id {
			return true
		}
	}
	return false
}

// cleanStack reduces a stack dump to "function (file:line)" lines without
// goroutine ids, argument values or pc offsets, so that the same failure gives
// the same text on every run (rapid only shrinks failures whose message is
// reproducible).
func cleanStack(st string) string {
	lines := strings.Split(st, "\n")
	var out []string
	for i := 0; i+1 < len(lines); i++ {
		l := lines[i]
		if strings.HasPrefix(l, "goroutine ") || l == "" || strings.HasPrefix(l, "\t") {
			continue
		}
		fn := l
		if j := strings.LastIndex(fn, "("); j > 0 {
			fn = fn[:j]
		}
		if strings.HasPrefix(fn, "runtime/debug.") || strings.HasPrefix(fn, "verifharness/vlib.Catch") || strings.HasPrefix(fn, "panic") || strings.HasPrefix(fn, "runtime.") {
			continue
		}
		if strings.HasPrefix(fn, "pgregory.net/rapid.") || strings.HasPrefix(fn, "testing.") {
			break
		}
		loc := strings.TrimSpace(lines[i+1])
		if j := strings.Index(loc, " +0x"); j > 0 {
			loc = loc[:j]
		}
		out = append(out, "  "+fn+" ("+loc+")")
		if len(out) >= 12 {
			break
		}
	}
	return strings.Join(out, "\n")
}

// Die reports a failure from which the process cannot continue (for example a
// goroutine that is stuck for good inside the code under test): the marker lines
// are written to stdout, statistics are flushed and the process exits. The case
// is reported unshrunk.
func Die(prop string, c interface{}, f *Failure) {
	_, b := HashJSON(c)
	fmt.Printf("VERIF-FAIL property=%s :: %s\nVERIF-CASE %s\nVERIF-END\n", prop, strings.ReplaceAll(f.Msg, "\n", "\n    "), b)
	Flush()
	os.Exit(3)
}

// CPUTime is the CPU time (user + system) this process has consumed so far.
func CPUTime() time.Duration {
	var ru syscall.Rusage
	if err := syscall.Getrusage(syscall.RUSAGE_SELF, &ru); err != nil {
		return 0
	}
	return time.Duration(ru.Utime.Nano() + ru.Stime.Nano())
}

// Patience decides that something "does not return": it has run out when BOTH that much wall-clock
// time has passed AND the process has consumed that much CPU time since it was started (or Reset),
// and this has been found so on several occasions (see patienceConfirmations).
// Code that never returns spins or loops, so the CPU clock advances with it; a machine that is
// stalled (a suspended or snapshotted VM, a badly overloaded host) advances the wall clock only,
// and must never be mistaken for a hang.
type Patience struct {
	d    time.Duration
	wall time.Time
	cpu  time.Duration
	// confirmation: Expired reports true only after it has found both clocks past the limit
	// on patienceConfirmations occasions at least a second apart
	seen     int
	lastSeen time.Time
}

// A suspended machine resumes with every clock far ahead (the guest even books the gap as CPU
// time of whatever was running), but what was being waited for then completes at once. So running
// out of patience has to be observed several times, a second apart, before it counts.
const patienceConfirmations = 3

func StartPatience(d time.Duration) *Patience {
	return &Patience{d: d, wall: time.Now(), cpu: CPUTime()}
}

func (p *Patience) Reset() {
	p.wall, p.cpu, p.seen, p.lastSeen = time.Now(), CPUTime(), 0, time.Time{}
}

func (p *Patience) Expired() bool {
	if time.Since(p.wall) < p.d || CPUTime()-p.cpu < p.d {
		return false
	}
	if now := time.Now(); p.seen == 0 || now.Sub(p.lastSeen) >= time.Second {
		p.seen++
		p.lastSeen = now
	}
	return p.seen >= patienceConfirmations
}

// After runs f (once, on its own goroutine) when the patience has run out, unless the returned
// stop function was called before.
func (p *Patience) After(f func()) (stop func()) {
	var (
		mu      sync.Mutex
		stopped bool
		t       *time.Timer
		check   func()
	)
	check = func() {
		mu.Lock()
		defer mu.Unlock()
		if stopped {
			return
		}
		if p.Expired() {
			stopped = true
			go f()
			return
		}
		t = time.AfterFunc(250*time.Millisecond, check)
	}
	mu.Lock()
	t = time.AfterFunc(p.d, check)
	mu.Unlock()
	return func() {
		mu.Lock()
		stopped = true
		t.Stop()
		mu.Unlock()
	}
}

// Wait waits for ch to deliver or be closed; it returns false when the patience ran out first.
func (p *Patience) Wait(ch <-chan struct{}) bool {
	for {
		select {
		case <-ch:
			return true
		case <-time.After(20 * time.Millisecond):
			if p.Expired() {
				return false
			}
		}
	}
}

// GuardPatience is how long one generated case may take before Guard gives up
// on it (wall-clock and CPU time, see Patience). Cases take milliseconds.
const GuardPatience = 30 * time.Second

// Guard arms a watchdog for one generated case and returns the function that
// disarms it. If the case is still running - and burning CPU - after GuardPatience the code under
// test is taken to be in a loop it never leaves (no listed property holds for
// an operation that does not return); the case is reported, unshrunk, through
// Die. what() names the operation in progress, if the check tracks it.
func Guard(prop string, c interface{}, what func() string) func() {
	return StartPatience(GuardPatience).After(func() {
		w := ""
		if what != nil {
			w = " (" + what() + ")"
		}
		Die(prop, c, Failf("the case did not finish within %v of wall-clock and of CPU time%s: an operation of the code under test does not return", GuardPatience, w))
	})
}
