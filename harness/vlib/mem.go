package vlib

import (
	"fmt"
	"syscall"
	"unsafe"
)

const pageSize = 4096

// Guarded is a block of host memory surrounded by inaccessible pages.
type Guarded struct {
	region []byte // whole mapping including both guard pages
	Data   []byte // accessible bytes (page multiple)
}

// NewGuarded maps n bytes (rounded up to whole pages) with a PROT_NONE page
// directly before and directly after. With low32 the mapping is placed below
// 4 GiB (MAP_32BIT) so that 32-bit fields can hold its address.
func NewGuarded(n int, low32 bool) (*Guarded, error) {
	pages := (n + pageSize - 1) / pageSize
	if pages == 0 {
		pages = 1
	}
	flags := syscall.MAP_PRIVATE | syscall.MAP_ANON
	if low32 {
		flags |= 0x40 // MAP_32BIT
	}
	total := (pages + 2) * pageSize
	region, err := syscall.Mmap(-1, 0, total, syscall.PROT_READ|syscall.PROT_WRITE, flags)
	if err != nil {
		return nil, fmt.Errorf("mmap: %v", err)
	}
	if err := syscall.Mprotect(region[:pageSize], syscall.PROT_NONE); err != nil {
		syscall.Munmap(region)
		return nil, err
	}
	if err := syscall.Mprotect(region[total-pageSize:], syscall.PROT_NONE); err != nil {
		syscall.Munmap(region)
		return nil, err
	}
	return &Guarded{region: region, Data: region[pageSize : total-pageSize : total-pageSize]}, nil
}

// Tail returns the last n bytes of the accessible area: the byte after the
// returned slice is inaccessible.
func (g *Guarded) Tail(n int) []byte { return g.Data[len(g.Data)-n:] }

// Head returns the first n bytes: the byte before it is inaccessible.
func (g *Guarded) Head(n int) []byte { return g.Data[:n] }

// Addr returns the address of the first accessible byte.
func (g *Guarded) Addr() uintptr { return uintptr(unsafe.Pointer(&g.Data[0])) }

// Free unmaps the block.
func (g *Guarded) Free() {
	if g.region != nil {
		syscall.Munmap(g.region)
		g.region = nil
		g.Data = nil
	}
}

// AddrOf returns the address of b[0].
func AddrOf(b []byte) uintptr { return uintptr(unsafe.Pointer(&b[0])) }

// MapPages maps n anonymous read-write pages (page aligned host memory).
func MapPages(n int) ([]byte, error) {
	return syscall.Mmap(-1, 0, n*pageSize, syscall.PROT_READ|syscall.PROT_WRITE, syscall.MAP_PRIVATE|syscall.MAP_ANON)
}

// UnmapPages releases memory obtained from MapPages.
func UnmapPages(b []byte) { syscall.Munmap(b) }

// MapFixed maps n anonymous read-write pages at exactly addr (MAP_FIXED_NOREPLACE: it fails
// rather than replace an existing mapping). Release with UnmapFixed.
func MapFixed(addr uintptr, n int) error {
	const mapFixedNoReplace = 0x100000
	got, _, e := syscall.Syscall6(syscall.SYS_MMAP, addr, uintptr(n*pageSize), syscall.PROT_READ|syscall.PROT_WRITE,
		syscall.MAP_PRIVATE|syscall.MAP_ANON|mapFixedNoReplace, ^uintptr(0), 0)
	if e != 0 {
		return e
	}
	if got != addr {
		// a kernel that does not know the flag treats addr as a hint
		syscall.Syscall(syscall.SYS_MUNMAP, got, uintptr(n*pageSize), 0)
		return fmt.Errorf("mmap placed the pages at %#x, not %#x", got, addr)
	}
	return nil
}

// UnmapFixed releases pages obtained from MapFixed.
func UnmapFixed(addr uintptr, n int) {
	syscall.Syscall(syscall.SYS_MUNMAP, addr, uintptr(n*pageSize), 0)
}
