//go:build verif && go1.21

package multiboot

// Multiboot2 information block model, encoder and placement in guarded memory
// (used by C10).
//
// The model (c10Case) is plain JSON-serialisable data. c10Normalise maps any
// decoded value onto a well-formed one, c10Encode turns it into the bytes a
// boot loader would hand to the kernel, c10Place copies them to the END of a
// guarded mapping (the byte after the end tag is inaccessible) and puts every
// section-name string table at the end of its own guarded mapping.
//
// Layout facts used by the encoder (multiboot2 specification, multiboot2.h as
// implemented by GRUB, and the block captured in multiboot_test.go):
//   block   : u32 total_size, u32 reserved, tags..., end tag (type 0, size 8)
//   tag     : u32 type, u32 size (header included, padding excluded); the next
//             tag starts at the next multiple of 8
//   type 1  : command line, NUL terminated string
//   type 6  : u32 entry_size, u32 entry_version, entries of entry_size bytes:
//             u64 addr, u64 len, u32 type, u32 reserved (+ future extension)
//   type 8  : u64 addr, u32 pitch, u32 width, u32 height, u8 bpp, u8 type,
//             u16 reserved, colour info (type 0: u32 n + n*3 palette bytes,
//             type 1: 6 bytes red/green/blue position+mask size, type 2: none)
//   type 9  : u32 num, u32 entsize, u32 shndx, num * Elf64_Shdr (64 bytes)

import (
	"bytes"
	"encoding/binary"
	"fmt"
	"sort"

	"verifharness/vlib"
)

const (
	c10MaxTags     = 24
	c10MaxRegions  = 600
	c10MaxSections = 2100
	c10MaxStrtab   = 2048
	c10MaxRaw      = 1 << 17
	c10MaxCmd      = 1 << 17
	c10MaxPalette  = 16
)

type c10Region struct {
	A uint64 `json:"a"`
	L uint64 `json:"l"`
	T uint32 `json:"t"`
}

type c10Mmap struct {
	EntrySize uint32      `json:"esz"`  // 24 + 8k
	Version   uint32      `json:"ver"`  // entry_version (not interpreted)
	Fill      byte        `json:"fill"` // value of every entry byte after the type field
	Regions   []c10Region `json:"regions"`
}

type c10Fb struct {
	Addr     uint64 `json:"addr"`
	Pitch    uint32 `json:"pitch"`
	Width    uint32 `json:"w"`
	Height   uint32 `json:"h"`
	Bpp      uint8  `json:"bpp"`
	Type     uint8  `json:"type"` // 0 indexed, 1 RGB, 2 EGA text
	Reserved uint16 `json:"rsv"`
	Color    []byte `json:"color"` // colour-info bytes exactly as in the tag
}

type c10Section struct {
	Name  uint32 `json:"name"` // index into the string table
	Type  uint32 `json:"type"`
	Flags uint64 `json:"flags"`
	Addr  uint64 `json:"addr"`
	Size  uint64 `json:"size"`
	Other uint64 `json:"other"` // fills sh_offset, sh_link/info, sh_addralign, sh_entsize
}

type c10Elf struct {
	Shndx    uint32       `json:"shndx"`  // index of the section-name string table section
	Strtab   []byte       `json:"strtab"` // the string table (ends with NUL)
	Sections []c10Section `json:"sections"`
}

type c10Tag struct {
	Kind string   `json:"kind"`           // cmdline | mmap | fb | elf | raw
	Type uint32   `json:"type,omitempty"` // raw: tag type (never 0, 1, 6, 8, 9)
	Raw  []byte   `json:"raw,omitempty"`  // raw: payload
	Cmd  string   `json:"cmd,omitempty"`  // cmdline: text (printable ASCII, space, tab)
	Mmap *c10Mmap `json:"mmap,omitempty"`
	Fb   *c10Fb   `json:"fb,omitempty"`
	Elf  *c10Elf  `json:"elf,omitempty"`
}

type c10Case struct {
	Pad    byte     `json:"pad"`    // value of every alignment padding byte
	StopAt int      `json:"stopat"` // k >= 1: a second walk whose visitor returns false at the k-th region
	Tags   []c10Tag `json:"tags"`
}

var c10KindType = map[string]uint32{"cmdline": 1, "mmap": 6, "fb": 8, "elf": 9}

// c10CmdAlphabet is what a byte outside the command-line alphabet is mapped to.
var c10CmdAlphabet = []byte(" \t=ab=  k1v-_./")

func c10CmdChar(b byte) byte {
	if b == ' ' || b == '\t' || (b >= 0x21 && b <= 0x7e) {
		return b
	}
	return c10CmdAlphabet[int(b)%len(c10CmdAlphabet)]
}

// c10RawType maps any number to a tag type the kernel does not look for.
func c10RawType(t uint32) uint32 {
	switch t {
	case 0, 1, 6, 8, 9:
		return 11 + t
	}
	return t
}

// first returns the index of the first tag of the kind, or -1.
func (c c10Case) first(kind string) int {
	for i, t := range c.Tags {
		if t.Kind == kind {
			return i
		}
	}
	return -1
}

// c10Normalise returns a well-formed copy of c (deep copy; idempotent).
func c10Normalise(c c10Case) c10Case {
	out := c10Case{Pad: c.Pad, StopAt: c.StopAt}
	for _, t := range c.Tags {
		if len(out.Tags) == c10MaxTags {
			break
		}
		n := c10Tag{Kind: t.Kind}
		switch t.Kind {
		case "cmdline":
			b := []byte(t.Cmd)
			if len(b) > c10MaxCmd {
				b = b[:c10MaxCmd]
			}
			for i := range b {
				b[i] = c10CmdChar(b[i])
			}
			n.Cmd = string(b)
		case "mmap":
			m := c10Mmap{}
			if t.Mmap != nil {
				m = *t.Mmap
			}
			if m.EntrySize < 24 {
				m.EntrySize = 24
			}
			if m.EntrySize > 24+8*7 {
				m.EntrySize = 24 + 8*7
			}
			m.EntrySize = (m.EntrySize + 7) &^ 7
			m.Regions = append([]c10Region{}, m.Regions...)
			if len(m.Regions) > c10MaxRegions {
				m.Regions = m.Regions[:c10MaxRegions]
			}
			n.Mmap = &m
		case "fb":
			f := c10Fb{}
			if t.Fb != nil {
				f = *t.Fb
			}
			// every type byte is kept (quantifier: "every framebuffer type"); an undefined type carries at most 12 unspecified bytes
			col := append([]byte{}, f.Color...)
			if f.Type > 2 && len(col) > 12 {
				col = col[:12]
			}
			switch f.Type {
			case 0:
				nc := 0
				if len(col) >= 4 {
					nc = int(col[0]) % (c10MaxPalette + 1)
				}
				want := 4 + 3*nc
				for len(col) < want {
					col = append(col, 0)
				}
				col = col[:want]
				binary.LittleEndian.PutUint32(col, uint32(nc))
			case 1:
				for len(col) < 6 {
					col = append(col, 0)
				}
				col = col[:6]
			case 2:
				col = col[:0]
			}
			f.Color = col
			n.Fb = &f
		case "elf":
			e := c10Elf{}
			if t.Elf != nil {
				e = *t.Elf
			}
			e.Sections = append([]c10Section{}, e.Sections...)
			if len(e.Sections) > c10MaxSections {
				e.Sections = e.Sections[:c10MaxSections]
			}
			e.Strtab = append([]byte{}, e.Strtab...)
			if len(e.Strtab) > c10MaxStrtab {
				e.Strtab = e.Strtab[:c10MaxStrtab]
			}
			if len(e.Sections) == 0 {
				e.Shndx = 0
			} else {
				e.Shndx %= uint32(len(e.Sections))
				if len(e.Strtab) == 0 {
					e.Strtab = []byte{0}
				}
			}
			if len(e.Strtab) > 0 {
				e.Strtab[len(e.Strtab)-1] = 0
			}
			for i := range e.Sections {
				e.Sections[i].Name %= uint32(len(e.Strtab))
			}
			if len(e.Sections) > 0 {
				// the string-table section describes the table itself; its
				// address is only known once the table has been placed
				e.Sections[e.Shndx].Size = uint64(len(e.Strtab))
				e.Sections[e.Shndx].Addr = 0
			}
			n.Elf = &e
		default:
			n.Kind = "raw"
			n.Type = c10RawType(t.Type)
			n.Raw = append([]byte{}, t.Raw...)
			if len(n.Raw) > c10MaxRaw {
				n.Raw = n.Raw[:c10MaxRaw]
			}
			if len(n.Raw) == 0 {
				n.Raw = nil
			}
		}
		out.Tags = append(out.Tags, n)
	}
	regions := 0
	if i := out.first("mmap"); i >= 0 {
		regions = len(out.Tags[i].Mmap.Regions)
	}
	if out.StopAt < 0 || out.StopAt > regions {
		out.StopAt = 0
	}
	return out
}

// ---------------------------------------------------------------------------
// encoder

type c10Image struct {
	block []byte
	off   []int    // offset of each model tag in the block
	size  []uint32 // size field of each model tag
}

// c10Encode serialises a normalised case. strtabAddr[i] is the address the
// string table of tag i (an ELF tag) has been placed at.
func c10Encode(c c10Case, strtabAddr map[int]uint64) c10Image {
	var img c10Image
	b := make([]byte, 8, 256)
	le := binary.LittleEndian
	p32 := func(v uint32) { b = le.AppendUint32(b, v) }
	p64 := func(v uint64) { b = le.AppendUint64(b, v) }
	for ti, t := range c.Tags {
		start := len(b)
		img.off = append(img.off, start)
		typ := c10KindType[t.Kind]
		if t.Kind == "raw" {
			typ = t.Type
		}
		p32(typ)
		p32(0) // size, patched below
		switch t.Kind {
		case "cmdline":
			b = append(b, t.Cmd...)
			b = append(b, 0)
		case "mmap":
			p32(t.Mmap.EntrySize)
			p32(t.Mmap.Version)
			for _, r := range t.Mmap.Regions {
				p64(r.A)
				p64(r.L)
				p32(r.T)
				for k := uint32(20); k < t.Mmap.EntrySize; k++ {
					b = append(b, t.Mmap.Fill)
				}
			}
		case "fb":
			f := t.Fb
			p64(f.Addr)
			p32(f.Pitch)
			p32(f.Width)
			p32(f.Height)
			b = append(b, f.Bpp, f.Type)
			b = le.AppendUint16(b, f.Reserved)
			b = append(b, f.Color...)
		case "elf":
			e := t.Elf
			p32(uint32(len(e.Sections)))
			p32(64)
			p32(e.Shndx)
			for i, s := range e.Sections {
				addr := s.Addr
				if uint32(i) == e.Shndx {
					addr = strtabAddr[ti]
				}
				p32(s.Name)
				p32(s.Type)
				p64(s.Flags)
				p64(addr)
				p64(s.Other) // sh_offset
				p64(s.Size)
				p32(uint32(s.Other >> 7))  // sh_link
				p32(uint32(s.Other >> 29)) // sh_info
				p64(s.Other ^ 0x10)        // sh_addralign
				p64(^s.Other)              // sh_entsize
			}
		case "raw":
			b = append(b, t.Raw...)
		}
		size := uint32(len(b) - start)
		le.PutUint32(b[start+4:], size)
		img.size = append(img.size, size)
		for len(b)%8 != 0 {
			b = append(b, c.Pad)
		}
	}
	p32(0)
	p32(8)
	le.PutUint32(b[0:], uint32(len(b)))
	le.PutUint32(b[4:], 0)
	img.block = b
	return img
}

// ---------------------------------------------------------------------------
// placement in guarded memory

type c10Arena struct {
	g    *vlib.Guarded
	used []byte // the tail of g.Data that holds the object
}

var (
	c10BlockArenas = map[int]*c10Arena{} // by page count
	c10StrArenas   []*c10Arena           // by ordinal of the ELF tag
)

const c10Junk = 0xA5 // what accessible memory in front of an object is filled with

func c10FillJunk(b []byte) {
	if len(b) > 4096 {
		b = b[len(b)-4096:]
	}
	if len(b) == 0 {
		return
	}
	b[0] = c10Junk
	for n := 1; n < len(b); n *= 2 {
		copy(b[n:], b[:n])
	}
}

func (a *c10Arena) put(obj []byte) {
	a.used = a.g.Tail(len(obj))
	c10FillJunk(a.g.Data[:len(a.g.Data)-len(obj)])
	copy(a.used, obj)
}

func (a *c10Arena) addr() uintptr {
	if len(a.used) == 0 {
		return a.g.Addr() + uintptr(len(a.g.Data))
	}
	return vlib.AddrOf(a.used)
}

func (a *c10Arena) end() uintptr { return a.g.Addr() + uintptr(len(a.g.Data)) }

type c10Env struct {
	c       c10Case
	img     c10Image
	block   *c10Arena
	strtabs map[int]*c10Arena // by tag index
}

// c10Place builds the block of a normalised case and places everything.
func c10Place(c c10Case) (*c10Env, error) {
	env := &c10Env{c: c, strtabs: map[int]*c10Arena{}}
	addrs := map[int]uint64{}
	ord := 0
	for ti, t := range c.Tags {
		if t.Kind != "elf" {
			continue
		}
		if ord == len(c10StrArenas) {
			g, err := vlib.NewGuarded(c10MaxStrtab, false)
			if err != nil {
				return nil, err
			}
			c10StrArenas = append(c10StrArenas, &c10Arena{g: g})
		}
		a := c10StrArenas[ord]
		ord++
		a.put(t.Elf.Strtab)
		env.strtabs[ti] = a
		addrs[ti] = uint64(a.addr())
	}
	env.img = c10Encode(c, addrs)
	pages := (len(env.img.block) + 4095) / 4096
	a := c10BlockArenas[pages]
	if a == nil {
		g, err := vlib.NewGuarded(pages*4096, false)
		if err != nil {
			return nil, err
		}
		a = &c10Arena{g: g}
		c10BlockArenas[pages] = a
	}
	env.block = a
	env.reset()
	return env, nil
}

// reset restores the pristine block (VisitMemRegions rewrites type fields in
// place), points the package at it and drops the command-line cache.
func (env *c10Env) reset() {
	env.block.put(env.img.block)
	SetInfoPtr(env.block.addr())
	cmdLineKV = nil
}

// where describes an address relative to the placed objects without printing
// the (run dependent) address itself.
func (env *c10Env) where(addr uintptr) string {
	type obj struct {
		name string
		a    *c10Arena
	}
	objs := []obj{{"the information block", env.block}}
	var idx []int
	for ti := range env.strtabs {
		idx = append(idx, ti)
	}
	sort.Ints(idx)
	for _, ti := range idx {
		objs = append(objs, obj{fmt.Sprintf("the section-name string table of tag %d", ti), env.strtabs[ti]})
	}
	for _, o := range objs {
		start, end := o.a.addr(), o.a.end()
		switch {
		case addr >= end && addr < end+4096:
			return fmt.Sprintf("at the inaccessible byte %d past the end of %s", addr-end+1, o.name)
		case addr >= start && addr < end:
			return fmt.Sprintf("inside %s at offset %d", o.name, addr-start)
		case addr < start && addr+4096 >= o.a.g.Addr() && addr < o.a.g.Addr():
			return fmt.Sprintf("in the inaccessible page in front of the mapping that holds %s", o.name)
		case addr < start && addr >= o.a.g.Addr():
			return fmt.Sprintf("%d bytes before the start of %s", start-addr, o.name)
		}
	}
	return "at an address unrelated to the block or its string tables"
}

// ---------------------------------------------------------------------------
// data-provider layer: bytes <-> model (native fuzzing, seed corpus)

type c10Reader struct {
	b []byte
	i int
}

func (r *c10Reader) more() bool { return r.i < len(r.b) }
func (r *c10Reader) u8() byte {
	var v byte
	if r.i < len(r.b) {
		v = r.b[r.i]
	}
	r.i++
	return v
}
func (r *c10Reader) u16() uint16 { return uint16(r.u8()) | uint16(r.u8())<<8 }
func (r *c10Reader) u32() uint32 { return uint32(r.u16()) | uint32(r.u16())<<16 }
func (r *c10Reader) u64() uint64 { return uint64(r.u32()) | uint64(r.u32())<<32 }
// count reads a length: one byte, or 255 followed by three bytes for the rare long lists.
func (r *c10Reader) count(max int) int {
	n := int(r.u8())
	if n == 255 {
		n = int(r.u8()) | int(r.u8())<<8 | int(r.u8())<<16
	}
	return n % (max + 1)
}

func c10AppendCount(b []byte, n int) []byte {
	if n < 255 {
		return append(b, byte(n))
	}
	return append(b, 255, byte(n), byte(n>>8), byte(n>>16))
}

func (r *c10Reader) bytes(n int) []byte {
	out := make([]byte, n)
	for i := range out {
		out[i] = r.u8()
	}
	return out
}

var c10Kinds = []string{"raw", "cmdline", "mmap", "fb", "elf"}

// c10FromBytes maps any byte string to a well-formed case.
func c10FromBytes(data []byte) c10Case {
	r := &c10Reader{b: data}
	var c c10Case
	c.Pad = r.u8()
	c.StopAt = r.count(c10MaxRegions)
	for len(c.Tags) < c10MaxTags && r.more() {
		t := c10Tag{Kind: c10Kinds[int(r.u8())%len(c10Kinds)]}
		switch t.Kind {
		case "cmdline":
			t.Cmd = string(r.bytes(r.count(c10MaxCmd)))
		case "mmap":
			m := &c10Mmap{}
			m.EntrySize = 24 + 8*uint32(r.u8()%8)
			m.Version = r.u32()
			m.Fill = r.u8()
			n := r.count(c10MaxRegions)
			for i := 0; i < n; i++ {
				m.Regions = append(m.Regions, c10Region{A: r.u64(), L: r.u64(), T: r.u32()})
			}
			t.Mmap = m
		case "fb":
			f := &c10Fb{Addr: r.u64(), Pitch: r.u32(), Width: r.u32(), Height: r.u32(), Bpp: r.u8(), Type: r.u8(), Reserved: r.u16()}
			switch f.Type {
			case 0:
				nc := int(r.u8()) % (c10MaxPalette + 1)
				f.Color = append([]byte{byte(nc), 0, 0, 0}, r.bytes(3*nc)...)
			case 1:
				f.Color = r.bytes(6)
			case 2:
			default:
				f.Color = r.bytes(int(r.u8()) % 13)
			}
			t.Fb = f
		case "elf":
			e := &c10Elf{}
			n := r.count(c10MaxSections)
			e.Shndx = uint32(r.count(c10MaxSections))
			e.Strtab = r.bytes(int(r.u16()) % (c10MaxStrtab + 1))
			for i := 0; i < n; i++ {
				e.Sections = append(e.Sections, c10Section{Name: uint32(r.u16()), Type: r.u32(), Flags: r.u64(), Addr: r.u64(), Size: r.u64(), Other: r.u64()})
			}
			t.Elf = e
		case "raw":
			t.Type = r.u32()
			t.Raw = r.bytes(r.count(c10MaxRaw))
		}
		c.Tags = append(c.Tags, t)
	}
	return c10Normalise(c)
}

// c10ToBytes is the inverse of c10FromBytes on normalised cases (with at most
// 255 regions to stop at and name indices below 65536).
func c10ToBytes(c c10Case) []byte {
	var b []byte
	le := binary.LittleEndian
	b = c10AppendCount(append(b, c.Pad), c.StopAt)
	for _, t := range c.Tags {
		k := 0
		for i, name := range c10Kinds {
			if name == t.Kind {
				k = i
			}
		}
		b = append(b, byte(k))
		switch t.Kind {
		case "cmdline":
			b = c10AppendCount(b, len(t.Cmd))
			b = append(b, t.Cmd...)
		case "mmap":
			b = append(b, byte((t.Mmap.EntrySize-24)/8))
			b = le.AppendUint32(b, t.Mmap.Version)
			b = append(b, t.Mmap.Fill)
			b = c10AppendCount(b, len(t.Mmap.Regions))
			for _, r := range t.Mmap.Regions {
				b = le.AppendUint64(b, r.A)
				b = le.AppendUint64(b, r.L)
				b = le.AppendUint32(b, r.T)
			}
		case "fb":
			f := t.Fb
			b = le.AppendUint64(b, f.Addr)
			b = le.AppendUint32(b, f.Pitch)
			b = le.AppendUint32(b, f.Width)
			b = le.AppendUint32(b, f.Height)
			b = append(b, f.Bpp, f.Type)
			b = le.AppendUint16(b, f.Reserved)
			switch f.Type {
			case 0:
				b = append(b, f.Color[0])
				b = append(b, f.Color[4:]...)
			case 1:
				b = append(b, f.Color...)
			case 2:
			default:
				b = append(b, byte(len(f.Color)))
				b = append(b, f.Color...)
			}
		case "elf":
			e := t.Elf
			b = c10AppendCount(b, len(e.Sections))
			b = c10AppendCount(b, int(e.Shndx))
			b = le.AppendUint16(b, uint16(len(e.Strtab)))
			b = append(b, e.Strtab...)
			for _, s := range e.Sections {
				b = le.AppendUint16(b, uint16(s.Name))
				b = le.AppendUint32(b, s.Type)
				b = le.AppendUint64(b, s.Flags)
				b = le.AppendUint64(b, s.Addr)
				b = le.AppendUint64(b, s.Size)
				b = le.AppendUint64(b, s.Other)
			}
		case "raw":
			b = le.AppendUint32(b, t.Type)
			b = c10AppendCount(b, len(t.Raw))
			b = append(b, t.Raw...)
		}
	}
	return b
}

// c10ParseBlock turns a real information block (the one captured under qemu in
// multiboot_test.go) into a model. It is only used to seed the fuzz corpus and
// as a self-test of the encoder (the re-encoded block must equal the input).
func c10ParseBlock(blk, strtab []byte) (c10Case, error) {
	le := binary.LittleEndian
	var c c10Case
	if len(blk) < 16 || int(le.Uint32(blk)) != len(blk) {
		return c, fmt.Errorf("total size field %d, have %d bytes", le.Uint32(blk), len(blk))
	}
	for off := 8; ; {
		if off+8 > len(blk) {
			return c, fmt.Errorf("no end tag")
		}
		typ, size := le.Uint32(blk[off:]), int(le.Uint32(blk[off+4:]))
		if typ == 0 {
			break
		}
		if size < 8 || off+size > len(blk) {
			return c, fmt.Errorf("tag at %d: bad size %d", off, size)
		}
		body := blk[off+8 : off+size]
		var t c10Tag
		switch typ {
		case 1:
			t = c10Tag{Kind: "cmdline", Cmd: string(bytes.TrimRight(body, "\x00"))}
		case 6:
			m := &c10Mmap{EntrySize: le.Uint32(body), Version: le.Uint32(body[4:])}
			for p := 8; p+int(m.EntrySize) <= len(body); p += int(m.EntrySize) {
				m.Regions = append(m.Regions, c10Region{A: le.Uint64(body[p:]), L: le.Uint64(body[p+8:]), T: le.Uint32(body[p+16:])})
				m.Fill = body[p+20]
			}
			t = c10Tag{Kind: "mmap", Mmap: m}
		case 8:
			t = c10Tag{Kind: "fb", Fb: &c10Fb{Addr: le.Uint64(body), Pitch: le.Uint32(body[8:]), Width: le.Uint32(body[12:]), Height: le.Uint32(body[16:]),
				Bpp: body[20], Type: body[21], Reserved: le.Uint16(body[22:]), Color: append([]byte{}, body[24:]...)}}
		case 9:
			e := &c10Elf{Shndx: le.Uint32(body[8:]), Strtab: append([]byte{}, strtab...)}
			n := int(le.Uint32(body))
			for i := 0; i < n; i++ {
				s := body[12+64*i:]
				e.Sections = append(e.Sections, c10Section{Name: le.Uint32(s), Type: le.Uint32(s[4:]), Flags: le.Uint64(s[8:]), Addr: le.Uint64(s[16:]),
					Other: le.Uint64(s[24:]), Size: le.Uint64(s[32:])})
			}
			t = c10Tag{Kind: "elf", Elf: e}
		default:
			t = c10Tag{Kind: "raw", Type: typ, Raw: append([]byte{}, body...)}
		}
		c.Tags = append(c.Tags, t)
		off += (size + 7) &^ 7
	}
	return c10Normalise(c), nil
}
