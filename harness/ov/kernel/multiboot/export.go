//go:build verif

package multiboot

// VerifResetCmdLine drops the memoised boot command line so that a test
// process can present more than one information block (verification harness
// only; see /verif/DESIGN.md).
func VerifResetCmdLine() { cmdLineKV = nil }
