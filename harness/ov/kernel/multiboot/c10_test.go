//go:build verif && go1.21

package multiboot

// C10 — multiboot information is decoded exactly and never read past its end.
//
// Oracle: round trip. A block model is encoded by the harness' own builder
// (mb_builder_test.go), placed directly in front of an inaccessible page and
// queried through the exported API; what comes back must be what the model
// says, and no query may fault or panic.

import (
	"encoding/binary"
	"fmt"
	"os"
	"path/filepath"
	"sort"
	"strconv"
	"strings"
	"testing"
	"time"

	"pgregory.net/rapid"
	"verifharness/vlib"
)

// ---------------------------------------------------------------------------
// expectations derived from the model

func c10WantType(t uint32) uint32 {
	if t >= 1 && t <= 4 {
		return t
	}
	return 2 // reserved
}

type c10CmdRef struct {
	want  map[string][]string // key -> values written by tokens with zero or one '='
	loose map[string]bool     // every "text before an '='" of tokens with two or more '='
}

// c10RefCmdline is the reference reading of a command line: tokens are the
// maximal runs of non-blank characters (blank = space or tab, the only
// separators the generator emits); "flag" is reported as flag -> flag,
// "key=value" as key -> value.
func c10RefCmdline(text string) c10CmdRef {
	ref := c10CmdRef{want: map[string][]string{}, loose: map[string]bool{}}
	i := 0
	for i < len(text) {
		for i < len(text) && (text[i] == ' ' || text[i] == '\t') {
			i++
		}
		j := i
		for j < len(text) && text[j] != ' ' && text[j] != '\t' {
			j++
		}
		if j == i {
			break
		}
		tok := text[i:j]
		i = j
		switch strings.Count(tok, "=") {
		case 0:
			ref.want[tok] = append(ref.want[tok], tok)
		case 1:
			p := strings.IndexByte(tok, '=')
			ref.want[tok[:p]] = append(ref.want[tok[:p]], tok[p+1:])
		default:
			for p := 0; p < len(tok); p++ {
				if tok[p] == '=' {
					ref.loose[tok[:p]] = true
				}
			}
		}
	}
	return ref
}

type c10Sec struct {
	name   string
	flags  uint32
	addr   uint64
	size   uint64
	strtab bool // the address is that of the placed string table
}

func (s c10Sec) String() string {
	a := fmt.Sprintf("%#x", s.addr)
	if s.strtab {
		a = "<string table>"
	}
	return fmt.Sprintf("{name %q flags %#x addr %s size %#x}", s.name, s.flags, a, s.size)
}

func c10Name(strtab []byte, idx uint32) string {
	end := int(idx)
	for strtab[end] != 0 {
		end++
	}
	return string(strtab[idx:end])
}

func c10WantSections(e *c10Elf) []c10Sec {
	var out []c10Sec
	for i, s := range e.Sections {
		if s.Size == 0 {
			continue
		}
		out = append(out, c10Sec{name: c10Name(e.Strtab, s.Name), flags: uint32(s.Flags), addr: s.Addr, size: s.Size, strtab: uint32(i) == e.Shndx})
	}
	return out
}

// ---------------------------------------------------------------------------
// run

const c10Patience = 10 * time.Second

func (env *c10Env) call(what string, f func()) *vlib.Failure {
	// Mostly the block is installed once (c10Place) and all queries follow one another, as in the
	// kernel; one case in five restores the block's bytes and installs it anew before every query.
	if env.c.Pad&2 != 0 {
		env.reset()
	}
	pc := vlib.CatchFault(f)
	if !pc.Panicked {
		return nil
	}
	if fa, ok := pc.Value.(interface{ Addr() uintptr }); ok {
		return vlib.Failf("%s: memory fault (read outside accessible memory) %s\n%s", what, env.where(fa.Addr()), pc.Stack)
	}
	return vlib.Failf("%s panicked: %v\n%s", what, pc.Value, pc.Stack)
}

func c10Run(c c10Case) *vlib.Failure {
	defer SetInfoPtr(0)
	f, _ := c10RunKeep(c)
	return f
}

// c10RunKeep decodes one block and leaves it installed; it returns the
// address the block was presented at.
func c10RunKeep(c c10Case) (*vlib.Failure, uintptr) {
	c = c10Normalise(c)
	env, err := c10Place(c)
	if err != nil {
		panic("VERIF-HARNESS C10 cannot map guarded memory: " + err.Error())
	}
	return c10Queries(c, env), env.block.addr()
}

func c10Queries(c c10Case, env *c10Env) *vlib.Failure {
	// A walk that never terminates cannot be recovered from inside the process.
	defer vlib.StartPatience(c10Patience).After(func() {
		vlib.Die("C10", c, vlib.Failf("a multiboot query did not return within %v of wall-clock and CPU time (tag or entry walk that does not terminate)", c10Patience))
	})()

	// ---- memory map -------------------------------------------------------
	var regs []c10Region
	if i := c.first("mmap"); i >= 0 {
		regs = c.Tags[i].Mmap.Regions
	}
	fullWalk := func(when string) *vlib.Failure {
		var got []c10Region
		var changed *vlib.Failure
		nestAt := -1
		if len(regs) >= 2 && len(regs) <= 12 && c.Pad%4 == 1 {
			nestAt = int(c.Pad/4) % len(regs) // this visitor call scans the map itself while it holds its entry
		}
		if f := env.call("VisitMemRegions"+when, func() {
			VisitMemRegions(func(e *MemoryMapEntry) bool {
				seen := c10Region{A: e.PhysAddress, L: e.Length, T: uint32(e.Type)}
				if len(got) == nestAt {
					// whatever the visitor calls while it runs - a scan of its own included - the
					// entry it was handed stays what it was until it returns (what becomes of the
					// entry after the visitor has returned is the decoder's business)
					VisitMemRegions(func(*MemoryMapEntry) bool { return true })
					if now := (c10Region{A: e.PhysAddress, L: e.Length, T: uint32(e.Type)}); now != seen && changed == nil {
						changed = vlib.Failf("VisitMemRegions%s: the entry handed to the visitor for region %d read (addr %#x, len %#x, type %d) when the visitor was called and reads (addr %#x, len %#x, type %d) after the visitor scanned the memory map itself, before it returned: entries share storage",
							when, len(got), seen.A, seen.L, seen.T, now.A, now.L, now.T)
					}
				}
				got = append(got, seen)
				return len(got) <= len(regs)+2
			})
		}); f != nil {
			return f
		}
		if changed != nil {
			return changed
		}
		for i := 0; i < len(got) && i < len(regs); i++ {
			w := c10Region{A: regs[i].A, L: regs[i].L, T: c10WantType(regs[i].T)}
			if got[i] != w {
				return vlib.Failf("VisitMemRegions%s: region %d of %d reported as (addr %#x, len %#x, type %d); the block encodes (addr %#x, len %#x, type %d => %d)",
					when, i, len(regs), got[i].A, got[i].L, got[i].T, regs[i].A, regs[i].L, regs[i].T, w.T)
			}
		}
		if len(got) != len(regs) {
			return vlib.Failf("VisitMemRegions%s: visitor called %s%d times; the first memory-map tag encodes %d regions (memory-map tag present: %v)",
				when, map[bool]string{true: "at least ", false: ""}[len(got) > len(regs)], len(got), len(regs), c.first("mmap") >= 0)
		}
		return nil
	}
	stoppedWalk := func() *vlib.Failure {
		calls := 0
		var got []c10Region
		if f := env.call("VisitMemRegions (visitor stops the walk)", func() {
			VisitMemRegions(func(e *MemoryMapEntry) bool {
				calls++
				if calls > len(regs)+2 {
					return false
				}
				got = append(got, c10Region{A: e.PhysAddress, L: e.Length, T: uint32(e.Type)})
				return calls != c.StopAt
			})
		}); f != nil {
			return f
		}
		if calls != c.StopAt {
			return vlib.Failf("VisitMemRegions: the visitor returned false at call %d of %d regions, yet it was called %d times", c.StopAt, len(regs), calls)
		}
		for i := range got {
			if w := (c10Region{A: regs[i].A, L: regs[i].L, T: c10WantType(regs[i].T)}); got[i] != w {
				return vlib.Failf("VisitMemRegions (walk stopped by the visitor at call %d): region %d reported as (addr %#x, len %#x, type %d); the block encodes (addr %#x, len %#x, type %d => %d)",
					c.StopAt, i, got[i].A, got[i].L, got[i].T, regs[i].A, regs[i].L, regs[i].T, w.T)
			}
		}
		return nil
	}
	// the stopped walk comes first, in the middle or not at all; a complete walk always follows it
	if c.StopAt > 0 && c.Pad%2 == 1 {
		if f := stoppedWalk(); f != nil {
			return f
		}
		if f := fullWalk(" (first complete walk, after a walk the visitor stopped)"); f != nil {
			return f
		}
	} else {
		if f := fullWalk(""); f != nil {
			return f
		}
		if c.StopAt > 0 {
			if f := stoppedWalk(); f != nil {
				return f
			}
			if f := fullWalk(" (again, after a walk the visitor stopped)"); f != nil {
				return f
			}
		}
	}

	// ---- framebuffer ------------------------------------------------------
	var wantFb *c10Fb
	if i := c.first("fb"); i >= 0 {
		wantFb = c.Tags[i].Fb
	}
	var gotFb c10Fb
	var fbNil, colNil bool
	if f := env.call("GetFramebufferInfo", func() {
		fb := GetFramebufferInfo()
		if fb == nil {
			fbNil = true
			return
		}
		gotFb = c10Fb{Addr: fb.PhysAddr, Pitch: fb.Pitch, Width: fb.Width, Height: fb.Height, Bpp: fb.Bpp, Type: uint8(fb.Type)}
		ci := fb.RGBColorInfo()
		if ci == nil {
			colNil = true
			return
		}
		gotFb.Color = []byte{ci.RedPosition, ci.RedMaskSize, ci.GreenPosition, ci.GreenMaskSize, ci.BluePosition, ci.BlueMaskSize}
	}); f != nil {
		return f
	}
	switch {
	case wantFb == nil && !fbNil:
		return vlib.Failf("GetFramebufferInfo: block has no framebuffer tag, got a description (addr %#x %dx%d type %d)", gotFb.Addr, gotFb.Width, gotFb.Height, gotFb.Type)
	case wantFb != nil && fbNil:
		return vlib.Failf("GetFramebufferInfo: nil although the block has a framebuffer tag (tag %d)", c.first("fb"))
	case wantFb != nil:
		w := *wantFb
		if gotFb.Addr != w.Addr || gotFb.Pitch != w.Pitch || gotFb.Width != w.Width || gotFb.Height != w.Height || gotFb.Bpp != w.Bpp || gotFb.Type != w.Type {
			return vlib.Failf("GetFramebufferInfo: got (addr %#x pitch %d %dx%d bpp %d type %d); the first framebuffer tag encodes (addr %#x pitch %d %dx%d bpp %d type %d)",
				gotFb.Addr, gotFb.Pitch, gotFb.Width, gotFb.Height, gotFb.Bpp, gotFb.Type, w.Addr, w.Pitch, w.Width, w.Height, w.Bpp, w.Type)
		}
		if w.Type == 1 {
			if colNil {
				return vlib.Failf("RGBColorInfo: nil for an RGB framebuffer")
			}
			if string(gotFb.Color) != string(w.Color) {
				return vlib.Failf("RGBColorInfo: got (r pos,size g pos,size b pos,size) %v; the tag encodes %v", gotFb.Color, w.Color)
			}
		} else if !colNil {
			return vlib.Failf("RGBColorInfo: %v for a framebuffer of type %d (not RGB), want nil", gotFb.Color, w.Type)
		}
	}

	// ---- command line -----------------------------------------------------
	ref := c10CmdRef{want: map[string][]string{}, loose: map[string]bool{}}
	cmdText := ""
	if i := c.first("cmdline"); i >= 0 {
		cmdText = c.Tags[i].Cmd
		ref = c10RefCmdline(cmdText)
	}
	var kv map[string]string
	if f := env.call("GetBootCmdLine", func() {
		m := GetBootCmdLine()
		kv = make(map[string]string, len(m))
		for k, v := range m {
			kv[string(append([]byte(nil), k...))] = string(append([]byte(nil), v...))
		}
	}); f != nil {
		return f
	}
	cmdLineKV = nil
	keys := make([]string, 0, len(ref.want))
	for k := range ref.want {
		keys = append(keys, k)
	}
	sort.Strings(keys)
	for _, k := range keys {
		v, ok := kv[k]
		if !ok {
			return vlib.Failf("GetBootCmdLine(%q): key %q is missing; got %s", cmdText, k, c10ShowKV(kv))
		}
		if ref.loose[k] {
			continue
		}
		okv := false
		for _, w := range ref.want[k] {
			okv = okv || w == v
		}
		if !okv {
			return vlib.Failf("GetBootCmdLine(%q): key %q has value %q, the line writes %q; got %s", cmdText, k, v, ref.want[k], c10ShowKV(kv))
		}
	}
	keys = keys[:0]
	for k := range kv {
		keys = append(keys, k)
	}
	sort.Strings(keys)
	for _, k := range keys {
		if _, ok := ref.want[k]; !ok && !ref.loose[k] {
			return vlib.Failf("GetBootCmdLine(%q) (command-line tag present: %v): unexpected key %q; got %s", cmdText, c.first("cmdline") >= 0, k, c10ShowKV(kv))
		}
	}

	// ---- ELF sections -----------------------------------------------------
	var wantSecs []c10Sec
	var strAddr uint64
	if i := c.first("elf"); i >= 0 {
		wantSecs = c10WantSections(c.Tags[i].Elf)
		strAddr = uint64(env.strtabs[i].addr())
	}
	var gotSecs []c10Sec
	if f := env.call("VisitElfSections", func() {
		VisitElfSections(func(name string, flags ElfSectionFlag, address uintptr, size uint64) {
			if len(gotSecs) > len(wantSecs)+2 {
				return
			}
			gotSecs = append(gotSecs, c10Sec{name: string(append([]byte(nil), name...)), flags: uint32(flags), addr: uint64(address), size: size})
		})
	}); f != nil {
		return f
	}
	// every non-empty section once, with its name, flags, address and size. The statement fixes the
	// order of the memory regions, not of the sections ("each non-empty kernel ELF section"): the
	// reports are compared as a multiset - in table order first, which is what the shipped code does
	// and gives the better message.
	keyOf := func(x c10Sec) c10Sec {
		if x.strtab {
			x.addr = strAddr // (a wanted section that is the string table: placed by the harness)
		}
		x.strtab = false
		return x
	}
	inOrder := len(gotSecs) == len(wantSecs)
	for i := 0; inOrder && i < len(wantSecs); i++ {
		inOrder = keyOf(gotSecs[i]) == keyOf(wantSecs[i])
	}
	if !inOrder {
		left := map[c10Sec]int{}
		for _, w := range wantSecs {
			left[keyOf(w)]++
		}
		for i, g := range gotSecs {
			g = keyOf(g)
			if left[g] == 0 {
				return vlib.Failf("VisitElfSections: callback %d of %d got %v, which is no non-empty section of the first ELF tag (or was reported before): the tag encodes %v", i, len(wantSecs), gotSecs[i], wantSecs)
			}
			left[g]--
		}
	}
	if len(gotSecs) != len(wantSecs) {
		return vlib.Failf("VisitElfSections: visitor called %s%d times; the first ELF tag encodes %d non-empty sections (ELF tag present: %v)",
			map[bool]string{true: "at least ", false: ""}[len(gotSecs) > len(wantSecs)], len(gotSecs), len(wantSecs), c.first("elf") >= 0)
	}
	return nil
}

func c10ShowKV(kv map[string]string) string {
	keys := make([]string, 0, len(kv))
	for k := range kv {
		keys = append(keys, k)
	}
	sort.Strings(keys)
	var b strings.Builder
	b.WriteString("{")
	for i, k := range keys {
		if i > 0 {
			b.WriteString(", ")
		}
		fmt.Fprintf(&b, "%q: %q", k, kv[k])
	}
	b.WriteString("}")
	return b.String()
}

// ---------------------------------------------------------------------------
// classification

func c10Uniq(l []string) []string {
	sort.Strings(l)
	out := l[:0]
	for i, s := range l {
		if i == 0 || s != l[i-1] {
			out = append(out, s)
		}
	}
	return out
}

func c10TagSize(t c10Tag) int {
	switch t.Kind {
	case "cmdline":
		return 8 + len(t.Cmd) + 1
	case "mmap":
		return 16 + int(t.Mmap.EntrySize)*len(t.Mmap.Regions)
	case "fb":
		return 8 + 24 + len(t.Fb.Color)
	case "elf":
		return 8 + 12 + 64*len(t.Elf.Sections)
	}
	return 8 + len(t.Raw)
}

// c10Classify evaluates the non-trivial rule (>= 3 tags with a wanted tag not
// first, or an odd-sized tag in front of a wanted tag, or entry size != 24, or
// a region type outside 1..4) and computes the class labels.
func c10Classify(c c10Case) (nontrivial bool, labels []string) {
	add := func(s string) { labels = append(labels, s) }
	switch n := len(c.Tags); {
	case n == 0:
		add("tags=0")
	case n <= 2:
		add("tags=1-2")
	case n <= 5:
		add("tags=3-5")
	default:
		add("tags>=6")
	}
	total := 16
	for _, t := range c.Tags {
		total += (c10TagSize(t) + 7) &^ 7
	}
	if total > 4096 {
		add("block>1page")
	}
	wantedNotFirst, oddBefore := false, false
	for _, kind := range []string{"cmdline", "mmap", "fb", "elf"} {
		i := c.first(kind)
		if i < 0 {
			add("absent-" + kind)
			continue
		}
		n := 0
		for _, t := range c.Tags {
			if t.Kind == kind {
				n++
			}
		}
		if n > 1 {
			add("dup-" + kind)
		}
		if i > 0 {
			wantedNotFirst = true
		}
		if i == len(c.Tags)-1 {
			add(kind + "-directly-before-end-tag")
		}
		for _, t := range c.Tags[:i] {
			if c10TagSize(t)%8 != 0 {
				oddBefore = true
				add("odd-sized-tag-before-" + kind)
				break
			}
		}
	}
	for _, t := range c.Tags {
		if t.Kind == "raw" {
			if len(t.Raw) == 0 {
				add("raw-header-only")
			}
			if t.Type > 30 {
				add("raw-type>30")
			}
		}
		add(fmt.Sprintf("tag-size%%8=%d", c10TagSize(t)%8))
	}
	if wantedNotFirst && len(c.Tags) >= 3 {
		nontrivial = true
	}
	if oddBefore {
		nontrivial = true
	}
	if i := c.first("mmap"); i >= 0 {
		m := c.Tags[i].Mmap
		switch {
		case m.EntrySize == 24, m.EntrySize == 32, m.EntrySize == 40:
			add(fmt.Sprintf("entry-size=%d", m.EntrySize))
		default:
			add("entry-size>40")
		}
		if m.EntrySize != 24 {
			nontrivial = true
		}
		switch n := len(m.Regions); {
		case n == 0:
			add("regions=0")
		case n == 1:
			add("regions=1")
		case n >= 30:
			add("regions>=30")
		}
		for _, r := range m.Regions {
			switch {
			case r.T == 0:
				add("type=0")
			case r.T <= 4:
				add("type=1..4")
			case r.T == 5:
				add("type=5")
			case r.T == 6:
				add("type=6")
			case r.T == 0xffffffff:
				add("type=max")
			default:
				add("type=other")
			}
			if r.T < 1 || r.T > 4 {
				nontrivial = true
			}
			if r.A > 0xffffffff || r.L > 0xffffffff {
				add("region-above-4G")
			}
		}
		if c.StopAt > 0 {
			add("early-stop")
			if c.StopAt == len(m.Regions) {
				add("early-stop-at-last")
			}
		}
	}
	if i := c.first("fb"); i >= 0 {
		if ft := c.Tags[i].Fb.Type; ft <= 2 {
			add(fmt.Sprintf("fb-type=%d", ft))
		} else {
			add("fb-type=undefined")
		}
	}
	if i := c.first("cmdline"); i >= 0 {
		text := c.Tags[i].Cmd
		ref := c10RefCmdline(text)
		if len(text) > 4096 {
			add("cmdline-longer-than-a-page")
		}
		if len(ref.want) == 0 && len(ref.loose) == 0 {
			if text == "" {
				add("cmdline-empty")
			} else {
				add("cmdline-blank")
			}
		}
		for k, vs := range ref.want {
			if len(vs) > 1 {
				add("cmdline-dup-key")
			}
			for _, v := range vs {
				if v == "" && k != "" {
					add("cmdline-empty-value")
				}
			}
			if k == "" {
				add("cmdline-empty-key")
			}
		}
		if len(ref.loose) > 0 {
			add("cmdline-multi-eq-token")
		}
		if strings.Contains(text, "=") {
			add("cmdline-key=value")
		}
		if text != "" && (text[0] == ' ' || text[0] == '\t') {
			add("cmdline-leading-blank")
		}
		if text != "" && (text[len(text)-1] == ' ' || text[len(text)-1] == '\t') {
			add("cmdline-trailing-blank")
		}
		if strings.Contains(text, "\t") {
			add("cmdline-tab")
		}
		if strings.Contains(text, "  ") || strings.Contains(text, " \t") || strings.Contains(text, "\t ") || strings.Contains(text, "\t\t") {
			add("cmdline-blank-run")
		}
	}
	if i := c.first("elf"); i >= 0 {
		e := c.Tags[i].Elf
		switch n := len(e.Sections); {
		case n == 0:
			add("elf-sections=0")
		case n == 1:
			add("elf-sections=1")
		case n >= 8:
			add("elf-sections>=8")
		}
		if e.Shndx != 0 {
			add("elf-shndx!=0")
		}
		if len(e.Sections) > 1 && int(e.Shndx) == len(e.Sections)-1 {
			add("elf-shndx=last")
		}
		for _, s := range e.Sections {
			if s.Size == 0 {
				add("elf-empty-section")
				continue
			}
			if e.Strtab[s.Name] == 0 {
				add("elf-empty-name")
			}
			if int(s.Name) == len(e.Strtab)-1 {
				add("elf-name-is-last-byte-of-table")
			}
			if s.Name > 0 && e.Strtab[s.Name-1] != 0 {
				add("elf-name-is-suffix")
			}
			if int(s.Name)+len(c10Name(e.Strtab, s.Name)) == len(e.Strtab)-1 {
				add("elf-name-ends-at-table-end")
			}
			if s.Flags>>32 != 0 {
				add("elf-flags>32bit")
			}
			if s.Addr>>32 != 0 {
				add("elf-addr>32bit")
			}
		}
	}
	return nontrivial, c10Uniq(labels)
}

// ---------------------------------------------------------------------------
// generators

// c10Word: 1..8 printable ASCII characters without blank and '='.
var c10Word = rapid.StringOfN(rapid.RuneFrom(c10WordRunes()), 1, 8, -1)

func c10WordRunes() []rune {
	var r []rune
	for ch := rune(0x21); ch <= 0x7e; ch++ {
		if ch != '=' {
			r = append(r, ch)
		}
	}
	return r
}

func c10GenBlank(t *rapid.T, min, max int, label string) string {
	n := rapid.IntRange(min, max).Draw(t, label)
	b := make([]byte, n)
	for i := range b {
		b[i] = rapid.SampledFrom([]byte{' ', ' ', ' ', '\t'}).Draw(t, "blank")
	}
	return string(b)
}

func c10GenCmdline(t *rapid.T) string {
	if rapid.IntRange(0, 15).Draw(t, "emptycmd") == 0 {
		return ""
	}
	var sb strings.Builder
	sb.WriteString(c10GenBlank(t, 0, 3, "lead"))
	if rapid.IntRange(0, 29).Draw(t, "longcmd") == 0 {
		// a command line of several kilobytes: hundreds of entries, or one entry with a very long
		// value, followed by the usual handful of generated tokens
		w := c10Word.Draw(t, "longword")
		if rapid.Bool().Draw(t, "longvalue") {
			sb.WriteString(w + "=" + strings.Repeat("v", rapid.SampledFrom([]int{4000, 4096, 5000, 70000}).Draw(t, "valuelen")) + " ")
		} else {
			for i, n := 0, rapid.SampledFrom([]int{300, 450, 700, 3000}).Draw(t, "nlong"); i < n; i++ {
				fmt.Fprintf(&sb, "%s%d=%d%s ", w, i, i*7, w)
			}
		}
	}
	n := rapid.IntRange(0, 6).Draw(t, "ntokens")
	var keys []string
	for i := 0; i < n; i++ {
		if i > 0 {
			sb.WriteString(c10GenBlank(t, 1, 4, "sep"))
		}
		key := c10Word.Draw(t, "key")
		if len(keys) > 0 && rapid.IntRange(0, 7).Draw(t, "dupkey") == 0 {
			key = rapid.SampledFrom(keys).Draw(t, "oldkey")
		}
		switch k := rapid.IntRange(0, 39).Draw(t, "tokkind"); {
		case k < 15: // flag
			sb.WriteString(key)
			keys = append(keys, key)
		case k < 32: // key=value
			sb.WriteString(key + "=" + c10Word.Draw(t, "value"))
			keys = append(keys, key)
		case k < 34:
			sb.WriteString(key + "=")
			keys = append(keys, key)
		case k < 36:
			sb.WriteString("=" + c10Word.Draw(t, "value"))
		case k < 37:
			sb.WriteString("=")
		default: // two or more '=': outside the statement, must not disturb the rest
			sb.WriteString(rapid.SampledFrom([]string{key + "=a=b", key + "==", "==", "=" + key + "=", key + "=x=" + key}).Draw(t, "multieq"))
		}
	}
	sb.WriteString(c10GenBlank(t, 0, 3, "trail"))
	return sb.String()
}

var c10TypeGen = rapid.OneOf(
	rapid.SampledFrom([]uint32{0, 1, 1, 1, 2, 3, 4, 5, 5, 6, 7, 0xffffffff, 0xfffffffe, 0x80000000, 0x100, 0x10001}),
	rapid.Uint32(),
)

var c10RegionGen = rapid.Custom(func(t *rapid.T) c10Region {
	return c10Region{
		A: rapid.Uint64().Draw(t, "addr"),
		L: rapid.Uint64().Draw(t, "len"),
		T: c10TypeGen.Draw(t, "typ"),
	}
})

func c10GenMmap(t *rapid.T) *c10Mmap {
	m := &c10Mmap{}
	m.EntrySize = rapid.SampledFrom([]uint32{24, 24, 24, 32, 32, 40, 48, 56, 64, 72, 80}).Draw(t, "esz")
	m.Version = rapid.SampledFrom([]uint32{0, 0, 1, 0xffffffff}).Draw(t, "ver")
	m.Fill = rapid.SampledFrom([]byte{0, 0, 0xff, 0xa5, 1, 5}).Draw(t, "fill")
	switch rapid.IntRange(0, 9).Draw(t, "nclass") {
	case 0:
	case 1:
		m.Regions = rapid.SliceOfN(c10RegionGen, 1, 1).Draw(t, "regions")
	case 9:
		m.Regions = rapid.SliceOfN(c10RegionGen, 0, 10).Draw(t, "regions")
		m.Regions = append(m.Regions, rapid.SliceOfN(c10RegionGen, 20, 30).Draw(t, "moreregions")...)
		if rapid.IntRange(0, 3).Draw(t, "bulkregions") == 0 {
			// a firmware map of hundreds of entries: the drawn ones repeated at other addresses
			base := m.Regions
			for total := rapid.SampledFrom([]int{100, 128, 129, 256, 257, 600}).Draw(t, "nbulk"); len(m.Regions) < total; {
				r := base[len(m.Regions)%len(base)]
				r.A += uint64(len(m.Regions)) << 32
				m.Regions = append(m.Regions, r)
			}
		}
	default:
		m.Regions = rapid.SliceOfN(c10RegionGen, 0, 10).Draw(t, "regions")
	}
	return m
}

func c10GenFb(t *rapid.T) *c10Fb {
	f := &c10Fb{
		Addr:     rapid.OneOf(rapid.SampledFrom([]uint64{0xb8000, 0xfd000000, 0xa0000, 1 << 32, ^uint64(0)}), rapid.Uint64()).Draw(t, "fbaddr"),
		Pitch:    rapid.Uint32().Draw(t, "pitch"),
		Width:    rapid.Uint32().Draw(t, "width"),
		Height:   rapid.Uint32().Draw(t, "height"),
		Bpp:      rapid.OneOf(rapid.SampledFrom([]uint8{4, 8, 15, 16, 24, 32}), rapid.Uint8()).Draw(t, "bpp"),
		// the quantifier says "every framebuffer type": the three defined ones most of the time, any other byte otherwise
		// (an undefined type encodes no RGB layout, so none may be reported - round 21, C10-u)
		Type:     uint8(rapid.OneOf(rapid.IntRange(0, 2), rapid.IntRange(0, 2), rapid.IntRange(3, 255), rapid.SampledFrom([]int{3, 4, 0x80, 0xff})).Draw(t, "fbtype")),
		Reserved: rapid.SampledFrom([]uint16{0, 0, 0xffff, 0x0101}).Draw(t, "fbrsv"),
	}
	switch f.Type {
	case 0:
		nc := rapid.IntRange(0, 6).Draw(t, "ncolors")
		f.Color = append([]byte{byte(nc), 0, 0, 0}, rapid.SliceOfN(rapid.Byte(), 3*nc, 3*nc).Draw(t, "palette")...)
	case 1:
		f.Color = rapid.SliceOfN(rapid.Byte(), 6, 6).Draw(t, "rgb")
	case 2:
		f.Color = []byte{}
	default:
		// what follows the fixed part of a tag of an undefined type is not specified: nothing, or bytes that would pass for a layout
		f.Color = rapid.OneOf(rapid.Just([]byte{}), rapid.SliceOfN(rapid.Byte(), 6, 6), rapid.SliceOfN(rapid.Byte(), 0, 12)).Draw(t, "fbtail")
	}
	return f
}

var c10SecNames = []string{".text", ".data", ".bss", ".rodata", ".noptrbss", ".shstrtab", ".strtab", ".symtab", "a", ".note.go.buildid", ".t"}

type c10SecDraft struct {
	s         c10Section
	nameClass int
	nameRaw   int
}

var c10SecGen = rapid.Custom(func(t *rapid.T) c10SecDraft {
	d := c10SecDraft{s: c10Section{
		Type:  rapid.SampledFrom([]uint32{0, 1, 2, 3, 8, 0x70000000}).Draw(t, "stype"),
		Flags: rapid.OneOf(rapid.SampledFrom([]uint64{0, 1, 2, 3, 4, 6, 7, 0x100000003, 0xffffffff00000000, 0xffffffff, ^uint64(0)}), rapid.Uint64()).Draw(t, "flags"),
		Addr:  rapid.Uint64().Draw(t, "saddr"),
		Other: rapid.Uint64().Draw(t, "other"),
	}}
	switch rapid.IntRange(0, 5).Draw(t, "sizeclass") {
	case 0, 1:
		d.s.Size = 0
	case 2:
		d.s.Size = 1
	default:
		d.s.Size = rapid.Uint64().Draw(t, "ssize")
	}
	d.nameClass = rapid.IntRange(0, 9).Draw(t, "nameclass")
	d.nameRaw = rapid.IntRange(0, 1<<16).Draw(t, "nameraw")
	return d
})

var c10NameGen = rapid.Custom(func(t *rapid.T) []byte {
	if rapid.IntRange(0, 4).Draw(t, "rndname") == 0 {
		return rapid.SliceOfN(rapid.ByteRange(1, 255), 0, 10).Draw(t, "namebytes")
	}
	return []byte(rapid.SampledFrom(c10SecNames).Draw(t, "name"))
})

func c10GenElf(t *rapid.T) *c10Elf {
	e := &c10Elf{Strtab: []byte{}}
	lo, hi := 2, 12
	switch rapid.IntRange(0, 7).Draw(t, "nsecclass") {
	case 0:
		lo, hi = 0, 0
	case 1:
		lo, hi = 1, 1
	}
	drafts := rapid.SliceOfN(c10SecGen, lo, hi).Draw(t, "sections")
	if len(drafts) > 0 && rapid.IntRange(0, 39).Draw(t, "bulksections") == 0 {
		// an image with very many sections (-ffunction-sections style): the drawn ones repeated
		base := drafts
		for total := rapid.SampledFrom([]int{33, 64, 65, 128, 200, 1023, 1024, 1025, 1100, 2049}).Draw(t, "nbulksec"); len(drafts) < total; {
			d := base[len(drafts)%len(base)]
			d.s.Addr += uint64(len(drafts)) << 24
			drafts = append(drafts, d)
		}
	}
	n := len(drafts)
	// string table: optional leading NUL, then names, each followed by NUL
	var starts []uint32
	if rapid.IntRange(0, 3).Draw(t, "leadnul") != 0 {
		e.Strtab = append(e.Strtab, 0)
	}
	for _, nm := range rapid.SliceOfN(c10NameGen, 0, n+1).Draw(t, "names") {
		starts = append(starts, uint32(len(e.Strtab)))
		e.Strtab = append(e.Strtab, nm...)
		e.Strtab = append(e.Strtab, 0)
	}
	if n > 0 && len(e.Strtab) == 0 {
		e.Strtab = []byte{0}
	}
	if n > 0 {
		e.Shndx = uint32(rapid.IntRange(0, n-1).Draw(t, "shndx"))
		if rapid.IntRange(0, 3).Draw(t, "shndxlast") == 0 {
			e.Shndx = uint32(n - 1)
		}
	}
	for _, d := range drafts {
		s := d.s
		switch k := d.nameClass; {
		case k < 5 && len(starts) > 0:
			s.Name = starts[d.nameRaw%len(starts)]
		case k == 5:
			s.Name = uint32(len(e.Strtab) - 1) // the final NUL: empty name, last byte in front of the guard page
		case k == 6:
			s.Name = 0
		default:
			s.Name = uint32(d.nameRaw % len(e.Strtab))
		}
		e.Sections = append(e.Sections, s)
	}
	if n > 0 {
		e.Sections[e.Shndx].Size = uint64(len(e.Strtab))
		e.Sections[e.Shndx].Addr = 0
	}
	return e
}

var c10DecoyTypes = []uint32{0, 1, 6, 8, 9}

func c10GenRaw(t *rapid.T) c10Tag {
	tag := c10Tag{Kind: "raw"}
	switch rapid.IntRange(0, 9).Draw(t, "rawtypeclass") {
	case 0, 1, 2:
		tag.Type = rapid.SampledFrom([]uint32{2, 3, 4, 5, 7, 10}).Draw(t, "stdtype")
	case 3:
		tag.Type = c10RawType(rapid.SampledFrom([]uint32{31, 0x100, 0x10001, 0x80000000, 0xffffffff, 0x01000000, 0x06000000}).Draw(t, "bigtype"))
	default:
		tag.Type = uint32(rapid.IntRange(11, 30).Draw(t, "unktype"))
	}
	if rapid.IntRange(0, 2).Draw(t, "decoy") == 0 {
		// payload that looks like tag headers of the types the kernel looks for
		// (or like an end tag): a walk that steps wrongly lands on them
		n := rapid.IntRange(1, 3).Draw(t, "ndecoy")
		for i := 0; i < n; i++ {
			tag.Raw = binary.LittleEndian.AppendUint32(tag.Raw, rapid.SampledFrom(c10DecoyTypes).Draw(t, "decoytype"))
			tag.Raw = binary.LittleEndian.AppendUint32(tag.Raw, uint32(rapid.SampledFrom([]int{8, 9, 12, 16, 24, 32}).Draw(t, "decoysize")))
		}
		cut := rapid.IntRange(0, 7).Draw(t, "decoycut")
		if cut < len(tag.Raw) {
			tag.Raw = tag.Raw[:len(tag.Raw)-cut]
		}
	} else if rapid.IntRange(0, 11).Draw(t, "bigraw") == 0 {
		// a large tag (e.g. VBE info is 784 bytes): pushes the block over a page
		n := rapid.IntRange(200, 1023).Draw(t, "rawlen")
		tag.Raw = make([]byte, n)
		fill := rapid.Byte().Draw(t, "rawfill")
		for i := range tag.Raw {
			tag.Raw[i] = fill + byte(i)
		}
	} else {
		tag.Raw = rapid.SliceOfN(rapid.Byte(), 0, 24).Draw(t, "raw")
	}
	if len(tag.Raw) == 0 {
		tag.Raw = nil
	}
	return tag
}

var c10TagGen = rapid.Custom(func(t *rapid.T) c10Tag {
	kind := rapid.SampledFrom([]string{"raw", "raw", "raw", "raw", "cmdline", "cmdline", "mmap", "mmap", "mmap", "fb", "fb", "elf", "elf"}).Draw(t, "kind")
	switch kind {
	case "cmdline":
		return c10Tag{Kind: kind, Cmd: c10GenCmdline(t)}
	case "mmap":
		return c10Tag{Kind: kind, Mmap: c10GenMmap(t)}
	case "fb":
		return c10Tag{Kind: kind, Fb: c10GenFb(t)}
	case "elf":
		return c10Tag{Kind: kind, Elf: c10GenElf(t)}
	}
	return c10GenRaw(t)
})

func c10GenCase(t *rapid.T) c10Case {
	c := c10Case{Pad: rapid.SampledFrom([]byte{0, 0, 0xff, 0xa5, 1, 6, 8, 9, ' ', 'x'}).Draw(t, "pad")}
	lo := 3
	if rapid.IntRange(0, 7).Draw(t, "fewtags") == 0 {
		lo = 0
	}
	c.Tags = rapid.SliceOfN(c10TagGen, lo, 10).Draw(t, "tags")
	if rapid.IntRange(0, 19).Draw(t, "bulk") == 1 {
		// several large tags: the block spans more than one page
		k := rapid.IntRange(4, 6).Draw(t, "nbulk")
		for i := 0; i < k; i++ {
			raw := make([]byte, rapid.IntRange(900, 1023).Draw(t, "bulklen"))
			for j := range raw {
				raw[j] = byte(j*7 + i)
			}
			at := rapid.IntRange(0, len(c.Tags)).Draw(t, "bulkat")
			c.Tags = append(c.Tags[:at], append([]c10Tag{{Kind: "raw", Type: uint32(11 + i), Raw: raw}}, c.Tags[at:]...)...)
		}
	}
	if i := c.first("mmap"); i >= 0 {
		if nr := len(c.Tags[i].Mmap.Regions); nr > 0 && rapid.IntRange(0, 2).Draw(t, "stop") != 0 {
			c.StopAt = rapid.IntRange(1, nr).Draw(t, "stopat")
		}
	}
	return c
}

// ---------------------------------------------------------------------------
// tests

func c10SelfCheck(c c10Case) error {
	h1, b1 := vlib.HashJSON(c)
	h2, b2 := vlib.HashJSON(c10Normalise(c))
	if h1 != h2 {
		return fmt.Errorf("c10Normalise is not idempotent:\n%s\n%s", b1, b2)
	}
	h3, b3 := vlib.HashJSON(c10FromBytes(c10ToBytes(c)))
	if h1 != h3 {
		return fmt.Errorf("data-provider layer does not round-trip the case:\n%s\n%s", b1, b3)
	}
	return nil
}

func TestVerifC10(t *testing.T) {
	st := vlib.For("C10")
	defer vlib.Flush()
	if os.Getenv("VERIF_C10_SKIP_CAPTURED") == "" {
		// builder self-test against the real block, once per shard (the knob
		// exists to measure what the generated cases alone detect)
		c10CheckCaptured(t)
	}
	rapid.Check(t, func(t *rapid.T) {
		c := c10Normalise(c10GenCase(t))
		if err := c10SelfCheck(c); err != nil {
			t.Fatalf("VERIF-HARNESS C10 %v", err)
		}
		nt, labels := c10Classify(c)
		st.Case(c, nt, labels...)
		vlib.Report(t, "C10", c, c10Run(c))
	})
}

func TestVerifC10Replay(t *testing.T) {
	var c c10Case
	ok, err := vlib.LoadReplay(&c)
	if !ok {
		t.Skip("no replay requested")
	}
	if err != nil {
		t.Fatalf("VERIF-HARNESS cannot load replay: %v", err)
	}
	vlib.Report(t, "C10", c, c10Run(c))
}

// c10Captured is the model of the block captured under qemu (multiboot_test.go).
func c10Captured() (c10Case, error) {
	return c10ParseBlock(multibootInfoTestData, mockStrTable)
}

// c10Seeds are the in-code seeds of the fuzz target (also written to the
// committed corpus by TestVerifC10WriteCorpus).
func c10Seeds() map[string]c10Case {
	seeds := map[string]c10Case{}
	if c, err := c10Captured(); err == nil {
		c.StopAt = 3
		seeds["captured-qemu-block"] = c
	}
	seeds["empty"] = c10Case{}
	seeds["odd-tags-dups"] = c10Normalise(c10Case{Pad: 0xff, StopAt: 2, Tags: []c10Tag{
		{Kind: "raw", Type: 21, Raw: []byte{1, 0, 0, 0, 9, 0, 0, 0, 0}},
		{Kind: "cmdline", Cmd: " \tconsoleLogo=off  nofoo\tconsoleFont=terminus8x16 a=b=c k= "},
		{Kind: "mmap", Mmap: &c10Mmap{EntrySize: 40, Fill: 0xff, Regions: []c10Region{{0, 0x9fc00, 1}, {0x9fc00, 0x400, 0}, {0x100000, 0x7ee0000, 5}, {1 << 32, 1 << 30, 6}, {0xfffc0000, 0x40000, 0xffffffff}}}},
		{Kind: "elf", Elf: &c10Elf{Shndx: 2, Strtab: []byte("\x00.text\x00.shstrtab\x00"), Sections: []c10Section{{Name: 0}, {Name: 1, Flags: 0x100000006, Addr: 0xffff800000100000, Size: 0x1000}, {Name: 7}, {Name: 16, Flags: 3, Addr: 5, Size: 1}}}},
		{Kind: "fb", Fb: &c10Fb{Addr: 0xfd000000, Pitch: 4096, Width: 1024, Height: 768, Bpp: 32, Type: 1, Color: []byte{16, 8, 8, 8, 0, 8}}},
		{Kind: "cmdline", Cmd: "second=loses"},
		{Kind: "mmap", Mmap: &c10Mmap{EntrySize: 24, Regions: []c10Region{{1, 2, 3}}}},
		{Kind: "fb", Fb: &c10Fb{Addr: 0xb8000, Pitch: 160, Width: 80, Height: 25, Bpp: 16, Type: 2}},
		{Kind: "elf", Elf: &c10Elf{}},
	}})
	seeds["indexed-fb-last"] = c10Normalise(c10Case{Pad: 0xa5, Tags: []c10Tag{
		{Kind: "raw", Type: 4, Raw: []byte{0x7f, 2, 0, 0, 0x80, 0xfb, 1, 0}},
		{Kind: "fb", Fb: &c10Fb{Addr: 0xa0000, Pitch: 320, Width: 320, Height: 200, Bpp: 8, Type: 0, Color: []byte{2, 0, 0, 0, 1, 2, 3, 4, 5, 6}}},
	}})
	return seeds
}

// TestVerifC10Captured checks the builder against the real block: the model
// parsed from the captured block must re-encode to the same tag walk and the
// same bytes (except what the model deliberately does not keep: ELF link/info/
// alignment/entry-size words and the string-table address), and the oracle must
// accept it.
func TestVerifC10Captured(t *testing.T) { c10CheckCaptured(t) }

func c10CheckCaptured(t *testing.T) {
	c, err := c10Captured()
	if err != nil {
		t.Fatalf("VERIF-HARNESS C10 cannot parse the captured block: %v", err)
	}
	img := c10Encode(c, map[int]uint64{})
	if len(img.block) != len(multibootInfoTestData) {
		t.Fatalf("VERIF-HARNESS C10 re-encoded captured block has %d bytes, original %d", len(img.block), len(multibootInfoTestData))
	}
	for ti, tag := range c.Tags {
		off, size := img.off[ti], int(img.size[ti])
		orig := multibootInfoTestData[off : off+size]
		mine := img.block[off : off+size]
		if tag.Kind != "elf" {
			if string(orig) != string(mine) {
				t.Fatalf("VERIF-HARNESS C10 tag %d (%s) re-encodes differently:\n%x\n%x", ti, tag.Kind, orig, mine)
			}
			continue
		}
		if string(orig[:20]) != string(mine[:20]) {
			t.Fatalf("VERIF-HARNESS C10 ELF tag header differs: %x / %x", orig[:20], mine[:20])
		}
		for s := range tag.Elf.Sections {
			o, m := orig[20+64*s:], mine[20+64*s:]
			if string(o[:16]) != string(m[:16]) || string(o[24:40]) != string(m[24:40]) || (uint32(s) != tag.Elf.Shndx && string(o[16:24]) != string(m[16:24])) {
				t.Fatalf("VERIF-HARNESS C10 ELF section %d re-encodes differently:\n%x\n%x", s, o[:64], m[:64])
			}
		}
	}
	if err := c10SelfCheck(c); err != nil {
		t.Fatalf("VERIF-HARNESS C10 captured block: %v", err)
	}
	vlib.Report(t, "C10", c, c10Run(c))
}

// TestVerifC10WriteCorpus writes the seed corpus in Go's corpus file format to
// $VERIF_C10_CORPUS_OUT (maintenance helper; skipped otherwise).
func TestVerifC10WriteCorpus(t *testing.T) {
	dir := os.Getenv("VERIF_C10_CORPUS_OUT")
	if dir == "" {
		t.Skip("VERIF_C10_CORPUS_OUT not set")
	}
	if err := os.MkdirAll(dir, 0o755); err != nil {
		t.Fatal(err)
	}
	for name, c := range c10Seeds() {
		if err := c10SelfCheck(c); err != nil {
			t.Fatalf("VERIF-HARNESS C10 seed %s: %v", name, err)
		}
		body := "go test fuzz v1\n[]byte(" + strconv.Quote(string(c10ToBytes(c))) + ")\n"
		if err := os.WriteFile(filepath.Join(dir, name), []byte(body), 0o644); err != nil {
			t.Fatal(err)
		}
	}
}

// FuzzVerifC10 is the coverage-guided variant (thorough tier): the input bytes
// are turned into a block model by the data-provider layer (c10FromBytes) and
// checked with the same oracle.
func FuzzVerifC10(f *testing.F) {
	seeds := c10Seeds()
	names := make([]string, 0, len(seeds))
	for n := range seeds {
		names = append(names, n)
	}
	sort.Strings(names)
	for _, n := range names {
		f.Add(c10ToBytes(seeds[n]))
	}
	f.Fuzz(func(t *testing.T, data []byte) {
		if len(data) > 8192 {
			return
		}
		c := c10FromBytes(data)
		vlib.Report(t, "C10", c, c10Run(c))
	})
}

// ---------------------------------------------------------------------------
// histories: several blocks presented one after the other at the SAME address
// (the boot-information area being reused). "For every well-formed block the
// kernel reports exactly what the block encodes" must hold for each of them,
// whatever was decoded at that address before. The blocks of a history are
// padded to a common size with a trailing tag of an unused type, so that every
// one of them starts at the same address and still ends at the guard page. The
// package's command-line cache is dropped before every query, as in the single
// block check (its lifetime is not part of the statement).

type c10History struct {
	Blocks []c10Case `json:"blocks"`
}

const c10PadTagType = 21

// c10Equalise returns normalised copies of the blocks, padded to one size.
func c10Equalise(h c10History) []c10Case {
	out := make([]c10Case, len(h.Blocks))
	sizes := make([]int, len(h.Blocks))
	max := 0
	for i, b := range h.Blocks {
		out[i] = c10Normalise(b)
		sizes[i] = len(c10Encode(out[i], map[int]uint64{}).block)
		if sizes[i] > max {
			max = sizes[i]
		}
	}
	for i := range out {
		for diff := max - sizes[i]; diff > 0; {
			n := diff
			if n > 8+c10MaxRaw/8*8 {
				n = 8 + c10MaxRaw/8*8
			}
			out[i].Tags = append(out[i].Tags, c10Tag{Kind: "raw", Type: c10PadTagType, Raw: make([]byte, n-8)})
			diff -= n
		}
	}
	return out
}

func c10RunHistory(h c10History) *vlib.Failure {
	SetInfoPtr(0)
	defer SetInfoPtr(0)
	blocks := c10Equalise(h)
	var at uintptr
	for i, b := range blocks {
		f, addr := c10RunKeep(b)
		if i > 0 && addr != at {
			panic(fmt.Sprintf("VERIF-HARNESS C10 history: block %d is not at the address of block 0 (sizes differ after padding)", i))
		}
		at = addr
		if f != nil {
			if i == 0 {
				return vlib.Failf("block 0 of a history of %d: %s", len(blocks), f.Msg)
			}
			return vlib.Failf("block %d of a history of %d blocks presented at the same address one after the other: %s", i, len(blocks), f.Msg)
		}
	}
	return nil
}

func c10GenHistory(t *rapid.T) c10History {
	n := rapid.IntRange(2, 3).Draw(t, "nblocks")
	var h c10History
	for i := 0; i < n; i++ {
		h.Blocks = append(h.Blocks, c10Normalise(c10GenCase(t)))
	}
	return h
}

func TestVerifC10History(t *testing.T) {
	st := vlib.For("C10")
	defer vlib.Flush()
	rapid.Check(t, func(t *rapid.T) {
		h := c10GenHistory(t)
		for _, b := range h.Blocks {
			if err := c10SelfCheck(b); err != nil {
				t.Fatalf("VERIF-HARNESS C10 %v", err)
			}
		}
		// non-trivial: a wanted tag type sits at different offsets (or is
		// present in one block and absent in the next)
		moved := false
		labels := []string{fmt.Sprintf("history-of-%d", len(h.Blocks))}
		for i := 1; i < len(h.Blocks); i++ {
			for _, k := range []string{"cmdline", "mmap", "fb", "elf"} {
				a, b := h.Blocks[i-1].first(k), h.Blocks[i].first(k)
				if (a < 0) != (b < 0) {
					moved = true
					labels = append(labels, "history:"+k+"-appears-or-vanishes")
				} else if a >= 0 && c10OffsetOf(h.Blocks[i-1], a) != c10OffsetOf(h.Blocks[i], b) {
					moved = true
					labels = append(labels, "history:"+k+"-moves")
				}
			}
		}
		st.Case(h, moved, c10Uniq(labels)...)
		vlib.Report(t, "C10", h, c10RunHistory(h))
	})
}

// c10OffsetOf is the byte offset of tag i inside the encoded block.
func c10OffsetOf(c c10Case, i int) int {
	off := 8
	for k := 0; k < i; k++ {
		off += (c10TagSize(c.Tags[k]) + 7) &^ 7
	}
	return off
}

func TestVerifC10HistoryReplay(t *testing.T) {
	var h c10History
	ok, err := vlib.LoadReplay(&h)
	if !ok {
		t.Skip("no replay requested")
	}
	if err != nil {
		t.Fatalf("VERIF-HARNESS cannot load replay: %v", err)
	}
	vlib.Report(t, "C10", h, c10RunHistory(h))
}
