//go:build verif && go1.21

package hal

// C16 (kfmt layer) — no boot log lost: everything written before a terminal is
// installed as the output sink (up to the early buffer's capacity, oldest
// dropped first) reaches the sink exactly once, in order, ahead of later output.
//
// The check lives in package hal (one test binary per property) and therefore
// reaches kfmt only through its exported API: Printf, Fprintf, GetOutputSink,
// SetOutputSink, PrefixWriter. While no sink is installed GetOutputSink()
// returns the early ring buffer, which is an io.Writer and an io.Reader.
//
// Oracle: an explicit queue model (capacity 2047 bytes, oldest dropped first)
// and a line-oriented model of PrefixWriter written from its doc comment.

import (
	"bytes"
	"fmt"
	"io"
	"testing"
	"time"

	"github.com/ProjectSerenity/firefly/kernel/kfmt"
	"pgregory.net/rapid"
	"verifharness/vlib"
)

// c16RingCap is the capacity of the early buffer: a ring of 2048 bytes that
// keeps one slot free.
const (
	c16RingSize = 2048
	c16RingCap  = c16RingSize - 1
)

// ---------------------------------------------------------------------------
// shared helpers (also used by the hal layer)

// c16Rec is a recording io.Writer. It deliberately implements nothing else
// (no io.ReaderFrom), so that io.Copy drives the ring's Read method.
type c16Rec struct {
	b      []byte
	writes int
}

func (r *c16Rec) Write(p []byte) (int, error) {
	r.writes++
	r.b = append(r.b, p...)
	return len(p), nil
}

// c16Guard runs body on its own goroutine, converts a panic into a failure and
// gives up for good (vlib.Die, case reported unshrunk) when body does not
// return: io.Copy inside SetOutputSink spins for ever on a reader that returns
// (0, nil).
func c16Guard(c interface{}, what string, body func() *vlib.Failure) *vlib.Failure {
	done := make(chan *vlib.Failure, 1)
	go func() {
		var fail *vlib.Failure
		if pc := vlib.Catch(func() { fail = body() }); pc.Panicked {
			fail = vlib.Failf("%s panicked: %v", what, pc)
		}
		done <- fail
	}()
	patience := vlib.StartPatience(20 * time.Second)
	for {
		select {
		case f := <-done:
			return f
		case <-time.After(20 * time.Millisecond):
			if patience.Expired() {
				vlib.Die("C16", c, vlib.Failf("%s did not return within 20s of wall-clock and CPU time: copying the early buffer to the output sink never ends", what))
			}
		}
	}
}

var c16Scratch [4 * c16RingSize]byte

// c16Ring returns the early ring buffer (sink reset to nil first).
func c16Ring() (io.Writer, io.Reader, bool) {
	kfmt.SetOutputSink(nil)
	w := kfmt.GetOutputSink()
	r, ok := w.(io.Reader)
	return w, r, ok
}

// c16RingDrain empties the ring through its Read method with a bounded number
// of calls (a correct ring needs two reads and one EOF).
func c16RingDrain(rd io.Reader) *vlib.Failure {
	for i := 0; i < 6; i++ {
		n, err := rd.Read(c16Scratch[:])
		if err == io.EOF {
			if n != 0 {
				return vlib.Failf("early buffer: Read returned (%d, EOF)", n)
			}
			return nil
		}
		if err != nil {
			return vlib.Failf("early buffer: Read returned the error %v", err)
		}
		if n == 0 {
			return vlib.Failf("early buffer: Read into a %d-byte buffer returned (0, nil) instead of data or EOF; draining it (io.Copy in SetOutputSink) never ends", len(c16Scratch))
		}
	}
	return vlib.Failf("early buffer: not empty after 6 reads of %d bytes each", len(c16Scratch))
}

func c16ReadExpect(rd io.Reader, want []byte, what string) (int, *vlib.Failure) {
	n, err := rd.Read(c16Scratch[:])
	if err != nil && !(err == io.EOF && n == 0 && len(want) == 0) {
		return n, vlib.Failf("early buffer (%s): Read returned (%d, %v) with %d unread bytes", what, n, err, len(want))
	}
	if n > len(want) {
		return n, vlib.Failf("early buffer (%s): Read returned %d bytes, only %d are unread", what, n, len(want))
	}
	if n == 0 && len(want) > 0 {
		return n, vlib.Failf("early buffer (%s): Read returned (0, nil) with %d unread bytes; draining it (io.Copy in SetOutputSink) never ends", what, len(want))
	}
	if !bytes.Equal(c16Scratch[:n], want[:n]) {
		return n, vlib.Failf("early buffer (%s): Read returned %d bytes that differ from the bytes written (first difference at offset %d)", what, n, c16FirstDiff(c16Scratch[:n], want[:n]))
	}
	return n, nil
}

// c16RingSeek empties the ring and moves its (physical) read/write position
// to phase, so that a case behaves the same in a fresh process (replay) as in
// the middle of a long run. The position is measured, not assumed: 2047 bytes
// are written and the length of the first contiguous read tells where the end
// of the backing array is. geometry != "" reports that the ring does not have
// the layout this harness assumes (inconclusive rather than a violation).
func c16RingSeek(wr io.Writer, rd io.Reader, phase int) (fail *vlib.Failure, geometry string) {
	if f := c16RingDrain(rd); f != nil {
		return f, ""
	}
	pat := make([]byte, c16RingCap)
	for i := range pat {
		pat[i] = byte(i*7 + 3)
	}
	if n, err := wr.Write(pat); n != len(pat) || err != nil {
		return vlib.Failf("early buffer: Write of %d bytes returned (%d, %v)", len(pat), n, err), ""
	}
	n1, f := c16ReadExpect(rd, pat, "position measurement")
	if f != nil {
		return f, ""
	}
	pos := 0
	if n1 < c16RingCap {
		n2, f := c16ReadExpect(rd, pat[n1:], "position measurement, second segment")
		if f != nil {
			return f, ""
		}
		if n1+n2 != c16RingCap {
			return nil, fmt.Sprintf("2047 bytes came back as %d+%d bytes", n1, n2)
		}
		pos = c16RingSize - n1 - 1
	} else {
		two := []byte{0xa5, 0x5a}
		wr.Write(two)
		n2, f := c16ReadExpect(rd, two, "position measurement, probe bytes")
		if f != nil {
			return f, ""
		}
		switch n2 {
		case 1:
			if _, f := c16ReadExpect(rd, two[1:], "position measurement, probe bytes"); f != nil {
				return f, ""
			}
			pos = 1
		case 2:
			pos = 2
		}
	}
	if _, f := c16ReadExpect(rd, nil, "position measurement, end"); f != nil {
		return f, ""
	}
	adv := ((phase-pos)%c16RingSize + c16RingSize) % c16RingSize
	if adv > 0 {
		wr.Write(pat[:adv])
		got := 0
		for i := 0; i < 3 && got < adv; i++ {
			n, f := c16ReadExpect(rd, pat[got:adv], "positioning")
			if f != nil {
				return f, ""
			}
			got += n
		}
		if got != adv {
			return nil, fmt.Sprintf("%d positioning bytes came back as %d", adv, got)
		}
	}
	if _, f := c16ReadExpect(rd, nil, "positioning, end"); f != nil {
		return f, ""
	}
	return nil, ""
}

func c16FirstDiff(a, b []byte) int {
	n := len(a)
	if len(b) < n {
		n = len(b)
	}
	for i := 0; i < n; i++ {
		if a[i] != b[i] {
			return i
		}
	}
	return n
}

func c16Clip(b []byte) string {
	if len(b) > 120 {
		return fmt.Sprintf("%q…%q (len %d)", b[:60], b[len(b)-60:], len(b))
	}
	return fmt.Sprintf("%q", b)
}

// c16DescribeDiff words a mismatch between two byte streams deterministically.
func c16DescribeDiff(got, want []byte) string {
	d := c16FirstDiff(got, want)
	lo := d - 30
	if lo < 0 {
		lo = 0
	}
	hiG, hiW := d+30, d+30
	if hiG > len(got) {
		hiG = len(got)
	}
	if hiW > len(want) {
		hiW = len(want)
	}
	return fmt.Sprintf("got %d bytes, want %d bytes, first difference at offset %d: got …%q, want …%q", len(got), len(want), d, got[lo:hiG], want[lo:hiW])
}

// ---------------------------------------------------------------------------
// case

type c16kOp struct {
	// Kind: printf-bytes (Printf("%s", []byte): one Write), printf-str
	// (Printf("%s", string): byte at a time), printf-lit (payload is the
	// format), fprintf-sink (Fprintf(GetOutputSink(), ...)), fprintf-nil
	// (Fprintf(nil, ...), pre-switch only), write (GetOutputSink().Write),
	// prefix-bytes / prefix-str / prefix-write (through a PrefixWriter on
	// GetOutputSink()), read (Read on the ring, pre-switch only).
	Kind string `json:"kind"`
	N    int    `json:"n"`            // payload size, or size of the read buffer
	NL   []int  `json:"nl,omitempty"` // payload offsets (mod N) that hold '\n'
}

type c16kCase struct {
	Phase  int      `json:"phase"`  // physical ring position at the start
	Prefix string   `json:"prefix"` // PrefixWriter prefix
	Pre    []c16kOp `json:"pre"`    // before SetOutputSink(recorder)
	Post   []c16kOp `json:"post"`   // after it
}

const c16Alphabet = "ABCDEFGHIJKLMNOPQRSTUVWXYZabcdefghijklmnopqrstuvwxyz0123456789+/"

// c16Payload returns n payload bytes for the global payload offset g: every
// position of the whole payload stream has its own (pseudo-random) byte so that
// loss, duplication and reordering all change the stream.
func c16Payload(g, n int, nl []int) []byte {
	b := make([]byte, n)
	for i := range b {
		x := uint32(g+i) * 2654435761
		b[i] = c16Alphabet[(x>>13)&63]
	}
	if n > 0 {
		for _, o := range nl {
			if o < 0 {
				o = -o
			}
			b[o%n] = '\n'
		}
	}
	return b
}

// c16PrefixModel is the reference model of kfmt.PrefixWriter, written from its
// doc comment ("injects a prefix at the beginning of each line"): the prefix
// precedes the first byte of every line; a line ends with '\n'.
type c16PrefixModel struct {
	prefix  []byte
	midLine bool
}

func (m *c16PrefixModel) render(p []byte) []byte {
	var out []byte
	for _, b := range p {
		if !m.midLine {
			out = append(out, m.prefix...)
		}
		out = append(out, b)
		m.midLine = b != '\n'
	}
	return out
}

type c16kInfo struct {
	overflow, reads, prefix, wrapped, exactFull, emptyAtSwitch bool
	preWrites, postWrites                                      int
	harness                                                    string
}

// ---------------------------------------------------------------------------
// run

func c16kRun(c c16kCase) (*vlib.Failure, c16kInfo) {
	defer vlib.Guard("C16", c, nil)()
	var info c16kInfo
	fail := c16Guard(c, "kfmt early-buffer scenario", func() *vlib.Failure { return c16kBody(c, &info) })
	return fail, info
}

func c16kBody(c c16kCase, info *c16kInfo) *vlib.Failure {
	defer kfmt.SetOutputSink(nil)
	wr, rd, ok := c16Ring()
	if !ok {
		info.harness = "kfmt.GetOutputSink() without a sink is not an io.Reader"
		return nil
	}
	fail, geom := c16RingSeek(wr, rd, c.Phase)
	if geom != "" {
		info.harness = "early buffer geometry: " + geom
		return nil
	}
	if fail != nil {
		// the ring is unusable from here on: every later case would fail too
		vlib.Die("C16", c, fail)
	}

	var (
		queue    []byte // unread bytes the ring must hold
		g        int    // global payload offset
		written  int    // bytes written to the ring (physical wrap label)
		pwReal   = &kfmt.PrefixWriter{Prefix: []byte(c.Prefix)}
		pwModel  = &c16PrefixModel{prefix: []byte(c.Prefix)}
		rec      *c16Rec
		expected []byte // what the recorder must hold
	)

	doWrite := func(i int, op c16kOp, post bool) *vlib.Failure {
		where := fmt.Sprintf("pre-switch op %d (%s, %d bytes)", i, op.Kind, op.N)
		if post {
			where = fmt.Sprintf("post-switch op %d (%s, %d bytes)", i, op.Kind, op.N)
		}
		p := c16Payload(g, op.N, op.NL)
		g += op.N
		out := p
		switch op.Kind {
		case "printf-bytes":
			kfmt.Printf("%s", p)
		case "printf-str":
			kfmt.Printf("%s", string(p))
		case "printf-lit":
			kfmt.Printf(string(p))
		case "fprintf-sink":
			kfmt.Fprintf(kfmt.GetOutputSink(), "%s", p)
		case "fprintf-nil":
			kfmt.Fprintf(nil, "%s", p)
		case "write":
			if n, err := kfmt.GetOutputSink().Write(p); n != len(p) || err != nil {
				return vlib.Failf("%s: Write returned (%d, %v)", where, n, err)
			}
		case "prefix-bytes", "prefix-str", "prefix-write":
			info.prefix = true
			pwReal.Sink = kfmt.GetOutputSink()
			out = pwModel.render(p)
			switch op.Kind {
			case "prefix-bytes":
				kfmt.Fprintf(pwReal, "%s", p)
			case "prefix-str":
				kfmt.Fprintf(pwReal, "%s", string(p))
			default:
				if n, err := pwReal.Write(p); n != len(p) || err != nil {
					return vlib.Failf("%s: PrefixWriter.Write returned (%d, %v); the injected prefix must not be counted", where, n, err)
				}
			}
		default:
			info.harness = "unknown op kind " + op.Kind
			return nil
		}
		if post {
			info.postWrites++
			expected = append(expected, out...)
			return nil
		}
		if len(out) > 0 {
			info.preWrites++
		}
		written += len(out)
		queue = append(queue, out...)
		if len(queue) > c16RingCap {
			info.overflow = true
			queue = queue[len(queue)-c16RingCap:]
		}
		return nil
	}

	for i, op := range c.Pre {
		if op.Kind != "read" {
			if f := doWrite(i, op, false); f != nil || info.harness != "" {
				return f
			}
			continue
		}
		info.reads = true
		buf := make([]byte, op.N)
		n, err := rd.Read(buf)
		where := fmt.Sprintf("pre-switch op %d (Read into %d bytes, %d unread)", i, op.N, len(queue))
		switch {
		case len(queue) == 0:
			if n != 0 || err != io.EOF {
				return vlib.Failf("%s: returned (%d, %v), want (0, EOF)", where, n, err)
			}
		case err != nil:
			return vlib.Failf("%s: returned (%d, %v)", where, n, err)
		case n > op.N || n > len(queue):
			return vlib.Failf("%s: returned %d bytes", where, n)
		case n == 0 && op.N > 0:
			vlib.Die("C16", c, vlib.Failf("%s: returned (0, nil); draining the buffer (io.Copy in SetOutputSink) never ends", where))
		case !bytes.Equal(buf[:n], queue[:n]):
			return vlib.Failf("%s: returned bytes that are not the oldest unread bytes: %s", where, c16DescribeDiff(buf[:n], queue[:n]))
		}
		queue = queue[n:]
	}
	info.wrapped = c.Phase+written >= c16RingSize
	info.exactFull = len(queue) == c16RingCap && !info.overflow
	info.emptyAtSwitch = len(queue) == 0

	// the switch: a terminal appears
	rec = &c16Rec{}
	kfmt.SetOutputSink(rec)
	if got := kfmt.GetOutputSink(); got != io.Writer(rec) {
		return vlib.Failf("after SetOutputSink(recorder) GetOutputSink() is not the recorder")
	}
	expected = append(expected, queue...)
	if !bytes.Equal(rec.b, expected) {
		return vlib.Failf("SetOutputSink: the sink did not receive exactly the last min(unread, %d) bytes logged before (overflowed: %v): %s", c16RingCap, info.overflow, c16DescribeDiff(rec.b, expected))
	}
	pwReal = &kfmt.PrefixWriter{Prefix: []byte(c.Prefix)}
	pwModel = &c16PrefixModel{prefix: []byte(c.Prefix)}
	for i, op := range c.Post {
		if f := doWrite(i, op, true); f != nil || info.harness != "" {
			return f
		}
		if !bytes.Equal(rec.b, expected) {
			return vlib.Failf("post-switch op %d (%s, %d bytes): the sink does not hold the early output followed by the later output: %s", i, op.Kind, op.N, c16DescribeDiff(rec.b, expected))
		}
	}
	// nothing is left behind (it would be delivered a second time)
	if n, err := rd.Read(c16Scratch[:]); n != 0 || err != io.EOF {
		return vlib.Failf("after the switch the early buffer still holds data: Read returned (%d, %v), want (0, EOF)", n, err)
	}
	kfmt.SetOutputSink(nil)
	if f, geom := c16RingSeek(wr, rd, 0); geom != "" {
		info.harness = "early buffer geometry after the case: " + geom
	} else if f != nil {
		vlib.Die("C16", c, vlib.Failf("after the case the early buffer is unusable: %s", f.Msg))
	}
	return nil
}

// ---------------------------------------------------------------------------
// generator

func c16kGenNL(t *rapid.T, n int) []int {
	if n == 0 {
		return nil
	}
	var nl []int
	switch rapid.IntRange(0, 5).Draw(t, "nlclass") {
	case 0:
	case 1:
		nl = []int{n - 1}
	case 2:
		nl = []int{0}
	case 3:
		nl = []int{rapid.IntRange(0, n-1).Draw(t, "nl"), n - 1}
	default:
		k := rapid.IntRange(1, 4).Draw(t, "nlcount")
		for i := 0; i < k; i++ {
			nl = append(nl, rapid.IntRange(0, n-1).Draw(t, "nl"))
		}
	}
	return nl
}

func c16kGenSize(t *rapid.T) int {
	switch rapid.IntRange(0, 11).Draw(t, "sizeclass") {
	case 0:
		return 0
	case 1:
		return 1
	case 2, 3, 4, 5:
		return rapid.IntRange(2, 40).Draw(t, "small")
	case 6, 7:
		return rapid.IntRange(41, 700).Draw(t, "medium")
	case 8:
		return rapid.SampledFrom([]int{2045, 2046, 2047, 2048, 2049, 4094, 4095, 4096}).Draw(t, "edge")
	case 9:
		return rapid.IntRange(701, 2100).Draw(t, "large")
	default:
		return rapid.IntRange(2101, 5000).Draw(t, "huge")
	}
}

var c16kPreKinds = []string{"printf-bytes", "printf-bytes", "printf-str", "printf-lit", "fprintf-sink", "fprintf-nil", "write", "prefix-bytes", "prefix-str", "prefix-write", "read", "read"}
var c16kPostKinds = []string{"printf-bytes", "printf-str", "printf-lit", "fprintf-sink", "write", "prefix-bytes", "prefix-str", "prefix-write"}

func c16kGenOp(kinds []string) func(*rapid.T) c16kOp {
	return func(t *rapid.T) c16kOp {
		op := c16kOp{Kind: rapid.SampledFrom(kinds).Draw(t, "kind")}
		if op.Kind == "read" {
			op.N = rapid.SampledFrom([]int{0, 1, 2, 7, 100, 1000, 2047, 2048, 5000}).Draw(t, "buf")
			return op
		}
		op.N = c16kGenSize(t)
		op.NL = c16kGenNL(t, op.N)
		return op
	}
}

// c16kClamp enforces chunk sizes 0..5000 and a total of at most 10000 bytes.
func c16kClamp(ops []c16kOp, budget *int) {
	for i := range ops {
		if ops[i].Kind == "read" {
			continue
		}
		if ops[i].N > 5000 {
			ops[i].N = 5000
		}
		if ops[i].N > *budget {
			ops[i].N = *budget
		}
		*budget -= ops[i].N
	}
}

func c16kGenCase(t *rapid.T) c16kCase {
	var c c16kCase
	switch rapid.IntRange(0, 3).Draw(t, "phaseclass") {
	case 0:
		c.Phase = rapid.SampledFrom([]int{0, 1, 2, 2045, 2046, 2047}).Draw(t, "phase-edge")
	default:
		c.Phase = rapid.IntRange(0, c16RingSize-1).Draw(t, "phase")
	}
	c.Prefix = rapid.SampledFrom([]string{"", "#", "[hal] vt(0.0.1): ", "prefix> "}).Draw(t, "prefix")
	if rapid.IntRange(0, 7).Draw(t, "boundary") == 0 {
		// aim at the capacity boundary: plain writes whose sizes add up to 2047-1, 2047 or 2047+1
		c.Pre = rapid.SliceOfN(rapid.Custom(c16kGenOp([]string{"printf-bytes", "printf-str", "write", "fprintf-sink"})), 0, 4).Draw(t, "pre")
		sum := 0
		for i := range c.Pre {
			if c.Pre[i].N > 600 {
				c.Pre[i].N = 600
			}
			sum += c.Pre[i].N
		}
		if rest := c16RingCap + rapid.IntRange(-1, 1).Draw(t, "delta") - sum; rest > 0 {
			c.Pre = append(c.Pre, c16kOp{Kind: rapid.SampledFrom([]string{"printf-bytes", "printf-lit", "write"}).Draw(t, "lastkind"), N: rest})
		}
	} else {
		c.Pre = rapid.SliceOfN(rapid.Custom(c16kGenOp(c16kPreKinds)), 0, 12).Draw(t, "pre")
	}
	c.Post = rapid.SliceOfN(rapid.Custom(c16kGenOp(c16kPostKinds)), 0, 5).Draw(t, "post")
	budget := 10000
	c16kClamp(c.Pre, &budget)
	c16kClamp(c.Post, &budget)
	return c
}

func c16kLabels(info c16kInfo) (bool, []string) {
	var l []string
	add := func(b bool, s string) {
		if b {
			l = append(l, s)
		}
	}
	add(true, "kfmt layer")
	add(info.overflow, "kfmt: ring overflowed")
	add(info.reads, "kfmt: interleaved reads")
	add(info.prefix, "kfmt: PrefixWriter")
	add(info.wrapped, "kfmt: data wraps around the end of the ring")
	add(info.exactFull, "kfmt: exactly 2047 unread bytes, nothing dropped")
	add(info.emptyAtSwitch, "kfmt: nothing unread at the switch")
	return info.preWrites >= 2 && info.postWrites >= 1, l
}

func TestVerifC16Kfmt(t *testing.T) {
	st := vlib.For("C16")
	defer vlib.Flush()
	rapid.Check(t, func(t *rapid.T) {
		c := c16kGenCase(t)
		fail, info := c16kRun(c)
		if info.harness != "" {
			t.Fatalf("VERIF-HARNESS C16 kfmt layer: %s", info.harness)
		}
		nt, labels := c16kLabels(info)
		st.Case(c, nt, labels...)
		vlib.Report(t, "C16", c, fail)
	})
}

func TestVerifC16KfmtReplay(t *testing.T) {
	var c c16kCase
	ok, err := vlib.LoadReplay(&c)
	if !ok {
		t.Skip("no replay requested")
	}
	if err != nil {
		t.Fatalf("VERIF-HARNESS cannot load replay: %v", err)
	}
	fail, info := c16kRun(c)
	if info.harness != "" {
		t.Fatalf("VERIF-HARNESS C16 kfmt layer: %s", info.harness)
	}
	vlib.Report(t, "C16", c, fail)
}
