//go:build verif && go1.21

package hal

// C16 (hal layer) — device bring-up: ordered probing, first console/TTY win,
// no boot log lost.
//
// Mock drivers (and, in half of the cases, the real tty.VT behind a recording
// wrapper) are installed through the device shim and brought up by the real
// DetectHardware. Every case is executed twice:
//
//   - a lossless reference execution with a recorder installed as the output
//     sink before the first byte is logged: it measures the complete log of the
//     case, including the bytes hal logs itself (which the harness does not
//     predict), split at the moment the terminal is linked;
//   - the real execution, in which everything logged before the link goes to
//     the early ring buffer.
//
// hal, kfmt and the mocks are deterministic, so both executions log the same
// bytes; the harness checks that they saw the same sequence of events.

import (
	"strings"
	"bytes"
	"fmt"
	"image/color"
	"io"
	"testing"
	"unsafe"

	"github.com/ProjectSerenity/firefly/kernel"
	"github.com/ProjectSerenity/firefly/kernel/device"
	"github.com/ProjectSerenity/firefly/kernel/device/tty"
	"github.com/ProjectSerenity/firefly/kernel/device/video/console"
	"github.com/ProjectSerenity/firefly/kernel/device/video/console/font"
	"github.com/ProjectSerenity/firefly/kernel/device/video/console/logo"
	"github.com/ProjectSerenity/firefly/kernel/kfmt"
	"github.com/ProjectSerenity/firefly/kernel/multiboot"
	"pgregory.net/rapid"
	"verifharness/vlib"
)

// ---------------------------------------------------------------------------
// case

type c16Chunk struct {
	Pad int `json:"pad"` // filler bytes after the token
	// NL: 0 no newline, 1 trailing newline, 2 newline after the token and at
	// the end, 3 leading newline only, 4 newline after the token only
	NL  int  `json:"nl"`
	Str bool `json:"str,omitempty"` // logged as a string (byte at a time) instead of []byte (one Write)
	// Hi: the filler is not plain letters: bytes above 0x7f (UTF-8 sequences and lone bytes) are
	// mixed in - log text is bytes, whatever they spell
	Hi bool `json:"hi,omitempty"`
}

type c16Drv struct {
	Kind    string     `json:"kind"`    // console | tty | other
	Order   int8       `json:"order"`   // detection order
	Outcome string     `json:"outcome"` // nil (probe finds nothing) | fail (init fails) | ok
	Font    bool       `json:"font,omitempty"`
	Logo    bool       `json:"logo,omitempty"`
	// Eager (stand-in terminals only): the terminal has no inactive mode - State() says active from
	// the start. It still shows nothing until it is attached to a console and made the log sink.
	Eager   bool       `json:"eager,omitempty"`
	W       int        `json:"w,omitempty"` // console geometry in cells
	H       int        `json:"h,omitempty"`
	Probe   []c16Chunk `json:"probe,omitempty"` // logged inside Probe (kfmt.Printf)
	Init    []c16Chunk `json:"init,omitempty"`  // logged inside DriverInit through the writer handed in
}

type c16hCase struct {
	Phase      int        `json:"phase"`   // physical position of the early ring at the start
	Drivers    []c16Drv   `json:"drivers"` // in registration order
	RealVT     bool       `json:"realvt,omitempty"`
	Scrollback int        `json:"scrollback,omitempty"`
	Pre        []c16Chunk `json:"pre,omitempty"`  // logged before DetectHardware
	Post       []c16Chunk `json:"post,omitempty"` // logged after DetectHardware
	// Cmd is the boot command line (multiboot tag): consoleFont=<name> / consoleLogo=off steer
	// what hal hands to consoles that take a font or a logo
	Cmd string `json:"cmd,omitempty"`
}

// c16CmdBlock builds a multiboot information block that holds just a command-line tag.
func c16CmdBlock(cmd string) []uint64 {
	tagLen := 8 + len(cmd) + 1
	padded := (tagLen + 7) &^ 7
	total := 8 + padded + 8
	words := make([]uint64, total/8)
	b := unsafe.Slice((*byte)(unsafe.Pointer(&words[0])), total)
	put32 := func(off int, v uint32) { b[off], b[off+1], b[off+2], b[off+3] = byte(v), byte(v>>8), byte(v>>16), byte(v>>24) }
	put32(0, uint32(total))
	put32(8, 1)
	put32(12, uint32(tagLen))
	copy(b[16:], cmd)
	put32(8+padded, 0)
	put32(8+padded+4, 8)
	return words
}

// ---------------------------------------------------------------------------
// tokens

type c16Tok struct {
	id   int
	text []byte // "{k012}"
	data []byte // the whole chunk
	str  bool
}

func c16MakeTok(id int, ch c16Chunk) c16Tok {
	tok := []byte(fmt.Sprintf("{k%03d}", id))
	pad := make([]byte, 0, ch.Pad)
	for j := 0; j < ch.Pad; j++ {
		if ch.Hi && j%3 != 0 {
			pad = append(pad, []byte{0xc3, 0xb6, 0xff, 0x80, 0xe2, 0x9c, 0x93, 0xfe}[(id+j)%8])
			continue
		}
		pad = append(pad, byte('a'+(id*7+j)%26))
	}
	var d []byte
	switch ch.NL {
	case 1:
		d = append(append(append(d, tok...), pad...), '\n')
	case 2:
		d = append(append(append(append(d, tok...), '\n'), pad...), '\n')
	case 3:
		d = append(append(append(d, '\n'), tok...), pad...)
	case 4:
		d = append(append(append(d, tok...), '\n'), pad...)
	default:
		d = append(append(d, tok...), pad...)
	}
	return c16Tok{id: id, text: tok, data: d, str: ch.Str}
}

func c16MakeToks(base int, chs []c16Chunk) []c16Tok {
	var out []c16Tok
	for j, ch := range chs {
		out = append(out, c16MakeTok(base+j, ch))
	}
	return out
}

// ---------------------------------------------------------------------------
// scenario and mocks

type c16Ev struct {
	kind byte // 'P' probe, 'I' init, 'R' DetectHardware returned
	idx  int
}

type c16Emit struct {
	tok c16Tok
	pre bool // logged while the initial sink (early ring / reference recorder) was still in place
}

type c16Scn struct {
	c       c16hCase
	initial io.Writer // the sink in place at the start: the early ring, or the reference recorder
	refRec  *c16Rec
	base    []*c16Base
	cons    []*c16Cons
	ttys    []*c16TTY
	drv     []device.Driver
	evs     []c16Ev
	emitted []c16Emit

	// collected at the end
	finalSink io.Writer
	sinkIdx   int // index of the mock that receives what is written to finalSink (-2 nil, -1 none of them)
	active    tty.Device
	devs      managedDevices
	ringRest  []byte // real execution without a link: what the ring still held at the end
}

func (s *c16Scn) emit(tk c16Tok, w io.Writer) {
	s.emitted = append(s.emitted, c16Emit{tk, kfmt.GetOutputSink() == s.initial})
	switch {
	case w == nil && tk.str:
		kfmt.Printf("%s", string(tk.data))
	case w == nil:
		kfmt.Printf("%s", tk.data)
	case tk.str:
		kfmt.Fprintf(w, "%s", string(tk.data))
	default:
		kfmt.Fprintf(w, "%s", tk.data)
	}
}

type c16Ider interface{ c16Idx() int }

// c16IdxOf maps a driver / console / tty / writer value back to the index of
// the mock behind it: -2 for nil, -1 for anything that is not a mock.
func c16IdxOf(v interface{}) int {
	if v == nil {
		return -2
	}
	if x, ok := v.(c16Ider); ok {
		return x.c16Idx()
	}
	return -1
}

type c16Base struct {
	s         *c16Scn
	idx       int
	d         c16Drv
	name, msg string
	probeTok  []c16Tok
	initTok   []c16Tok
	initCalls int
	initOK    bool
}

func (b *c16Base) c16Idx() int        { return b.idx }
func (b *c16Base) DriverName() string { return b.name }
func (b *c16Base) DriverVersion() (uint16, uint16, uint16) {
	return 1, uint16(b.idx), 16
}

func (b *c16Base) DriverInit(w io.Writer) *kernel.Error {
	b.s.evs = append(b.s.evs, c16Ev{'I', b.idx})
	b.initCalls++
	for _, tk := range b.initTok {
		b.s.emit(tk, w)
	}
	if b.d.Outcome == "fail" {
		return &kernel.Error{Module: "c16", Message: b.msg}
	}
	b.initOK = true
	return nil
}

func (b *c16Base) describe() string {
	return fmt.Sprintf("driver #%d (%s %q, order %d, %s)", b.idx, b.d.Kind, b.name, b.d.Order, b.d.Outcome)
}

type c16Other struct{ c16Base }

// c16Cons is a reference text-grid console.
type c16Cell struct{ ch, fg, bg uint8 }

type c16Cons struct {
	c16Base
	w, h    uint32
	cells   []c16Cell
	setters []string
}

func (c *c16Cons) Dimensions(d console.Dimension) (uint32, uint32) {
	if d == console.Pixels {
		return c.w * 8, c.h * 16
	}
	return c.w, c.h
}
func (c *c16Cons) DefaultColors() (uint8, uint8) { return 7, 0 }
func (c *c16Cons) Fill(x, y, width, height uint32, fg, bg uint8) {
	for yy := uint64(y); yy < uint64(y)+uint64(height); yy++ {
		for xx := uint64(x); xx < uint64(x)+uint64(width); xx++ {
			if xx >= 1 && yy >= 1 && xx <= uint64(c.w) && yy <= uint64(c.h) {
				c.cells[(yy-1)*uint64(c.w)+xx-1] = c16Cell{' ', fg, bg}
			}
		}
	}
}
func (c *c16Cons) Scroll(dir console.ScrollDir, lines uint32) {
	if lines == 0 || lines > c.h {
		return
	}
	n := int(lines * c.w)
	switch dir {
	case console.ScrollDirUp:
		copy(c.cells, c.cells[n:])
	case console.ScrollDirDown:
		copy(c.cells[n:], c.cells[:len(c.cells)-n])
	}
}
func (c *c16Cons) Write(ch byte, fg, bg uint8, x, y uint32) {
	if x >= 1 && y >= 1 && x <= c.w && y <= c.h {
		c.cells[(y-1)*c.w+x-1] = c16Cell{ch, fg, bg}
	}
}
func (c *c16Cons) Palette() color.Palette            { return nil }
func (c *c16Cons) SetPaletteColor(uint8, color.RGBA) {}

type c16ConsF struct{ *c16Cons }
type c16ConsL struct{ *c16Cons }
type c16ConsFL struct{ *c16Cons }

func (c c16ConsF) SetFont(*font.Font)   { c.setters = append(c.setters, "font") }
func (c c16ConsL) SetLogo(*logo.Image)  { c.setters = append(c.setters, "logo") }
func (c c16ConsFL) SetFont(*font.Font)  { c.setters = append(c.setters, "font") }
func (c c16ConsFL) SetLogo(*logo.Image) { c.setters = append(c.setters, "logo") }

// c16TTY is a recording terminal: either a mock that (like tty.VT) rejects
// writes while it is not attached to a console, or the real tty.VT behind a
// recording wrapper. AttachTo starts a new stream (tty.VT wipes its contents).
type c16TTY struct {
	c16Base
	vt         *tty.VT
	attached   bool
	attaches   []int // console index per AttachTo call
	state      tty.State
	eager      bool
	everActive bool
	stream     []byte // bytes accepted since the last AttachTo
	rejected   int    // bytes refused
}

func (t *c16TTY) Write(p []byte) (int, error) {
	if t.vt != nil {
		n, err := t.vt.Write(p)
		if n < 0 || n > len(p) {
			n = 0
		}
		t.stream = append(t.stream, p[:n]...)
		t.rejected += len(p) - n
		return n, err
	}
	if !t.attached {
		t.rejected += len(p)
		return 0, io.ErrClosedPipe
	}
	t.stream = append(t.stream, p...)
	return len(p), nil
}

func (t *c16TTY) WriteByte(b byte) error {
	if t.vt != nil {
		err := t.vt.WriteByte(b)
		if err != nil {
			t.rejected++
		} else {
			t.stream = append(t.stream, b)
		}
		return err
	}
	if !t.attached {
		t.rejected++
		return io.ErrClosedPipe
	}
	t.stream = append(t.stream, b)
	return nil
}

func (t *c16TTY) AttachTo(c console.Device) {
	t.attaches = append(t.attaches, c16IdxOf(c))
	if c == nil {
		return
	}
	t.attached = true
	t.stream = nil
	if t.vt != nil {
		t.vt.AttachTo(c)
	}
}

func (t *c16TTY) State() tty.State {
	if t.vt != nil {
		return t.vt.State()
	}
	return t.state
}

func (t *c16TTY) SetState(s tty.State) {
	if s == tty.StateActive {
		t.everActive = true
	}
	if t.vt != nil {
		t.vt.SetState(s)
		return
	}
	t.state = s
}

func (t *c16TTY) CursorPosition() (uint32, uint32) {
	if t.vt != nil {
		return t.vt.CursorPosition()
	}
	return 1, 1
}

func (t *c16TTY) SetCursorPosition(x, y uint32) {
	if t.vt != nil {
		t.vt.SetCursorPosition(x, y)
	}
}

// an empty multiboot info block: total size 16, reserved 0, end tag (type 0, size 8)
var c16MB = [2]uint64{16, 8 << 32}

func c16Build(c c16hCase) *c16Scn {
	s := &c16Scn{c: c}
	n := len(c.Drivers)
	s.base = make([]*c16Base, n)
	s.cons = make([]*c16Cons, n)
	s.ttys = make([]*c16TTY, n)
	s.drv = make([]device.Driver, n)
	for i, d := range c.Drivers {
		b := c16Base{s: s, idx: i, d: d, name: fmt.Sprintf("d%02d%s", i, d.Kind), msg: fmt.Sprintf("E%02d-no-such-hardware", i)}
		b.probeTok = c16MakeToks(100+i*10, d.Probe)
		b.initTok = c16MakeToks(100+i*10+5, d.Init)
		switch d.Kind {
		case "console":
			w, h := uint32(d.W), uint32(d.H)
			if w < 1 {
				w = 1
			}
			if h < 1 {
				h = 1
			}
			cs := &c16Cons{c16Base: b, w: w, h: h, cells: make([]c16Cell, w*h)}
			for k := range cs.cells {
				cs.cells[k] = c16Cell{'?', 0xee, 0xee}
			}
			s.cons[i], s.base[i] = cs, &cs.c16Base
			switch {
			case d.Font && d.Logo:
				s.drv[i] = c16ConsFL{cs}
			case d.Font:
				s.drv[i] = c16ConsF{cs}
			case d.Logo:
				s.drv[i] = c16ConsL{cs}
			default:
				s.drv[i] = cs
			}
		case "tty":
			t := &c16TTY{c16Base: b}
			if c.RealVT {
				t.vt = tty.NewVT(4, uint32(c.Scrollback))
			} else if d.Eager {
				t.eager, t.state = true, tty.StateActive
			}
			s.ttys[i], s.base[i], s.drv[i] = t, &t.c16Base, t
		default:
			o := &c16Other{b}
			s.base[i], s.drv[i] = &o.c16Base, o
		}
	}
	return s
}

// c16hExec brings the case up once. ref selects the lossless reference
// execution. harness != "" reports a harness-side problem.
func c16hExec(c c16hCase, ref bool) (s *c16Scn, fail *vlib.Failure, harness string) {
	wr, rd, ok := c16Ring()
	if !ok {
		return nil, nil, "kfmt.GetOutputSink() without a sink is not an io.Reader"
	}
	if f, geom := c16RingSeek(wr, rd, c.Phase); geom != "" {
		return nil, nil, "early buffer geometry: " + geom
	} else if f != nil {
		vlib.Die("C16", c, f)
	}
	s = c16Build(c)
	devices = managedDevices{}
	strBuf.Reset()
	multiboot.SetInfoPtr(uintptr(unsafe.Pointer(&c16MB[0])))
	multiboot.VerifResetCmdLine()
	if c.Cmd != "" {
		blk := c16CmdBlock(c.Cmd)
		multiboot.SetInfoPtr(uintptr(unsafe.Pointer(&blk[0])))
		defer func() { _ = blk }()
	}
	var list device.DriverInfoList
	for i := range c.Drivers {
		i := i
		list = append(list, &device.DriverInfo{Order: device.DetectOrder(c.Drivers[i].Order), Probe: func() device.Driver {
			s.evs = append(s.evs, c16Ev{'P', i})
			for _, tk := range s.base[i].probeTok {
				s.emit(tk, nil)
			}
			if c.Drivers[i].Outcome == "nil" {
				return nil
			}
			return s.drv[i]
		}})
	}
	old := device.VerifSetDrivers(list)
	defer func() {
		device.VerifSetDrivers(old)
		kfmt.SetOutputSink(nil)
		devices = managedDevices{}
		strBuf.Reset()
	}()
	s.initial = wr
	if ref {
		s.refRec = &c16Rec{}
		kfmt.SetOutputSink(s.refRec)
		s.initial = s.refRec
	}
	for _, tk := range c16MakeToks(0, c.Pre) {
		s.emit(tk, nil)
	}
	DetectHardware()
	s.evs = append(s.evs, c16Ev{'R', -1})
	for _, tk := range c16MakeToks(900, c.Post) {
		s.emit(tk, nil)
	}
	s.finalSink = kfmt.GetOutputSink()
	s.sinkIdx = c16IdxOf(s.finalSink)
	if s.sinkIdx == -1 && s.finalSink != nil && s.finalSink != s.initial {
		// the sink is none of the stand-ins itself: then whoever receives what is written to it (a
		// forwarding writer in front of the terminal is as good as the terminal). One carriage
		// return - it changes no cell - shows where output ends up; it is taken out again.
		before := make([]int, len(s.ttys))
		for i, t := range s.ttys {
			if t != nil {
				before[i] = len(t.stream)
			}
		}
		s.finalSink.Write([]byte{'\r'})
		for i, t := range s.ttys {
			if t != nil && len(t.stream) == before[i]+1 && t.stream[before[i]] == '\r' {
				t.stream = t.stream[:before[i]]
				s.sinkIdx = i
			}
		}
	}
	s.active = ActiveTTY()
	s.devs = devices
	if !ref && s.finalSink == s.initial {
		rest := &c16Rec{}
		kfmt.SetOutputSink(rest)
		s.ringRest = rest.b
	}
	kfmt.SetOutputSink(nil)
	if f, geom := c16RingSeek(wr, rd, 0); geom != "" {
		return s, nil, "early buffer geometry after the case: " + geom
	} else if f != nil {
		vlib.Die("C16", c, vlib.Failf("after the case the early buffer is unusable: %s", f.Msg))
	}
	return s, nil, ""
}

// ---------------------------------------------------------------------------
// reference terminal (what a w x h console shows after the stream): eager
// wrap, '\n' = carriage return + line feed, a line feed on the last row scrolls
// the rows up and blanks the last one.

func c16RefTerm(w, h int, stream []byte) []byte {
	g := bytes.Repeat([]byte{' '}, w*h)
	x, y := 0, 0
	lf := func() {
		x = 0
		if y+1 < h {
			y++
			return
		}
		copy(g, g[w:])
		for i := (h - 1) * w; i < h*w; i++ {
			g[i] = ' '
		}
	}
	for _, b := range stream {
		if b == '\n' {
			lf()
			continue
		}
		g[y*w+x] = b
		x++
		if x >= w {
			lf()
		}
	}
	return g
}

// ---------------------------------------------------------------------------
// run

type c16hInfo struct {
	harness    string
	nontrivial bool
	labels     []string
}

func c16hRun(c c16hCase) (*vlib.Failure, c16hInfo) {
	defer vlib.Guard("C16", c, nil)()
	var info c16hInfo
	fail := c16Guard(c, "device bring-up scenario", func() *vlib.Failure { return c16hBody(c, &info) })
	return fail, info
}

func c16EvString(evs []c16Ev) string {
	var b bytes.Buffer
	for _, e := range evs {
		if e.kind == 'R' {
			b.WriteString(" return")
		} else {
			fmt.Fprintf(&b, " %c%d", e.kind, e.idx)
		}
	}
	return b.String()
}

func c16hBody(c c16hCase, info *c16hInfo) *vlib.Failure {
	label := func(cond bool, l string) {
		if cond {
			info.labels = append(info.labels, l)
		}
	}
	label(true, "hal layer")
	hiText := false
	for _, d := range c.Drivers {
		for _, ch := range append(append([]c16Chunk(nil), d.Probe...), d.Init...) {
			hiText = hiText || (ch.Hi && ch.Pad > 1)
		}
	}
	for _, ch := range append(append([]c16Chunk(nil), c.Pre...), c.Post...) {
		hiText = hiText || (ch.Hi && ch.Pad > 1)
	}
	label(hiText, "log-text-with-bytes-above-0x7f")
	for _, d := range c.Drivers {
		if d.Kind == "tty" && d.Eager && !c.RealVT && d.Outcome == "ok" {
			label(true, "terminal-that-reports-active-from-the-start")
			break
		}
	}
	ref, fail, harness := c16hExec(c, true)
	if harness != "" || fail != nil {
		info.harness = harness
		return fail
	}
	s, fail, harness := c16hExec(c, false)
	if harness != "" || fail != nil {
		info.harness = harness
		return fail
	}

	// ---- probe order ---------------------------------------------------------
	probed := make([]int, len(c.Drivers))
	var probeSeq []int
	for _, e := range s.evs {
		if e.kind == 'P' {
			probed[e.idx]++
			probeSeq = append(probeSeq, e.idx)
		}
	}
	for i, n := range probed {
		if n != 1 {
			return vlib.Failf("%s was probed %d times (events:%s)", s.base[i].describe(), n, c16EvString(s.evs))
		}
	}
	for k := 1; k < len(probeSeq); k++ {
		a, b := s.base[probeSeq[k-1]], s.base[probeSeq[k]]
		if a.d.Order > b.d.Order {
			return vlib.Failf("probing is not in non-decreasing detection order: %s was probed before %s (events:%s)", a.describe(), b.describe(), c16EvString(s.evs))
		}
	}
	// every detected driver is initialised once, right after its probe
	for k, e := range s.evs {
		switch e.kind {
		case 'I':
			if k == 0 || s.evs[k-1] != (c16Ev{'P', e.idx}) {
				return vlib.Failf("DriverInit of %s does not directly follow its own probe (events:%s)", s.base[e.idx].describe(), c16EvString(s.evs))
			}
			if c.Drivers[e.idx].Outcome == "nil" {
				return vlib.Failf("DriverInit was called for %s whose probe found nothing", s.base[e.idx].describe())
			}
		case 'P':
			if c.Drivers[e.idx].Outcome != "nil" && (k+1 >= len(s.evs) || s.evs[k+1] != (c16Ev{'I', e.idx})) {
				return vlib.Failf("%s was detected but not initialised before the next probe (events:%s)", s.base[e.idx].describe(), c16EvString(s.evs))
			}
		}
	}

	// ---- who must be active --------------------------------------------------
	firstCons, firstTTY := -1, -1
	posCons, posTTY := -1, -1
	nOKCons, nOKTTY, nFail, nNil := 0, 0, 0, 0
	failBeforeActive := false
	for k, e := range s.evs {
		if e.kind != 'I' {
			continue
		}
		b := s.base[e.idx]
		if !b.initOK {
			nFail++
			if (b.d.Kind == "console" && firstCons < 0) || (b.d.Kind == "tty" && firstTTY < 0) {
				failBeforeActive = true
			}
			continue
		}
		switch b.d.Kind {
		case "console":
			nOKCons++
			if firstCons < 0 {
				firstCons, posCons = e.idx, k
			}
		case "tty":
			nOKTTY++
			if firstTTY < 0 {
				firstTTY, posTTY = e.idx, k
			}
		}
	}
	for _, d := range c.Drivers {
		if d.Outcome == "nil" {
			nNil++
		}
	}
	linked := firstCons >= 0 && firstTTY >= 0

	// ---- a failed driver never becomes active ----------------------------------
	activeIdx := c16IdxOf(s.active)
	sinkIdx := s.sinkIdx
	for i, b := range s.base {
		if b.initCalls == 0 || b.initOK {
			continue
		}
		if activeIdx == i {
			return vlib.Failf("ActiveTTY() is %s whose initialisation failed", b.describe())
		}
		if c16IdxOf(s.devs.activeConsole) == i {
			return vlib.Failf("the active console is %s whose initialisation failed", b.describe())
		}
		if sinkIdx == i {
			return vlib.Failf("kernel log output goes to %s whose initialisation failed", b.describe())
		}
		for _, d := range s.devs.activeDrivers {
			if c16IdxOf(d) == i {
				return vlib.Failf("%s failed to initialise but is listed among the active drivers", b.describe())
			}
		}
		if t := s.ttys[i]; t != nil && (t.everActive || len(t.attaches) > 0) {
			return vlib.Failf("%s failed to initialise but was attached to a console %d times / activated: %v", b.describe(), len(t.attaches), t.everActive)
		}
		for _, t := range s.ttys {
			if t == nil {
				continue
			}
			for _, a := range t.attaches {
				if a == i {
					return vlib.Failf("%s was attached to %s whose initialisation failed", t.describe(), b.describe())
				}
			}
		}
	}

	// ---- the active pair -----------------------------------------------------
	for i, t := range s.ttys {
		if t == nil || (linked && i == firstTTY) {
			continue
		}
		if t.everActive || (!t.eager && t.State() == tty.StateActive) {
			return vlib.Failf("%s was made active although it is not the first terminal to initialise with a console present (first terminal: %d, first console: %d)", t.describe(), firstTTY, firstCons)
		}
		if sinkIdx == i {
			return vlib.Failf("kernel log output goes to %s which is not the active terminal (first terminal: %d, first console: %d)", t.describe(), firstTTY, firstCons)
		}
	}
	if activeIdx != -2 && activeIdx != firstTTY {
		return vlib.Failf("ActiveTTY() is driver #%d, the first terminal whose initialisation succeeded is #%d (events:%s)", activeIdx, firstTTY, c16EvString(s.evs))
	}
	if ac := c16IdxOf(s.devs.activeConsole); ac != -2 && ac != firstCons {
		return vlib.Failf("the active console is driver #%d, the first console whose initialisation succeeded is #%d (events:%s)", ac, firstCons, c16EvString(s.evs))
	}
	if linked {
		t := s.ttys[firstTTY]
		if activeIdx != firstTTY {
			return vlib.Failf("a console (#%d) and a terminal (#%d) initialised but ActiveTTY() is nil", firstCons, firstTTY)
		}
		if c16IdxOf(s.devs.activeConsole) != firstCons {
			return vlib.Failf("a console (#%d) and a terminal (#%d) initialised but there is no active console", firstCons, firstTTY)
		}
		if len(t.attaches) == 0 {
			return vlib.Failf("%s is the active terminal but was never attached to a console (first console: #%d)", t.describe(), firstCons)
		}
		if last := t.attaches[len(t.attaches)-1]; last != firstCons {
			return vlib.Failf("%s ends up attached to driver #%d; the first console whose initialisation succeeded is #%d (attachments: %v)", t.describe(), last, firstCons, t.attaches)
		}
		if t.State() != tty.StateActive {
			return vlib.Failf("%s is linked to console #%d but its state is %d, not active", t.describe(), firstCons, t.State())
		}
		if sinkIdx != firstTTY {
			return vlib.Failf("%s is linked to console #%d but what is written to kfmt.GetOutputSink() does not reach that terminal (the sink is %s)", t.describe(), firstCons, c16SinkName(s, sinkIdx))
		}
	} else if s.finalSink != s.initial {
		return vlib.Failf("no console+terminal pair initialised (first console %d, first terminal %d) but the output sink was replaced by %s", firstCons, firstTTY, c16SinkName(s, sinkIdx))
	}

	// ---- both executions saw the same events -----------------------------------
	if a, b := c16EvString(ref.evs), c16EvString(s.evs); a != b {
		info.harness = fmt.Sprintf("reference and real execution differ in their events:%s vs%s", a, b)
		return nil
	}
	if len(ref.emitted) != len(s.emitted) {
		info.harness = "reference and real execution emitted a different number of chunks"
		return nil
	}
	preBytes := 0
	for k := range s.emitted {
		if ref.emitted[k].tok.id != s.emitted[k].tok.id || ref.emitted[k].pre != s.emitted[k].pre {
			info.harness = fmt.Sprintf("reference and real execution differ at emitted chunk %d", k)
			return nil
		}
		if s.emitted[k].pre {
			preBytes += len(s.emitted[k].tok.data)
		}
	}

	// ---- the complete log (reference execution) ---------------------------------
	lref := ref.refRec.b
	var sref []byte
	if ri := ref.sinkIdx; ri >= 0 && ref.ttys[ri] != nil {
		sref = ref.ttys[ri].stream
	}
	full := append(append([]byte(nil), lref...), sref...)
	tokPos := make([]int, len(ref.emitted))
	at := 0
	for k, e := range ref.emitted {
		p := bytes.Index(full[at:], e.tok.text)
		if p < 0 || bytes.Count(full, e.tok.text) != 1 {
			return vlib.Failf("lossless execution (a sink is installed before the first byte): token %s, emitted as chunk %d, occurs %d times in the log / not after its predecessor: %s", e.tok.text, k, bytes.Count(full, e.tok.text), c16Clip(full))
		}
		tokPos[k] = at + p
		at += p + len(e.tok.text)
		if e.pre != (tokPos[k] < len(lref)) {
			info.harness = fmt.Sprintf("token %s: emitted before the link = %v, but found at offset %d of a log whose pre-link part has %d bytes", e.tok.text, e.pre, tokPos[k], len(lref))
			return nil
		}
	}
	// every line piece of every chunk arrives on the lossless log byte for byte (line prefixes may be
	// put in front of a piece, nothing may change inside one)
	for k, e := range ref.emitted {
		for _, piece := range bytes.Split(e.tok.data, []byte{'\n'}) {
			if len(piece) > 0 && !bytes.Contains(full, piece) {
				return vlib.Failf("lossless execution (a sink is installed before the first byte): the bytes %q of chunk %d (token %s) do not appear on the log unchanged: %s", piece, k, e.tok.text, c16Clip(full))
			}
		}
	}
	for _, b := range s.base {
		if b.initCalls == 0 || b.initOK {
			continue
		}
		if !bytes.Contains(full, []byte(b.msg)) {
			return vlib.Failf("%s failed to initialise with the message %q, which does not appear on the log: %s", b.describe(), b.msg, c16Clip(full))
		}
		if !bytes.Contains(full, []byte(b.name)) {
			return vlib.Failf("%s failed to initialise but its name does not appear on the log: %s", b.describe(), c16Clip(full))
		}
	}

	// ---- what the terminal (or, without a link, the ring) received ----------------
	need := len(lref)
	if need > c16RingCap {
		need = c16RingCap
	}
	var got []byte
	where := "the early buffer at the end"
	if linked {
		t := s.ttys[firstTTY]
		got = t.stream
		where = "the active terminal"
		if t.rejected > 0 {
			return vlib.Failf("%s refused %d bytes of log output (written to it while it was not attached to a console)", t.describe(), t.rejected)
		}
	} else {
		got = s.ringRest
		// without a link the reference recorder holds everything
	}
	// token level: present exactly once and in order; a token may be missing
	// only if more than the ring capacity was logged from its first byte to the
	// link; missing tokens form a prefix of the emission order.
	lost, prev, seenPresent := 0, -1, false
	for k, e := range s.emitted {
		n := bytes.Count(got, e.tok.text)
		if n > 1 {
			return vlib.Failf("token %s appears %d times on %s", e.tok.text, n, where)
		}
		vol := 0 // bytes logged from the first byte of the token up to the link
		if tokPos[k] < len(lref) {
			vol = len(lref) - tokPos[k]
		}
		if n == 0 {
			if seenPresent {
				return vlib.Failf("token %s is missing on %s although an older token is present (oldest must be dropped first)", e.tok.text, where)
			}
			if !e.pre && linked {
				return vlib.Failf("token %s, logged after the terminal was linked, is missing on %s: %s", e.tok.text, where, c16Clip(got))
			}
			if vol <= c16RingCap {
				return vlib.Failf("token %s is missing on %s although only %d bytes (capacity %d) were logged from its first byte to the moment the terminal was linked / the end (pre-link volume %d, received %d bytes): %s", e.tok.text, where, vol, c16RingCap, len(lref), len(got), c16Clip(got))
			}
			lost++
			continue
		}
		seenPresent = true
		p := bytes.Index(got, e.tok.text)
		if p < prev {
			return vlib.Failf("token %s appears on %s before an older token (out of order)", e.tok.text, where)
		}
		prev = p
	}
	// byte level: a suffix of the pre-link log of at least min(volume, capacity)
	// bytes, followed by exactly the post-link log
	exact := func() *vlib.Failure {
		if !bytes.HasSuffix(got, sref) {
			return vlib.Failf("the output logged after the link does not arrive unchanged at the end of what %s received: %s", where, c16DescribeDiff(c16Tail(got, len(sref)), sref))
		}
		d := len(got) - len(sref)
		if d < need {
			return vlib.Failf("%s received only %d of the %d bytes logged before the link; min(volume, capacity %d) = %d must survive: %s", where, d, len(lref), c16RingCap, need, c16Clip(got[:d]))
		}
		if d > len(lref) || !bytes.Equal(got[:d], lref[len(lref)-d:]) {
			return vlib.Failf("the %d early bytes %s received are not the last %d bytes logged before the link: %s", d, where, d, c16DescribeDiff(got[:d], c16Tail(lref, d)))
		}
		return nil
	}()
	if exact != nil {
		// The lossless execution and the real one differ in nothing but where the log goes first. A
		// line the bring-up code writes about that very thing (so many bytes replayed, so many
		// lost) may differ between the two in its numbers. Before giving up, the comparison is
		// repeated with every run of decimal digits folded into one '#', and with some slack in
		// the byte count (the fold shortens both sides); anything else that differs still counts.
		fold := func(b []byte) []byte {
			out := make([]byte, 0, len(b))
			for i := 0; i < len(b); i++ {
				if b[i] >= '0' && b[i] <= '9' {
					if len(out) == 0 || out[len(out)-1] != '#' {
						out = append(out, '#')
					}
					continue
				}
				out = append(out, b[i])
			}
			return out
		}
		g, l, sr := fold(got), fold(lref), fold(sref)
		const slack = 96
		d := len(g) - len(sr)
		needFolded := len(l)
		if c16RingCap-slack < needFolded {
			needFolded = c16RingCap - slack
		}
		if !bytes.HasSuffix(g, sr) || d+slack < needFolded || d > len(l) || !bytes.Equal(g[:d], l[len(l)-d:]) {
			return exact
		}
		label(true, "log-lines-with-numbers-that-depend-on-the-execution(compared with digits folded)")
	}

	// ---- the real VT shows the stream on the console ------------------------------
	if linked && c.RealVT {
		cs := s.cons[firstCons]
		plain := true
		for _, b := range got {
			if b != '\n' && (b < 0x20 || b > 0x7e) {
				plain = false
			}
		}
		if plain {
			label(true, "real VT: console compared with the reference terminal")
			label(bytes.Count(got, []byte{'\n'}) >= int(cs.h), "real VT: console scrolled")
			want := c16RefTerm(int(cs.w), int(cs.h), got)
			for k, cell := range cs.cells {
				if cell != (c16Cell{want[k], 7, 0}) {
					return vlib.Failf("console #%d (%dx%d) behind the real VT: cell (%d,%d) shows (%q, fg %d, bg %d), the reference terminal fed with the %d bytes the VT received shows %q", firstCons, cs.w, cs.h, k%int(cs.w)+1, k/int(cs.w)+1, cell.ch, cell.fg, cell.bg, len(got), want[k])
				}
			}
		}
	}

	// ---- classification ----------------------------------------------------------
	info.nontrivial = linked && (nFail > 0 || nOKCons > 1 || nOKTTY > 1) && preBytes > 0
	label(linked, "linked")
	label(!linked && firstCons < 0 && firstTTY >= 0, "no link: terminal without console")
	label(!linked && firstTTY < 0 && firstCons >= 0, "no link: console without terminal")
	label(!linked && firstTTY < 0 && firstCons < 0, "no link: neither")
	label(len(lref) > c16RingCap, "ring overflowed")
	label(linked && len(lref) > c16RingCap, "ring overflowed before the link")
	label(lost > 0, "tokens dropped")
	label(linked && posTTY < posCons, "tty before console")
	label(linked && posCons < posTTY, "console before tty")
	label(linked && c.RealVT, "real VT")
	label(linked && !c.RealVT, "mock tty")
	label(nFail > 0, "failing init")
	label(failBeforeActive, "failing console/tty before the active one")
	label(nOKCons > 1, "several consoles succeed")
	label(nOKTTY > 1, "several terminals succeed")
	label(nNil > 0, "nil probe")
	label(len(c.Drivers) == 0, "no drivers")
	sorted, ties := true, false
	for k := 1; k < len(c.Drivers); k++ {
		if c.Drivers[k-1].Order > c.Drivers[k].Order {
			sorted = false
		}
	}
	seen := map[int8]bool{}
	for _, d := range c.Drivers {
		if seen[d.Order] {
			ties = true
		}
		seen[d.Order] = true
	}
	label(!sorted, "registered out of detection order")
	label(ties, "equal detection orders")
	// a console that takes a logo and a font gets the logo first: the shipped framebuffer console
	// derives its text grid from the logo's height when the font is set ("SetLogo ... must be
	// invoked before SetFont", vesa_fb.go) - a font handed over first leaves a grid that reaches
	// below the framebuffer
	for i, cs := range s.cons {
		if cs == nil {
			continue
		}
		fontAt, logoAt := -1, -1
		for k, what := range cs.setters {
			if what == "font" && fontAt < 0 {
				fontAt = k
			}
			if what == "logo" {
				logoAt = k
			}
		}
		if fontAt >= 0 && logoAt > fontAt {
			return vlib.Failf("%s (takes a logo and a font; boot command line %q) was handed its font before its logo (calls: %v): the console documents that the logo must be set first", s.base[i].describe(), c.Cmd, cs.setters)
		}
	}
	if linked {
		cs := s.cons[firstCons]
		label(len(cs.setters) > 0, "active console with font/logo setter")
		label(len(cs.setters) > 1 && strings.Contains(c.Cmd, "consoleFont=terminus"), "console with logo and font, font named on the boot command line")
		last := false
		for _, e := range s.emitted {
			if e.pre && len(e.tok.data) > 0 && e.tok.data[len(e.tok.data)-1] != '\n' {
				last = true
			}
		}
		label(last, "pre-link chunk without trailing newline")
	}
	return nil
}

func c16Tail(b []byte, n int) []byte {
	if n > len(b) {
		n = len(b)
	}
	if n < 0 {
		n = 0
	}
	return b[len(b)-n:]
}

func c16SinkName(s *c16Scn, idx int) string {
	switch {
	case s.finalSink == s.initial:
		return "still the early buffer"
	case idx >= 0:
		return s.base[idx].describe()
	case idx == -2:
		return "nil"
	}
	return "something else"
}

// ---------------------------------------------------------------------------
// generator

func c16GenChunk(bigPct int) func(*rapid.T) c16Chunk {
	return func(t *rapid.T) c16Chunk {
		var ch c16Chunk
		cl := rapid.IntRange(0, 99).Draw(t, "padclass")
		switch {
		case cl < bigPct:
			ch.Pad = rapid.IntRange(600, 3000).Draw(t, "bigpad")
		case cl < bigPct+20:
			ch.Pad = rapid.IntRange(13, 250).Draw(t, "midpad")
		default:
			ch.Pad = rapid.IntRange(0, 12).Draw(t, "pad")
		}
		ch.NL = rapid.SampledFrom([]int{1, 1, 1, 1, 0, 0, 2, 3, 4}).Draw(t, "nl")
		ch.Str = rapid.Bool().Draw(t, "str")
		ch.Hi = rapid.IntRange(0, 3).Draw(t, "hi") == 0
		return ch
	}
}

func c16GenDrv(t *rapid.T) c16Drv {
	d := c16Drv{
		Kind:    rapid.SampledFrom([]string{"console", "console", "tty", "tty", "other"}).Draw(t, "kind"),
		Order:   rapid.SampledFrom([]int8{-128, -127, -1, 0, 0, 1, 127}).Draw(t, "order"),
		Outcome: rapid.SampledFrom([]string{"ok", "ok", "ok", "ok", "fail", "fail", "nil"}).Draw(t, "outcome"),
	}
	if d.Kind == "console" {
		d.Font = rapid.Bool().Draw(t, "font")
		d.Logo = rapid.Bool().Draw(t, "logo")
		d.W = rapid.IntRange(1, 12).Draw(t, "w")
		d.H = rapid.IntRange(1, 12).Draw(t, "h")
	}
	if d.Kind == "tty" {
		d.Eager = rapid.IntRange(0, 3).Draw(t, "eager") == 0
	}
	d.Probe = rapid.SliceOfN(rapid.Custom(c16GenChunk(1)), 0, 2).Draw(t, "probelog")
	if d.Outcome != "nil" {
		d.Init = rapid.SliceOfN(rapid.Custom(c16GenChunk(2)), 0, 3).Draw(t, "initlog")
	}
	return d
}

func c16hGenCase(t *rapid.T) c16hCase {
	var c c16hCase
	switch rapid.IntRange(0, 3).Draw(t, "phaseclass") {
	case 0:
		c.Phase = rapid.SampledFrom([]int{0, 1, 2046, 2047}).Draw(t, "phase-edge")
	default:
		c.Phase = rapid.IntRange(0, c16RingSize-1).Draw(t, "phase")
	}
	minDrv := rapid.SampledFrom([]int{0, 2, 2, 3, 4}).Draw(t, "mindrivers")
	c.Drivers = rapid.SliceOfN(rapid.Custom(c16GenDrv), minDrv, 10).Draw(t, "drivers")
	c.RealVT = rapid.Bool().Draw(t, "realvt")
	if c.RealVT {
		c.Scrollback = rapid.IntRange(0, 6).Draw(t, "scrollback")
	}
	c.Pre = rapid.SliceOfN(rapid.Custom(c16GenChunk(8)), 0, 4).Draw(t, "pre")
	c.Post = rapid.SliceOfN(rapid.Custom(c16GenChunk(5)), 0, 4).Draw(t, "post")
	c.Cmd = rapid.SampledFrom([]string{"", "", "", "consoleFont=terminus8x16", "consoleFont=terminus10x18 quiet", "consoleFont=nosuchfont",
		"consoleLogo=off", "consoleLogo=off consoleFont=terminus14x28", "root=/dev/sda1 consoleFont= consoleLogo=on"}).Draw(t, "cmdline")
	return c
}

func TestVerifC16Hal(t *testing.T) {
	st := vlib.For("C16")
	defer vlib.Flush()
	rapid.Check(t, func(t *rapid.T) {
		c := c16hGenCase(t)
		fail, info := c16hRun(c)
		if info.harness != "" {
			t.Fatalf("VERIF-HARNESS C16 hal layer: %s", info.harness)
		}
		st.Case(c, info.nontrivial, info.labels...)
		vlib.Report(t, "C16", c, fail)
	})
}

func TestVerifC16HalReplay(t *testing.T) {
	var c c16hCase
	ok, err := vlib.LoadReplay(&c)
	if !ok {
		t.Skip("no replay requested")
	}
	if err != nil {
		t.Fatalf("VERIF-HARNESS cannot load replay: %v", err)
	}
	fail, info := c16hRun(c)
	if info.harness != "" {
		t.Fatalf("VERIF-HARNESS C16 hal layer: %s", info.harness)
	}
	vlib.Report(t, "C16", c, fail)
}
