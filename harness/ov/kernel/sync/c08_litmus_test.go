//go:build verif && go1.21

package sync

// C08, part (3): two locks, two tasks on two cores, nothing but lock operations between the
// operations that matter. Each task holds its own lock; on a common signal each releases its
// own lock and straight away tries the other one:
//
//	task 0: A.Release(); r0 = B.TryToAcquire()      task 1: B.Release(); r1 = A.TryToAcquire()
//
// Whatever the interleaving, one of the two tries comes after the other; the later one finds a
// lock whose holder has already released it and that nobody else has taken - "after a release
// the lock can be taken again", "try-acquire returns false [only] when someone else holds it".
// r0 == r1 == false is therefore impossible for a correct lock; it is what a release that is not
// ordered before the releasing task's next lock operation produces (store buffering). The
// per-lock histories of parts (1) and (2) cannot see this: each of them is consistent on its own.

import (
	"fmt"
	"runtime"
	"sync/atomic"
	"testing"

	"pgregory.net/rapid"
	"verifharness/vlib"
)

type c08Litmus struct {
	Rounds   int    `json:"rounds"`
	Adjacent bool   `json:"adjacent,omitempty"` // the two locks are neighbours in memory (one cache line)
	Jitter   [2]int `json:"jitter"`             // busy work of each task between the signal and its release
	Take     string `json:"take"`               // how a task takes its own lock before each round: try | acquire
}

type c08LitmusStats struct{ both, only0, only1, none int }

func c08RunLitmus(c c08Litmus) (*vlib.Failure, c08LitmusStats) {
	var st c08LitmusStats
	if runtime.GOMAXPROCS(0) < 2 {
		return nil, st // needs two cores
	}
	old := yieldFn
	yieldFn = runtime.Gosched
	defer func() { yieldFn = old }()

	arr := make([]Spinlock, 64)
	locks := [2]*Spinlock{&arr[0], &arr[len(arr)-1]}
	if c.Adjacent {
		locks[1] = &arr[1]
	}
	var gate atomic.Int64
	wait := func(target int64) {
		for n := 0; gate.Load() < target; n++ {
			if n%2000 == 1999 {
				runtime.Gosched()
			}
		}
	}
	res := make([][2]bool, c.Rounds)
	var firstFail atomic.Pointer[vlib.Failure]
	done := make(chan struct{}, 2)
	for i := 0; i < 2; i++ {
		go func(i int) {
			defer func() { done <- struct{}{} }()
			own, other := locks[i], locks[1-i]
			for r := 0; r < c.Rounds; r++ {
				base := int64(6 * r)
				if c.Take == "try" {
					if !own.TryToAcquire() {
						firstFail.CompareAndSwap(nil, vlib.Failf("round %d: task %d: TryToAcquire of its own lock failed although nobody holds it (every earlier holder has released it)", r, i))
						own.Acquire()
					}
				} else {
					own.Acquire()
				}
				gate.Add(1)
				wait(base + 2)
				c08Spin(c.Jitter[i])
				// ---- the two operations under test, nothing in between
				own.Release()
				got := other.TryToAcquire()
				// ----
				res[r][i] = got
				gate.Add(1)
				wait(base + 4)
				if got {
					other.Release()
				}
				gate.Add(1)
				wait(base + 6)
			}
		}(i)
	}
	<-done
	<-done
	if f := firstFail.Load(); f != nil {
		return f, st
	}
	for r, x := range res {
		switch {
		case x[0] && x[1]:
			st.both++
		case x[0]:
			st.only0++
		case x[1]:
			st.only1++
		default:
			st.none++
			if st.none == 1 {
				firstFail.Store(vlib.Failf("round %d of %d: task 0 released lock A and its next operation, TryToAcquire of lock B, returned false; at the same time task 1 released B and its TryToAcquire of A returned false. Whichever try came second found a lock that had been released and that nobody holds: try-acquire lied (a release is not ordered before the releasing task's next lock operation)", r, c.Rounds))
			}
		}
	}
	return firstFail.Load(), st
}

func TestVerifC08Litmus(t *testing.T) {
	st := vlib.For("C08")
	defer vlib.Flush()
	rapid.Check(t, func(t *rapid.T) {
		c := c08Litmus{
			Rounds:   rapid.IntRange(200, vlib.Scale(3000, 30000)).Draw(t, "rounds"),
			Adjacent: rapid.Bool().Draw(t, "adjacent"),
			Take:     rapid.SampledFrom([]string{"try", "acquire"}).Draw(t, "take"),
		}
		c.Jitter[0] = rapid.SampledFrom([]int{0, 0, 1, 3, 10, 40}).Draw(t, "jitter0")
		c.Jitter[1] = rapid.SampledFrom([]int{0, 0, 1, 3, 10, 40}).Draw(t, "jitter1")
		fail, ls := c08RunLitmus(c)
		labels := []string{"two-locks-release-then-try-crosswise"}
		if ls.both > 0 {
			labels = append(labels, "crosswise-both-tries-succeeded-in-some-round")
		}
		if ls.only0 > 0 && ls.only1 > 0 {
			labels = append(labels, "crosswise-each-task-lost-some-round")
		}
		st.Add("crosswise_rounds", int64(c.Rounds))
		st.Add("crosswise_rounds_in_which_exactly_one_try_failed", int64(ls.only0+ls.only1))
		kinds := 0
		for _, n := range []int{ls.both, ls.only0, ls.only1} {
			if n > 0 {
				kinds++
			}
		}
		st.Case(c, kinds >= 2, labels...)
		vlib.Report(t, "C08", c, fail)
	})
}

func TestVerifC08LitmusReplay(t *testing.T) {
	var c c08Litmus
	ok, err := vlib.LoadReplay(&c)
	if !ok {
		t.Skip("no replay requested")
	}
	if err != nil {
		t.Fatalf("VERIF-HARNESS cannot load replay: %v", err)
	}
	// a schedule-dependent failure may need several attempts
	for i := 0; i < 20; i++ {
		if fail, _ := c08RunLitmus(c); fail != nil {
			vlib.Report(t, "C08", c, fail)
		}
	}
	_ = fmt.Sprint
}

// C08, part (4), thorough tier only: one long hold during which another task keeps trying. "A
// try-acquire returns false without side effects when someone else holds it" - however often: the
// number of refusals in one hold runs through the whole 32-bit range and a bit beyond, and every
// single try must be refused. (A lock word that counts refusals has wrapped by then.)
type c08Refusals struct {
	Tries uint64 `json:"tries"`
}

func TestVerifC08Refusals(t *testing.T) {
	st := vlib.For("C08")
	defer vlib.Flush()
	old := yieldFn
	yieldFn = runtime.Gosched
	defer func() { yieldFn = old }()
	c := c08Refusals{Tries: 1<<32 + 1<<16}
	box := c08NewBox(0xffffffff, "")
	defer box.free()
	l := box.l
	if !l.TryToAcquire() {
		vlib.Report(t, "C08", c, vlib.Failf("TryToAcquire of a new lock failed"))
		return
	}
	var fail *vlib.Failure
	for i := uint64(1); i <= c.Tries; i++ {
		if l.TryToAcquire() {
			fail = vlib.Failf("one task holds the lock and never released it; the %d-th TryToAcquire by another task during that hold returned true (the %d before it were refused)", i, i-1)
			break
		}
	}
	if fail == nil {
		l.Release()
		if !l.TryToAcquire() {
			fail = vlib.Failf("after a hold during which %d tries were refused, the lock was released but cannot be taken", c.Tries)
		} else {
			l.Release()
			fail = box.intact(0xffffffff)
		}
	}
	st.Add("refused_tries_in_one_hold", int64(c.Tries))
	st.Case(c, true, "billions-of-refused-tries-during-one-hold")
	vlib.Report(t, "C08", c, fail)
}
