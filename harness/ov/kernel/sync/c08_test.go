//go:build verif && go1.21

package sync

// C08 — spinlock gives mutual exclusion; try-acquire never lies.
//
// (1) model-based check under a harness-owned (sequential) schedule;
// (2) free-running stress on all cores with invariants inside the critical
//     section and measured contention.

import (
	"fmt"
	"runtime"
	gosync "sync"
	"sync/atomic"
	"testing"
	"time"
	"unsafe"

	"pgregory.net/rapid"
	"verifharness/vlib"
)

// ---------------------------------------------------------------------------
// (1) sequential history against an exact model

type c08Op struct {
	W    int    `json:"w"`
	Kind string `json:"kind"` // acquire, try, release
}

type c08Case struct {
	Workers int     `json:"workers"`
	Ops     []c08Op `json:"ops"`
	Nb      uint32  `json:"nb,omitempty"` // value of the words next to the lock word
	Place   string  `json:"place,omitempty"` // address class of the lock (c08Places)
}

// c08Box puts the lock between other data, the way the kernel's allocator
// keeps its mutex next to its counters: the lock word is the only memory a
// lock operation may look at or change.
type c08Box struct {
	pre  *uint32
	l    *Spinlock
	post *uint32
	far  *uint64
	free func()
}

type c08Mem struct {
	pre  uint32
	l    Spinlock
	post uint32
	far  uint64
}

// c08Places are the address classes a lock can live at: the Go heap (""), memory below 4 GiB
// (upper half of the address all zero, as in the kernel's identity-mapped low memory), and an
// address that is a multiple of 4 GiB (lower half all zero).
var c08Places = []string{"", "", "", "hi32zero", "lo32zero"}

func c08NewBox(nb uint32, place string) *c08Box {
	var b *c08Box
	switch place {
	case "hi32zero":
		g, err := vlib.NewGuarded(4096, true)
		if err != nil || uint64(g.Addr())>>32 != 0 {
			panic(fmt.Sprintf("VERIF-HARNESS: no memory below 4 GiB: %v", err))
		}
		a := g.Addr() + 2048
		b = c08BoxAt(a, g.Free)
	case "lo32zero":
		var a uintptr
		for k := uintptr(1); k < 0x7000 && a == 0; k++ {
			if vlib.MapFixed(k<<32-4096, 2) == nil {
				a = k << 32
			}
		}
		if a == 0 {
			panic("VERIF-HARNESS: no free address that is a multiple of 4 GiB")
		}
		b = c08BoxAt(a, func() { vlib.UnmapFixed(a-4096, 2) })
	default:
		m := &c08Mem{}
		b = &c08Box{pre: &m.pre, l: &m.l, post: &m.post, far: &m.far, free: func() {}}
	}
	*b.pre, *b.post, *b.far = nb, nb, uint64(nb)<<32|uint64(nb)
	return b
}

// c08BoxAt lays a box out by hand at address a (a multiple of 8): the word before the lock, the
// lock itself - however many bytes the Spinlock type occupies - and the neighbours after it.
func c08BoxAt(a uintptr, free func()) *c08Box {
	post := a + (unsafe.Sizeof(Spinlock{})+3)&^3
	far := (post + 4 + 7) &^ 7
	return &c08Box{pre: (*uint32)(unsafe.Pointer(a - 4)), l: (*Spinlock)(unsafe.Pointer(a)), post: (*uint32)(unsafe.Pointer(post)), far: (*uint64)(unsafe.Pointer(far)), free: free}
}

func (b *c08Box) intact(nb uint32) *vlib.Failure {
	if pre, post, far := atomic.LoadUint32(b.pre), atomic.LoadUint32(b.post), atomic.LoadUint64(b.far); pre != nb || post != nb || far != uint64(nb)<<32|uint64(nb) {
		return vlib.Failf("lock operations changed memory next to the lock word: words before/after were %#x, now %#x / %#x / %#x", nb, pre, post, far)
	}
	return nil
}

type c08Res struct {
	w  int
	ok bool
}

const (
	c08Window  = 300 * time.Microsecond // how long an acquire that must block is watched
	c08Patience = 5 * time.Second        // how long an acquire that may proceed is given
)

func c08Run(c c08Case) (fail *vlib.Failure, blockedAcquires int) {
	old := yieldFn
	yieldFn = runtime.Gosched
	defer func() { yieldFn = old }()

	box := c08NewBox(c.Nb, c.Place)
	defer box.free()
	l := box.l
	reqs := make([]chan string, c.Workers)
	done := make(chan c08Res, c.Workers*2)
	var wg gosync.WaitGroup
	for w := 0; w < c.Workers; w++ {
		reqs[w] = make(chan string)
		wg.Add(1)
		go func(w int) {
			defer wg.Done()
			for op := range reqs[w] {
				switch op {
				case "acquire":
					l.Acquire()
					done <- c08Res{w, true}
				case "try":
					done <- c08Res{w, l.TryToAcquire()}
				case "release":
					l.Release()
					done <- c08Res{w, true}
				}
			}
		}(w)
	}

	holder := -1
	parked := map[int]bool{}
	outstanding := map[int]int{} // requests sent and not yet answered, per worker
	send := func(w int, op string) {
		outstanding[w]++
		reqs[w] <- op
	}
	// cleanup: whatever happened, let every spinning goroutine finish (the lock
	// word is forced free until every outstanding request has been answered)
	defer func() {
		pending := 0
		for _, n := range outstanding {
			pending += n
		}
		giveUp := vlib.StartPatience(c08Patience)
		for pending > 0 {
			atomic.StoreUint32(&l.state, 0)
			select {
			case <-done:
				pending--
			case <-time.After(200 * time.Microsecond):
			}
			if giveUp.Expired() {
				// a goroutine is stuck inside Acquire although the lock word is
				// free: it cannot be recovered, report and leave the process
				if fail == nil {
					fail = vlib.Failf("a blocking Acquire does not return although the lock is free")
				}
				fail.Msg += " [and the blocked Acquire could not be released by freeing the lock word]"
				vlib.Die("C08", c, fail)
			}
		}
		for _, ch := range reqs {
			close(ch)
		}
		wg.Wait()
	}()

	// wait gives a completion the time d to arrive. The short window (an Acquire that must stay
	// blocked) is plain wall-clock time; the long one (an operation that may proceed and does
	// not) is a vlib.Patience: wall-clock AND CPU time, so that a stalled machine is not taken
	// for a blocked lock.
	wait := func(d time.Duration) (c08Res, bool) {
		if d < time.Second {
			select {
			case r := <-done:
				outstanding[r.w]--
				return r, true
			case <-time.After(d):
				return c08Res{}, false
			}
		}
		patience := vlib.StartPatience(d)
		for {
			select {
			case r := <-done:
				outstanding[r.w]--
				return r, true
			case <-time.After(10 * time.Millisecond):
				if patience.Expired() {
					return c08Res{}, false
				}
			}
		}
	}
	// noCompletion watches for a completion that must not happen.
	noCompletion := func(when string) *vlib.Failure {
		if len(parked) == 0 {
			return nil
		}
		if r, got := wait(c08Window); got {
			delete(parked, r.w)
			return vlib.Failf("%s: blocking Acquire of worker %d returned while worker %d holds the lock", when, r.w, holder)
		}
		return nil
	}

	for i, op := range c.Ops {
		when := fmt.Sprintf("op %d (%s by worker %d)", i, op.Kind, op.W)
		w := op.W % c.Workers
		if parked[w] {
			continue // this worker is inside a blocking Acquire
		}
		switch op.Kind {
		case "acquire":
			if holder == w {
				continue // re-acquiring a held lock is a documented deadlock
			}
			send(w, "acquire")
			if holder == -1 {
				r, got := wait(c08Patience)
				if !got {
					parked[w] = true
					return vlib.Failf("%s: Acquire of a free lock did not return within %v", when, c08Patience), blockedAcquires
				}
				if r.w != w {
					delete(parked, r.w)
					return vlib.Failf("%s: unexpected completion by worker %d", when, r.w), blockedAcquires
				}
				holder = w
			} else {
				parked[w] = true
				blockedAcquires++
				if f := noCompletion(when); f != nil {
					return f, blockedAcquires
				}
			}
		case "try":
			send(w, "try")
			r, got := wait(c08Patience)
			if !got || r.w != w {
				return vlib.Failf("%s: TryToAcquire did not return (got=%v from worker %d)", when, got, r.w), blockedAcquires
			}
			want := holder == -1
			if r.ok != want {
				return vlib.Failf("%s: TryToAcquire returned %v, holder is %d", when, r.ok, holder), blockedAcquires
			}
			if r.ok {
				holder = w
			}
			// a failed try must not have disturbed anything: parked workers stay parked
			if f := noCompletion(when + " (after failed try)"); !r.ok && f != nil {
				return f, blockedAcquires
			}
		case "release":
			if holder != w && holder != -1 {
				continue // releasing someone else's lock is misuse, not generated
			}
			send(w, "release")
			if r, got := wait(c08Patience); !got || r.w != w {
				// the completion may also be a parked worker that got the lock first
				if got && parked[r.w] && holder == w {
					delete(parked, r.w)
					holder = r.w
					if r2, got2 := wait(c08Patience); !got2 || r2.w != w {
						return vlib.Failf("%s: Release did not return", when), blockedAcquires
					}
					if f := noCompletion(when + " (second waiter)"); f != nil {
						return f, blockedAcquires
					}
					continue
				}
				return vlib.Failf("%s: Release did not return", when), blockedAcquires
			}
			if holder == -1 {
				// release of a free lock: no effect
				continue
			}
			holder = -1
			if len(parked) > 0 {
				r, got := wait(c08Patience)
				if !got {
					return vlib.Failf("%s: %d workers are blocked in Acquire and none returned within %v after the release", when, len(parked), c08Patience), blockedAcquires
				}
				if !parked[r.w] {
					return vlib.Failf("%s: unexpected completion by worker %d", when, r.w), blockedAcquires
				}
				delete(parked, r.w)
				holder = r.w
				if f := noCompletion(when + " (second waiter)"); f != nil {
					return f, blockedAcquires
				}
			} else {
				// after a release the lock can be taken again (asked through the API, not by
				// looking at the lock word: how "free" is encoded is the lock's business)
				if !l.TryToAcquire() {
					return vlib.Failf("%s: the lock is still taken after Release with nobody waiting (a try-acquire by the harness fails)", when), blockedAcquires
				}
				l.Release()
			}
		}
	}
	// wind down through the API: release and let each waiter in
	for holder != -1 {
		send(holder, "release")
		rel := holder
		holder = -1
		seenRel := false
		for !seenRel || (len(parked) > 0 && holder == -1) {
			r, got := wait(c08Patience)
			if !got {
				return vlib.Failf("wind-down: release by %d / hand-over to %d waiters did not complete", rel, len(parked)), blockedAcquires
			}
			if r.w == rel && !seenRel {
				seenRel = true
			} else if parked[r.w] {
				delete(parked, r.w)
				holder = r.w
			} else {
				return vlib.Failf("wind-down: unexpected completion by worker %d", r.w), blockedAcquires
			}
		}
		if f := noCompletion("wind-down"); f != nil {
			return f, blockedAcquires
		}
	}
	return box.intact(c.Nb), blockedAcquires
}

// c08Neighbours are the values the memory around the lock word is filled with.
var c08Neighbours = []uint32{0, 0xffffffff, 1, 0xffffffff, 0x80000000}

func TestVerifC08(t *testing.T) {
	st := vlib.For("C08")
	defer vlib.Flush()
	rapid.Check(t, func(t *rapid.T) {
		var c c08Case
		c.Nb = rapid.SampledFrom(c08Neighbours).Draw(t, "neighbour-words")
		c.Place = rapid.SampledFrom(c08Places).Draw(t, "place")
		c.Workers = rapid.IntRange(1, 6).Draw(t, "workers")
		n := rapid.IntRange(1, 30).Draw(t, "nops")
		for i := 0; i < n; i++ {
			c.Ops = append(c.Ops, c08Op{
				W:    rapid.IntRange(0, c.Workers-1).Draw(t, "w"),
				Kind: rapid.SampledFrom([]string{"acquire", "acquire", "try", "try", "release", "release", "release"}).Draw(t, "kind"),
			})
		}
		fail, blocked := c08Run(c)
		labels := []string{fmt.Sprintf("seq-workers=%d", c.Workers)}
		if c.Place != "" {
			labels = append(labels, "lock-address-"+c.Place)
		}
		if blocked > 0 {
			labels = append(labels, "seq-acquire-issued-while-held")
		}
		if blocked > 1 {
			labels = append(labels, "seq-several-waiters")
		}
		st.Case(c, blocked > 0, labels...)
		vlib.Report(t, "C08", c, fail)
	})
}

func TestVerifC08Replay(t *testing.T) {
	var c c08Case
	ok, err := vlib.LoadReplay(&c)
	if !ok {
		t.Skip("no replay requested")
	}
	if err != nil {
		t.Fatalf("VERIF-HARNESS cannot load replay: %v", err)
	}
	fail, _ := c08Run(c)
	vlib.Report(t, "C08", c, fail)
}

// ---------------------------------------------------------------------------
// (2) free-running stress

type c08Prog struct {
	Iters  int `json:"iters"`
	CSLen  int `json:"cslen"`  // busy work inside the critical section
	Gap    int `json:"gap"`    // busy work outside
	TryPct int `json:"trypct"` // percentage of try-acquires
}

type c08Stress struct {
	Progs []c08Prog `json:"progs"`
	Nb    uint32    `json:"nb,omitempty"` // value of the words next to the lock word
	Place string    `json:"place,omitempty"` // address class of the lock (c08Places)
	Locks int       `json:"locks,omitempty"` // number of independent locks contended at the same time (0 = 1)
	// Age: every lock has been taken and released that many times by one task before the
	// workers start (a lock that has been in use for a while)
	Age int `json:"age,omitempty"`
	// Waited: the Age acquisitions were blocking acquires that found the lock taken; the holder
	// released it while the acquiring task was yielding (what a cooperative scheduler does on
	// one CPU), so every one of them had to wait its turn.
	Waited bool `json:"waited,omitempty"`
}

// ageing with waiting: the lock is held, Acquire is called, and the yield function - the point at
// which the kernel would run other tasks - releases the lock on behalf of its holder. A plain
// function on globals: the lock's assembly calls the yield function without a closure context.
var (
	c08AgeLock   *Spinlock
	c08AgeYields int
	c08AgeStuck  chan struct{}
	c08AgeCount  int64
)

const c08AgeMaxYields = 200000

func c08AgeYield() {
	c08AgeYields++
	c08AgeLock.Release()
	if c08AgeYields == c08AgeMaxYields {
		close(c08AgeStuck)
		select {} // this Acquire will not return; the goroutine is abandoned with its lock
	}
	if c08AgeYields > 1 {
		runtime.Gosched()
	}
}

// c08AgeWaited performs n blocking acquisitions of a held lock, each let in by a release during
// the yield. No clock is involved: an acquisition that has yielded c08AgeMaxYields times with the
// lock free each time is one that does not return.
func c08AgeWaited(l *Spinlock, n int) *vlib.Failure {
	old := yieldFn
	defer func() { yieldFn = old }()
	c08AgeLock, c08AgeStuck = l, make(chan struct{})
	yieldFn = c08AgeYield
	done := make(chan *vlib.Failure, 1)
	go func() {
		for i := 0; i < n; i++ {
			if !l.TryToAcquire() {
				done <- vlib.Failf("single task, acquisition %d of a lock nobody holds: TryToAcquire failed", 2*i)
				return
			}
			c08AgeYields = 0
			atomic.StoreInt64(&c08AgeCount, int64(i))
			l.Acquire()
			l.Release()
		}
		done <- nil
	}()
	select {
	case f := <-done:
		return f
	case <-c08AgeStuck:
		return vlib.Failf("a lock that has been waited for %d times: the next blocking Acquire of the held lock does not return although the holder released it (the acquiring task yielded %d times and found the lock free each time; TryToAcquire by another task: %v)", atomic.LoadInt64(&c08AgeCount), c08AgeMaxYields, l.TryToAcquire())
	}
}

type c08Record struct{ a, b, c, d uint64 }

var c08Sink uint64

func c08Spin(n int) {
	x := uint64(n)
	for i := 0; i < n; i++ {
		x = x*6364136223846793005 + 1442695040888963407
	}
	atomic.AddUint64(&c08Sink, x&1)
}

// c08Domain is one lock with the data it protects.
type c08Domain struct {
	box      *c08Box
	l        *Spinlock
	holders  int32
	counter  int // protected, non-atomic
	rec      c08Record
	success  int64
}

func c08RunStress(c c08Stress) (fail *vlib.Failure, contention int64) {
	old := yieldFn
	yieldFn = runtime.Gosched
	defer func() { yieldFn = old }()

	nlocks := c.Locks
	if nlocks < 1 {
		nlocks = 1
	}
	doms := make([]*c08Domain, nlocks)
	for k := range doms {
		place := c.Place
		if k > 0 {
			place = "" // further locks live on the heap
		}
		box := c08NewBox(c.Nb, place)
		defer box.free()
		doms[k] = &c08Domain{box: box, l: box.l}
		if c.Waited {
			if f := c08AgeWaited(box.l, c.Age); f != nil {
				return f, 0
			}
			continue
		}
		for i := 0; i < c.Age; i++ {
			if i%5 == 4 {
				if !box.l.TryToAcquire() {
					return vlib.Failf("single task, acquisition %d of a lock nobody else uses: TryToAcquire failed", i), 0
				}
			} else {
				box.l.Acquire()
			}
			box.l.Release()
		}
	}
	var (
		overlaps int64
		torn     int64
		tryFail  int64
		sawHeld  int64
		progress int64
		wg       gosync.WaitGroup
		start    = make(chan struct{})
	)
	for w, p := range c.Progs {
		wg.Add(1)
		go func(w int, p c08Prog) {
			defer wg.Done()
			<-start
			d := doms[w%nlocks] // worker w uses lock w mod nlocks, and only that one
			l := d.l
			var mySuccess int64
			for i := 0; i < p.Iters; i++ {
				if (i*37+w*11)%100 < p.TryPct {
					if !l.TryToAcquire() {
						atomic.AddInt64(&tryFail, 1)
						atomic.AddInt64(&progress, 1)
						c08Spin(p.Gap)
						continue
					}
				} else {
					if atomic.LoadUint32(&l.state) != 0 {
						atomic.AddInt64(&sawHeld, 1)
					}
					l.Acquire()
				}
				// ---- critical section
				if atomic.AddInt32(&d.holders, 1) != 1 {
					atomic.AddInt64(&overlaps, 1)
				}
				if d.rec.a != d.rec.b || d.rec.b != d.rec.c || d.rec.c != d.rec.d {
					atomic.AddInt64(&torn, 1)
				}
				v := uint64(w)<<32 | uint64(i)
				d.rec.a = v
				c08Spin(p.CSLen)
				d.rec.b = v
				d.counter++
				d.rec.c = v
				d.rec.d = v
				mySuccess++
				atomic.AddInt64(&progress, 1)
				atomic.AddInt32(&d.holders, -1)
				// ---- end
				l.Release()
				c08Spin(p.Gap)
			}
			atomic.AddInt64(&d.success, mySuccess)
		}(w, p)
	}
	finished := make(chan struct{})
	go func() { wg.Wait(); close(finished) }()
	close(start)
	// progress watchdog: every critical section ends with a Release, so some
	// worker must keep completing critical sections; c08Patience without a
	// single one means blocked acquires.
	stall, lastSeen := vlib.StartPatience(c08Patience), int64(-1)
watch:
	for {
		select {
		case <-finished:
			break watch
		case <-time.After(20 * time.Millisecond):
		}
		if p := atomic.LoadInt64(&progress); p != lastSeen {
			lastSeen = p
			stall.Reset()
			continue
		}
		if stall.Expired() {
			// let the goroutines out before reporting
			f := vlib.Failf("stress run on %d lock(s) made no progress for %v (acquires blocked although every lock is released after every critical section)", nlocks, c08Patience)
			giveUp := vlib.StartPatience(c08Patience)
			for {
				for _, d := range doms {
					atomic.StoreUint32(&d.l.state, 0)
				}
				select {
				case <-finished:
					return f, 0
				case <-time.After(100 * time.Microsecond):
				}
				if giveUp.Expired() {
					vlib.Die("C08", c, f)
				}
			}
		}
	}
	contention = tryFail + sawHeld
	switch {
	case overlaps != 0:
		return vlib.Failf("mutual exclusion violated: %d critical sections overlapped (%d lock(s), each protecting its own data)", overlaps, nlocks), contention
	case torn != 0:
		return vlib.Failf("protected record seen in a torn state %d times", torn), contention
	}
	for k, d := range doms {
		switch {
		case int64(d.counter) != d.success:
			return vlib.Failf("lock %d of %d: protected counter is %d after %d critical sections (lost updates)", k, nlocks, d.counter, d.success), contention
		case !d.l.TryToAcquire():
			return vlib.Failf("lock %d of %d still taken after every holder released it (a try-acquire fails)", k, nlocks), contention
		}
		d.l.Release()
		if f := d.box.intact(c.Nb); f != nil {
			return f, contention
		}
	}
	return nil, contention
}

func TestVerifC08Stress(t *testing.T) {
	st := vlib.For("C08")
	defer vlib.Flush()
	rapid.Check(t, func(t *rapid.T) {
		var c c08Stress
		c.Nb = rapid.SampledFrom(c08Neighbours).Draw(t, "neighbour-words")
		c.Place = rapid.SampledFrom(c08Places).Draw(t, "place")
		n := rapid.IntRange(2, 16).Draw(t, "workers")
		c.Locks = rapid.SampledFrom([]int{1, 1, 2, 2, 3}).Draw(t, "locks")
		if rapid.IntRange(0, 7).Draw(t, "aged") == 0 {
			c.Age = rapid.SampledFrom([]int{250, 65400, 65530, 65536, 131000}).Draw(t, "age")
			c.Waited = rapid.Bool().Draw(t, "waited")
		}
		for i := 0; i < n; i++ {
			c.Progs = append(c.Progs, c08Prog{
				Iters:  rapid.IntRange(50, vlib.Scale(2000, 20000)).Draw(t, "iters"),
				CSLen:  rapid.SampledFrom([]int{0, 5, 50, 200, 1000}).Draw(t, "cslen"),
				Gap:    rapid.SampledFrom([]int{0, 0, 10, 100}).Draw(t, "gap"),
				TryPct: rapid.SampledFrom([]int{0, 10, 50, 100}).Draw(t, "trypct"),
			})
		}
		fail, contention := c08RunStress(c)
		labels := []string{"stress"}
		if c.Locks > 1 {
			labels = append(labels, "stress-several-locks-at-once")
		}
		if c.Age >= 60000 {
			labels = append(labels, "stress-lock-taken-tens-of-thousands-of-times-before")
			if c.Waited {
				labels = append(labels, "stress-lock-waited-for-tens-of-thousands-of-times-before")
			}
		}
		if contention > 0 {
			labels = append(labels, "stress-contended")
		} else {
			labels = append(labels, "stress-uncontended")
		}
		st.Add("stress_contention_events", contention)
		st.Case(c, contention > 0, labels...)
		vlib.Report(t, "C08", c, fail)
	})
}

func TestVerifC08StressReplay(t *testing.T) {
	var c c08Stress
	ok, err := vlib.LoadReplay(&c)
	if !ok {
		t.Skip("no replay requested")
	}
	if err != nil {
		t.Fatalf("VERIF-HARNESS cannot load replay: %v", err)
	}
	// a schedule-dependent failure may need several attempts
	for i := 0; i < 20; i++ {
		if fail, _ := c08RunStress(c); fail != nil {
			vlib.Report(t, "C08", c, fail)
		}
	}
}
