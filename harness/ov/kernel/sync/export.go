//go:build verif

package sync

import "sync/atomic"

// VerifSetYieldFn installs a yield function (export shim for harnesses in other
// packages; only compiled with the verif tag through the overlay).
func VerifSetYieldFn(f func()) func() {
	old := yieldFn
	yieldFn = f
	return old
}

// VerifState returns the raw lock word.
func (l *Spinlock) VerifState() uint32 { return atomic.LoadUint32(&l.state) }
