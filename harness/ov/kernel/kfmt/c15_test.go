//go:build verif && go1.21

package kfmt

// C15 — kernel printf output is exact, bounded and allocation-free.
//
// Oracle: an independent reference formatter written from the statement
// (cross-checked against Go's fmt where both specifications coincide).

import (
	"bytes"
	"errors"
	"fmt"
	"io"
	"math"
	"strconv"
	"strings"
	"testing"

	"github.com/ProjectSerenity/firefly/kernel"
	"verifharness/vlib/early15"
	"pgregory.net/rapid"
	"verifharness/vlib"
)

type c15Arg struct {
	K string `json:"k"`           // kind
	I int64  `json:"i,omitempty"` // signed value
	U uint64 `json:"u,omitempty"` // unsigned value
	S []byte `json:"s,omitempty"` // string / bytes payload
	B bool   `json:"b,omitempty"`
}

type c15Piece struct {
	Lit   []byte `json:"lit,omitempty"` // literal run (no '%')
	Pct   bool   `json:"pct,omitempty"` // "%%"
	Verb  string `json:"verb,omitempty"`
	Width int    `json:"width"` // -1: none
}

type c15Case struct {
	Pieces []c15Piece `json:"pieces"`
	Args   []c15Arg   `json:"args"`
}

type c15Struct struct{ A, B int }

// further dynamic types an argument can have. None of them is a built-in string, integer or
// boolean type, so under every verb they are "wrongly typed". The first group has no sensible
// text form and must produce the marker; for the second (c15LenientKinds: types a formatter could
// reasonably learn to print under %s) only "never panics, never allocates" is checked.
type (
	c15Int      int
	c15Str      string
	c15Stringer struct{ s string }
)

func (s c15Stringer) String() string { return s.s }

var c15OddKinds = []string{"nilptr", "func", "chan", "map", "namedint", "array", "complex", "strptr", "float32", "nilbytes",
	"kerr", "kerrnil", "namedstr", "stringer", "error"}

var c15LenientKinds = map[string]bool{"kerr": true, "kerrnil": true, "namedstr": true, "stringer": true, "error": true}

var (
	c15AString  = "pointed-to"
	c15AnError  = errors.New("an error value")
	c15KErr     = &kernel.Error{Module: "verif", Message: "a kernel error"}
	c15KErrNil  *kernel.Error
	c15NilPtr   *c15Struct
	c15NilFunc  func()
	c15NilChan  chan int
	c15NilMap   map[string]int
	c15NilBytes []byte
)

var c15IntKinds = []string{"int", "int8", "int16", "int32", "int64", "uint", "uint8", "uint16", "uint32", "uint64", "uintptr"}

func c15Bits(k string) (bits int, signed bool) {
	switch k {
	case "int", "int64":
		return 64, true
	case "int8":
		return 8, true
	case "int16":
		return 16, true
	case "int32":
		return 32, true
	case "uint", "uint64", "uintptr":
		return 64, false
	case "uint8":
		return 8, false
	case "uint16":
		return 16, false
	case "uint32":
		return 32, false
	}
	return 0, false
}

func (a c15Arg) box() interface{} {
	switch a.K {
	case "int":
		return int(a.I)
	case "int8":
		return int8(a.I)
	case "int16":
		return int16(a.I)
	case "int32":
		return int32(a.I)
	case "int64":
		return a.I
	case "uint":
		return uint(a.U)
	case "uint8":
		return uint8(a.U)
	case "uint16":
		return uint16(a.U)
	case "uint32":
		return uint32(a.U)
	case "uint64":
		return a.U
	case "uintptr":
		return uintptr(a.U)
	case "string":
		return string(a.S)
	case "bytes":
		if a.S == nil {
			return []byte{}
		}
		return a.S
	case "bool":
		return a.B
	case "nil":
		return nil
	case "float":
		return float64(a.I) + 0.5
	case "struct":
		return c15Struct{int(a.I), 2}
	case "ptr":
		return &c15Struct{int(a.I), 3}
	case "nilptr":
		return c15NilPtr
	case "func":
		return c15NilFunc
	case "chan":
		return c15NilChan
	case "map":
		return c15NilMap
	case "namedint":
		return c15Int(a.I)
	case "array":
		return [2]byte{byte(a.I), 1}
	case "complex":
		return complex(float64(a.I), 1)
	case "strptr":
		return &c15AString
	case "float32":
		return float32(a.I) + 0.25
	case "nilbytes":
		return c15NilBytes
	case "kerr":
		return c15KErr
	case "kerrnil":
		return c15KErrNil
	case "namedstr":
		return c15Str("named")
	case "stringer":
		return c15Stringer{"stringer"}
	case "error":
		return c15AnError
	}
	panic("bad kind " + a.K)
}

func (a c15Arg) isInt() bool { b, _ := c15Bits(a.K); return b != 0 }

// normalise clamps the stored value into the range of its kind so that the
// JSON case and the boxed value agree.
func (a c15Arg) normalise() c15Arg {
	bits, signed := c15Bits(a.K)
	if bits == 0 {
		return a
	}
	if signed {
		switch bits {
		case 8:
			a.I = int64(int8(a.I))
		case 16:
			a.I = int64(int16(a.I))
		case 32:
			a.I = int64(int32(a.I))
		}
		a.U = 0
	} else {
		switch bits {
		case 8:
			a.U = uint64(uint8(a.U))
		case 16:
			a.U = uint64(uint16(a.U))
		case 32:
			a.U = uint64(uint32(a.U))
		}
		a.I = 0
	}
	return a
}

func (a c15Arg) boundary() bool {
	bits, signed := c15Bits(a.K)
	if bits == 0 {
		return false
	}
	if signed {
		min := int64(-1) << uint(bits-1)
		max := -(min + 1)
		return a.I == min || a.I == max || a.I == min+1 || a.I == max-1 || a.I == 0 || a.I == 1 || a.I == -1
	}
	max := uint64(math.MaxUint64)
	if bits < 64 {
		max = uint64(1)<<uint(bits) - 1
	}
	return a.U == 0 || a.U == 1 || a.U == max || a.U == max-1
}

// ---------------------------------------------------------------------------
// reference formatter

const (
	c15Missing = "(MISSING)"
	c15Wrong   = "%!(WRONGTYPE)"
	c15Extra   = "%!(EXTRA)"
)

// seg is one output segment with its acceptable renderings.
type c15Seg []string

func c15Pad(s string, width int, ch byte) string {
	if len(s) >= width {
		return s
	}
	return strings.Repeat(string(ch), width-len(s)) + s
}

func c15RefInt(a c15Arg, base int, width int) c15Seg {
	_, signed := c15Bits(a.K)
	var mag uint64
	neg := false
	if signed {
		if a.I < 0 {
			neg = true
			mag = uint64(-(a.I + 1)) + 1
		} else {
			mag = uint64(a.I)
		}
	} else {
		mag = a.U
	}
	digits := strconv.FormatUint(mag, base)
	if width > 31 {
		width = 31
	}
	if width < 0 {
		width = 0
	}
	if base == 10 {
		if neg {
			digits = "-" + digits
		}
		return c15Seg{c15Pad(digits, width, ' ')}
	}
	if !neg {
		return c15Seg{c15Pad(digits, width, '0')}
	}
	// negative, base 8/16: the statement does not fix whether the sign counts
	// towards the width; accept both readings.
	a1 := "-" + c15Pad(digits, width, '0')
	a2 := "-" + c15Pad(digits, width-1, '0')
	if a1 == a2 {
		return c15Seg{a1}
	}
	return c15Seg{a1, a2}
}

func c15Reference(c c15Case) (segs []c15Seg, format string) {
	var fb strings.Builder
	next := 0
	for _, p := range c.Pieces {
		switch {
		case p.Pct:
			fb.WriteString("%%")
			segs = append(segs, c15Seg{"%"})
		case p.Verb != "":
			fb.WriteByte('%')
			if p.Width >= 0 {
				fb.WriteString(strconv.Itoa(p.Width))
			}
			fb.WriteString(p.Verb)
			if next >= len(c.Args) {
				segs = append(segs, c15Seg{c15Missing})
				continue
			}
			a := c.Args[next]
			next++
			switch p.Verb {
			case "d", "o", "x":
				if !a.isInt() {
					segs = append(segs, c15Seg{c15Wrong})
					continue
				}
				base := map[string]int{"d": 10, "o": 8, "x": 16}[p.Verb]
				segs = append(segs, c15RefInt(a, base, p.Width))
			case "s":
				if a.K == "nilbytes" {
					segs = append(segs, c15Seg{c15Pad("", p.Width, ' ')}) // a nil byte slice is an empty byte slice
					continue
				}
				if a.K != "string" && a.K != "bytes" {
					segs = append(segs, c15Seg{c15Wrong})
					continue
				}
				segs = append(segs, c15Seg{c15Pad(string(a.S), p.Width, ' ')})
			case "t":
				if a.K != "bool" {
					segs = append(segs, c15Seg{c15Wrong})
					continue
				}
				s := "false"
				if a.B {
					s = "true"
				}
				// the statement does not say that booleans honour the width
				if p.Width > len(s) {
					segs = append(segs, c15Seg{s, c15Pad(s, p.Width, ' ')})
				} else {
					segs = append(segs, c15Seg{s})
				}
			}
		default:
			fb.Write(p.Lit)
			segs = append(segs, c15Seg{string(p.Lit)})
		}
	}
	for ; next < len(c.Args); next++ {
		segs = append(segs, c15Seg{c15Extra})
	}
	return segs, fb.String()
}

// c15Match reports whether out is a concatenation of one alternative per
// segment.
func c15Match(out string, segs []c15Seg) bool {
	if len(segs) == 0 {
		return out == ""
	}
	for _, alt := range segs[0] {
		if strings.HasPrefix(out, alt) && c15Match(out[len(alt):], segs[1:]) {
			return true
		}
	}
	return false
}

func c15First(segs []c15Seg) string {
	var b strings.Builder
	for _, s := range segs {
		b.WriteString(s[0])
	}
	return b.String()
}

// c15CrossCheck compares the reference with Go's fmt on the sub-domain where
// both specifications coincide. A disagreement is a harness error.
func c15CrossCheck(c c15Case) error {
	for _, p := range c.Pieces {
		if p.Verb == "" {
			continue
		}
		if p.Width > 31 && p.Verb != "s" {
			return nil
		}
	}
	verbs := 0
	var gf strings.Builder
	next := 0
	for _, p := range c.Pieces {
		switch {
		case p.Pct:
			gf.WriteString("%%")
		case p.Verb != "":
			verbs++
			if next >= len(c.Args) {
				return nil // marker syntax differs from fmt
			}
			a := c.Args[next]
			next++
			switch p.Verb {
			case "d", "o", "x":
				if !a.isInt() {
					return nil
				}
				if _, signed := c15Bits(a.K); signed && a.I < 0 && p.Verb != "d" {
					return nil
				}
				gf.WriteByte('%')
				if p.Verb != "d" && p.Width >= 0 {
					gf.WriteByte('0')
				}
			case "s":
				if a.K != "string" && a.K != "bytes" {
					return nil
				}
				for _, b := range a.S {
					if b >= 0x80 {
						return nil // fmt pads by rune count, the kernel by byte count
					}
				}
				gf.WriteByte('%')
			case "t":
				if a.K != "bool" || p.Width >= 0 {
					return nil
				}
				gf.WriteByte('%')
			}
			if p.Width > 0 {
				gf.WriteString(strconv.Itoa(p.Width))
			}
			gf.WriteString(p.Verb)
		default:
			gf.WriteString(strings.ReplaceAll(string(p.Lit), "%", "%%"))
		}
	}
	if next < len(c.Args) {
		return nil
	}
	boxed := make([]interface{}, len(c.Args))
	for i, a := range c.Args {
		boxed[i] = a.box()
	}
	segs, _ := c15Reference(c)
	want := fmt.Sprintf(gf.String(), boxed...)
	if got := c15First(segs); got != want {
		return fmt.Errorf("reference %q != fmt %q for go-format %q", got, want, gf.String())
	}
	return nil
}

// ---------------------------------------------------------------------------
// non-allocating recording writer

type c15Writer struct {
	buf    []byte
	n      int
	writes int
}

func (w *c15Writer) Write(p []byte) (int, error) {
	w.writes++
	if w.n+len(p) <= len(w.buf) {
		copy(w.buf[w.n:], p)
	}
	w.n += len(p)
	return len(p), nil
}

var c15Rec = &c15Writer{buf: make([]byte, 8<<20)}
var c15RecW io.Writer = c15Rec

// ---------------------------------------------------------------------------
// run

func c15Run(c c15Case) *vlib.Failure {
	defer vlib.Guard("C15", c, nil)()
	for i := range c.Args {
		c.Args[i] = c.Args[i].normalise()
	}
	segs, format := c15Reference(c)
	boxed := make([]interface{}, len(c.Args))
	for i, a := range c.Args {
		boxed[i] = a.box()
	}
	outputSink = nil
	c15Rec.n, c15Rec.writes = 0, 0
	if pc := vlib.Catch(func() { Fprintf(c15RecW, format, boxed...) }); pc.Panicked {
		return vlib.Failf("Fprintf(%q) panicked: %v", format, pc)
	}
	if c15Rec.n > len(c15Rec.buf) {
		return vlib.Failf("Fprintf(%q): output of %d bytes exceeds every bound", format, c15Rec.n)
	}
	out := string(c15Rec.buf[:c15Rec.n])
	lenient := false
	for _, a := range c.Args {
		lenient = lenient || c15LenientKinds[a.K]
	}
	if !lenient && !c15Match(out, segs) {
		return vlib.Failf("Fprintf(%q, %v): got %q, reference %q", format, c15Describe(c.Args), clip(out), clip(c15First(segs)))
	}

	// allocation freedom (pre-boxed arguments, non-allocating writer)
	allocs := testing.AllocsPerRun(2, func() {
		c15Rec.n = 0
		Fprintf(c15RecW, format, boxed...)
	})
	if allocs != 0 {
		return vlib.Failf("Fprintf(%q, %v) allocates: %v allocs/run", format, c15Describe(c.Args), allocs)
	}
	// Printf into the early ring buffer (sink == nil)
	allocs = testing.AllocsPerRun(2, func() {
		Printf(format, boxed...)
	})
	if allocs != 0 {
		return vlib.Failf("Printf(%q, %v) into the early buffer allocates: %v allocs/run", format, c15Describe(c.Args), allocs)
	}
	earlyPrintBuffer.rIndex, earlyPrintBuffer.wIndex = 0, 0
	// What Printf leaves in the early buffer is what the formatter wrote: all of it, or its
	// last capacity-1 bytes (oldest dropped first, C16). The buffer starts empty at an offset
	// derived from the case so that writes wrap at different places.
	at := (len(format)*131 + len(out)*17 + len(c.Args)) & (ringBufferSize - 1)
	earlyPrintBuffer.rIndex, earlyPrintBuffer.wIndex = at, at
	outputSink = nil
	Printf(format, boxed...)
	c15Rec.n, c15Rec.writes = 0, 0
	SetOutputSink(c15RecW)
	outputSink = nil
	early := string(c15Rec.buf[:c15Rec.n])
	earlyPrintBuffer.rIndex, earlyPrintBuffer.wIndex = 0, 0
	want := out
	if len(want) > ringBufferSize-1 {
		want = want[len(want)-(ringBufferSize-1):]
	}
	if early != want {
		return vlib.Failf("Printf(%q, %v) with no sink installed (early buffer empty at offset %d): the buffer held %d bytes %q, the formatter writes %d bytes of which the last %d are %q",
			format, c15Describe(c.Args), at, len(early), clip(early), len(out), len(want), clip(want))
	}
	return c15CallSites(c)
}

// c15CallSites measures what the kernel's own call sites do: fresh, run-time
// values passed straight to the variadic parameter. "No heap allocation, so it
// is usable before the allocator exists" includes the conversion of those
// values to interface{}: it stays on the caller's stack as long as the
// formatter does not let its arguments escape. The values are taken from the
// case (never constants, never below 256, so that the runtime cannot box them
// statically); the shapes are fixed because every call site is its own piece
// of compiled code.
func c15CallSites(c c15Case) *vlib.Failure {
	var (
		u64 = uint64(0x1234567)
		i32 = int32(-70000)
		str = "run-time string "
		raw []byte
	)
	for _, a := range c.Args {
		switch {
		case a.U > 255:
			u64 = a.U
		case a.I < -255 && a.I >= -1<<31:
			i32 = int32(a.I)
		case len(a.S) > 0:
			str = string(a.S)
		}
	}
	for _, p := range c.Pieces {
		if len(p.Lit) > 0 {
			raw = p.Lit
		}
	}
	if len(raw) == 0 {
		raw = []byte(str)
	}
	u64 |= 0x100
	ptr, i64, u16 := uintptr(u64), -int64(u64>>1)-300, uint16(u64)|0x100
	w := c15RecW
	sites := []struct {
		name string
		call func()
	}{
		{`Fprintf(w, "%d", uint64)`, func() { Fprintf(w, "%d", u64) }},
		{`Fprintf(w, "%x %s", uintptr, string)`, func() { Fprintf(w, "%x %s", ptr, str) }},
		{`Fprintf(w, "%6d|%s", int32, []byte)`, func() { Fprintf(w, "%6d|%s", i32, raw) }},
		{`Fprintf(w, "%o %d %t", int64, uint16, bool)`, func() { Fprintf(w, "%o %d %t", i64, u16, u64&1 == 0) }},
		{`Fprintf(w, "%s", uint64) (wrong type)`, func() { Fprintf(w, "%s", u64) }},
		{`Fprintf(w, "literal", string) (surplus argument)`, func() { Fprintf(w, "literal", str) }},
		{`Printf("%d %s", int64, string) into the early buffer`, func() { Printf("%d %s", i64, str) }},
		// arguments that live in the caller's frame, as the kernel passes them: a table signature
		// (a slice of a local array), a short conversion, a string over local bytes
		{`Fprintf(w, "%s", sig[:]) with sig a local [4]byte`, func() {
			var sig [4]byte
			for i := range sig {
				sig[i] = 'A' + byte(u64>>(8*uint(i)))%26
			}
			Fprintf(w, "%s", sig[:])
		}},
		{`Fprintf(w, "[%s] %d", string(local[:n]), uint64)`, func() {
			var local [8]byte
			n := 1 + int(u64%8)
			for i := 0; i < n; i++ {
				local[i] = 'a' + byte(i)
			}
			Fprintf(w, "[%s] %d", string(local[:n]), u64)
		}},
		{`Fprintf(w, "%8s", []byte(short string))`, func() { Fprintf(w, "%8s", []byte(str[:1+int(u64%uint64(len(str)))%16])) }},
	}
	for _, s := range sites {
		call := s.call
		allocs := testing.AllocsPerRun(2, func() {
			c15Rec.n = 0
			call()
		})
		earlyPrintBuffer.rIndex, earlyPrintBuffer.wIndex = 0, 0
		if allocs != 0 {
			return vlib.Failf("call site %s with run-time values allocates: %v allocs/run (the arguments are forced onto the heap)", s.name, allocs)
		}
	}
	return nil
}

func clip(s string) string {
	if len(s) > 300 {
		return s[:150] + "…" + s[len(s)-150:] + fmt.Sprintf(" (len %d)", len(s))
	}
	return s
}

func c15Describe(args []c15Arg) string {
	var b strings.Builder
	for i, a := range args {
		if i > 0 {
			b.WriteString(", ")
		}
		switch {
		case a.isInt():
			if _, s := c15Bits(a.K); s {
				fmt.Fprintf(&b, "%s(%d)", a.K, a.I)
			} else {
				fmt.Fprintf(&b, "%s(%d)", a.K, a.U)
			}
		case a.K == "string" || a.K == "bytes":
			fmt.Fprintf(&b, "%s(len %d)", a.K, len(a.S))
		default:
			fmt.Fprintf(&b, "%s", a.K)
		}
	}
	return b.String()
}

func c15Classify(c c15Case) (nontrivial bool, labels []string) {
	verbs, widths := 0, 0
	next := 0
	special := false
	for _, p := range c.Pieces {
		if p.Verb == "" {
			continue
		}
		verbs++
		if p.Width >= 0 {
			widths++
		}
		if p.Width > 31 {
			labels = append(labels, "width>31")
		}
		if next >= len(c.Args) {
			special = true
			labels = append(labels, "missing-arg")
			continue
		}
		a := c.Args[next].normalise()
		next++
		labels = append(labels, "verb-"+p.Verb+"/"+a.K)
		if a.boundary() {
			special = true
			labels = append(labels, "boundary-int")
		}
		okType := (strings.Contains("dox", p.Verb) && a.isInt()) || (p.Verb == "s" && (a.K == "string" || a.K == "bytes")) || (p.Verb == "t" && a.K == "bool")
		if !okType {
			special = true
			labels = append(labels, "wrong-type")
		}
	}
	if next < len(c.Args) {
		special = true
		labels = append(labels, "extra-arg")
	}
	return verbs >= 2 && widths >= 1 && special, labels
}

// ---------------------------------------------------------------------------
// generators

func c15GenArg(t *rapid.T, wantVerb string) c15Arg {
	// 85%: an argument of the type the verb wants; 15%: anything
	kindPool := []string{}
	switch wantVerb {
	case "d", "o", "x":
		kindPool = c15IntKinds
	case "s":
		kindPool = []string{"string", "bytes"}
	case "t":
		kindPool = []string{"bool"}
	}
	if len(kindPool) == 0 || rapid.IntRange(0, 99).Draw(t, "mismatch") < 15 {
		kindPool = append(append([]string{}, c15IntKinds...), "string", "bytes", "bool", "nil", "float", "struct", "ptr")
		if rapid.IntRange(0, 2).Draw(t, "oddtype") == 0 {
			kindPool = c15OddKinds
		}
	}
	a := c15Arg{K: rapid.SampledFrom(kindPool).Draw(t, "kind")}
	bits, signed := c15Bits(a.K)
	switch {
	case bits != 0 && signed:
		min := int64(-1) << uint(bits-1)
		max := -(min + 1)
		switch rapid.IntRange(0, 9).Draw(t, "ival") {
		case 0:
			a.I = 0
		case 1:
			a.I = 1
		case 2:
			a.I = -1
		case 3:
			a.I = min
		case 4:
			a.I = max
		case 5:
			a.I = min + 1
		case 6:
			a.I = max - 1
		default:
			a.I = rapid.Int64Range(min, max).Draw(t, "i")
		}
	case bits != 0:
		max := uint64(math.MaxUint64)
		if bits < 64 {
			max = uint64(1)<<uint(bits) - 1
		}
		switch rapid.IntRange(0, 7).Draw(t, "uval") {
		case 0:
			a.U = 0
		case 1:
			a.U = 1
		case 2:
			a.U = max
		case 3:
			a.U = max - 1
		default:
			a.U = rapid.Uint64Range(0, max).Draw(t, "u")
		}
	case a.K == "string" || a.K == "bytes":
		n := rapid.IntRange(0, 40).Draw(t, "slen")
		switch rapid.IntRange(0, 49).Draw(t, "slenclass") {
		case 0:
			n = rapid.IntRange(41, 300).Draw(t, "slen2")
		case 1:
			if vlib.Thorough() {
				n = 100000
			}
		case 2:
			// around the size of the early print buffer and its double
			n = rapid.SampledFrom([]int{2046, 2047, 2048, 2049, 3000, 4095, 4096, 4097, 5000}).Draw(t, "slen3")
		}
		if n <= 300 {
			a.S = rapid.SliceOfN(rapid.Byte(), n, n).Draw(t, "s")
		} else if n <= 5000 {
			// position-dependent contents: a rotated or truncated copy differs
			seed := rapid.Byte().Draw(t, "sseed")
			a.S = make([]byte, n)
			for i := range a.S {
				a.S[i] = byte(i*7+i/251) ^ seed
			}
		} else {
			a.S = bytes.Repeat([]byte{rapid.Byte().Draw(t, "sfill")}, n)
		}
	case a.K == "bool":
		a.B = rapid.Bool().Draw(t, "b")
	default:
		a.I = int64(rapid.IntRange(-5, 5).Draw(t, "misc"))
	}
	return a.normalise()
}

func c15GenWidth(t *rapid.T) int {
	switch rapid.IntRange(0, 19).Draw(t, "wclass") {
	case 0, 1, 2, 3, 4, 5:
		return -1
	case 6:
		return 0
	case 7:
		return rapid.SampledFrom([]int{30, 31, 32, 33, 100}).Draw(t, "wedge")
	case 8:
		if rapid.IntRange(0, 3).Draw(t, "whuge") == 0 {
			return rapid.SampledFrom([]int{1000, 10000, 100000, 1000000}).Draw(t, "wbig")
		}
		return rapid.IntRange(1, 40).Draw(t, "w")
	default:
		return rapid.IntRange(1, 40).Draw(t, "w")
	}
}

func c15GenCase(t *rapid.T) c15Case {
	var c c15Case
	n := rapid.IntRange(0, 8).Draw(t, "npieces")
	var verbs []string
	for i := 0; i < n; i++ {
		switch rapid.IntRange(0, 9).Draw(t, "piece") {
		case 0, 1, 2:
			maxLit := 12
			if rapid.IntRange(0, 5).Draw(t, "longlit") == 0 {
				maxLit = 120 // longer than the 32-byte stack buffer of a non-escaping conversion
			}
			var lit []byte
			if rapid.IntRange(0, 7).Draw(t, "blocklit") == 0 {
				// a run whose length sits on or next to a power-of-two block size (staging buffers),
				// usually followed by "%%" or a verb
				k := rapid.SampledFrom([]int{16, 32, 64, 64, 128, 192, 256, 512}).Draw(t, "litblock") + rapid.IntRange(-1, 1).Draw(t, "litoff")
				seed := rapid.Byte().Draw(t, "litseed")
				lit = make([]byte, k)
				for j := range lit {
					lit[j] = 'a' + byte(j+int(seed))%26
				}
				c.Pieces = append(c.Pieces, c15Piece{Lit: lit, Width: -1})
				if rapid.Bool().Draw(t, "litthenpct") {
					c.Pieces = append(c.Pieces, c15Piece{Pct: true, Width: -1})
				}
				continue
			}
			lit = rapid.SliceOfN(rapid.Byte(), 1, maxLit).Draw(t, "lit")
			for j := range lit {
				if lit[j] == '%' {
					lit[j] = '#'
				}
			}
			c.Pieces = append(c.Pieces, c15Piece{Lit: lit, Width: -1})
		case 3:
			c.Pieces = append(c.Pieces, c15Piece{Pct: true, Width: -1})
		default:
			v := rapid.SampledFrom([]string{"d", "d", "x", "x", "o", "s", "s", "t"}).Draw(t, "verb")
			c.Pieces = append(c.Pieces, c15Piece{Verb: v, Width: c15GenWidth(t)})
			verbs = append(verbs, v)
		}
	}
	// argument list: usually exact, sometimes short or long
	nargs := len(verbs)
	switch rapid.IntRange(0, 9).Draw(t, "argcount") {
	case 0:
		nargs = rapid.IntRange(0, len(verbs)).Draw(t, "short")
	case 1:
		nargs = len(verbs) + rapid.IntRange(1, 3).Draw(t, "long")
	}
	for i := 0; i < nargs; i++ {
		v := ""
		if i < len(verbs) {
			v = verbs[i]
		}
		c.Args = append(c.Args, c15GenArg(t, v))
	}
	return c
}

func TestVerifC15(t *testing.T) {
	st := vlib.For("C15")
	defer vlib.Flush()
	rapid.Check(t, func(t *rapid.T) {
		c := c15GenCase(t)
		if err := c15CrossCheck(c); err != nil {
			t.Fatalf("VERIF-HARNESS C15 reference disagrees with fmt: %v", err)
		}
		nt, labels := c15Classify(c)
		st.Case(c, nt, labels...)
		vlib.Report(t, "C15", c, c15Run(c))
	})
}

func TestVerifC15Replay(t *testing.T) {
	var c c15Case
	ok, err := vlib.LoadReplay(&c)
	if !ok {
		t.Skip("no replay requested")
	}
	if err != nil {
		t.Fatalf("VERIF-HARNESS cannot load replay: %v", err)
	}
	vlib.Report(t, "C15", c, c15Run(c))
}

// ---------------------------------------------------------------------------
// "for any format string and arguments whatsoever it never panics"

type c15Raw struct {
	Format []byte   `json:"format"`
	Args   []c15Arg `json:"args"`
}

func c15RunRaw(c c15Raw) *vlib.Failure {
	defer vlib.Guard("C15", c, nil)()
	boxed := make([]interface{}, len(c.Args))
	for i, a := range c.Args {
		boxed[i] = a.normalise().box()
	}
	format := string(c.Format)
	outputSink = nil
	c15Rec.n = 0
	if pc := vlib.Catch(func() { Fprintf(c15RecW, format, boxed...) }); pc.Panicked {
		return vlib.Failf("Fprintf(%q, %v) panicked: %v", format, c15Describe(c.Args), pc)
	}
	if pc := vlib.Catch(func() { Printf(format, boxed...) }); pc.Panicked {
		return vlib.Failf("Printf(%q, %v) panicked: %v", format, c15Describe(c.Args), pc)
	}
	earlyPrintBuffer.rIndex, earlyPrintBuffer.wIndex = 0, 0
	return nil
}

func TestVerifC15Raw(t *testing.T) {
	st := vlib.For("C15")
	defer vlib.Flush()
	alphabet := []byte("%%%%dxostq0123456789 -+#.*[]vpc\x00\xff")
	rapid.Check(t, func(t *rapid.T) {
		var c c15Raw
		n := rapid.IntRange(0, 24).Draw(t, "n")
		for i := 0; i < n; i++ {
			if rapid.IntRange(0, 9).Draw(t, "any") == 0 {
				c.Format = append(c.Format, rapid.Byte().Draw(t, "b"))
			} else {
				c.Format = append(c.Format, rapid.SampledFrom(alphabet).Draw(t, "a"))
			}
		}
		// keep widths bounded: the padding loop is linear in the width
		for !c15WidthBounded(c.Format) {
			for i, b := range c.Format {
				if b >= '0' && b <= '9' {
					c.Format[i] = 'z' // drop the first digit and re-check
					break
				}
			}
		}
		na := rapid.IntRange(0, 5).Draw(t, "nargs")
		for i := 0; i < na; i++ {
			c.Args = append(c.Args, c15GenArg(t, ""))
		}
		pct := bytes.Count(c.Format, []byte("%"))
		st.Case(c, pct >= 2 && na >= 1, "raw-format")
		vlib.Report(t, "C15", c, c15RunRaw(c))
	})
}

func TestVerifC15RawReplay(t *testing.T) {
	var c c15Raw
	ok, err := vlib.LoadReplay(&c)
	if !ok {
		t.Skip("no replay requested")
	}
	if err != nil {
		t.Fatalf("VERIF-HARNESS cannot load replay: %v", err)
	}
	vlib.Report(t, "C15", c, c15RunRaw(c))
}

// c15WidthBounded reports whether every width the formatter would accumulate
// for this format stays below 10^6. The formatter keeps accumulating digits
// after a '%' across unsupported characters until a verb or '%' ends the
// directive, so digits need not be adjacent. (An enormous width is not a panic,
// just billions of pad bytes; the never-panics checks stay within bounded widths
// so that a slow run is never mistaken for a failure.)
func c15WidthBounded(format []byte) bool {
	for i := 0; i < len(format); i++ {
		if format[i] != '%' {
			continue
		}
		acc := 0
	scan:
		for i++; i < len(format); i++ {
			c := format[i]
			switch {
			case c >= '0' && c <= '9':
				acc = acc*10 + int(c-'0')
				if acc > 1000000 {
					return false
				}
			case c == '%' || c == 'd' || c == 'x' || c == 'o' || c == 's' || c == 't':
				break scan
			}
		}
	}
	return true
}

// FuzzVerifC15 is the coverage-guided variant of the never-panics property
// (thorough tier). data[0] selects an argument list shape.
func FuzzVerifC15(f *testing.F) {
	f.Add([]byte("\x00%d %5x %o %s %t %%"))
	f.Add([]byte("\x03%31d%32d%999999s"))
	f.Add([]byte("\x07%"))
	f.Add([]byte("\x09%5"))
	pool := []interface{}{int(-1), uint8(255), int64(math.MinInt64), uint64(math.MaxUint64), "str", []byte("bytes"), true, nil, 1.5, uintptr(0), int8(-128), uint(7)}
	f.Fuzz(func(t *testing.T, data []byte) {
		if len(data) == 0 {
			return
		}
		sel := int(data[0])
		format := string(data[1:])
		if !c15WidthBounded(data[1:]) {
			return
		}
		var args []interface{}
		for i := 0; i < sel%6; i++ {
			args = append(args, pool[(sel/6+i*5)%len(pool)])
		}
		c15Rec.n = 0
		Fprintf(c15RecW, format, args...)
	})
}

// ---------------------------------------------------------------------------
// "usable before the allocator exists": before the package initialisers have run

// TestVerifC15Early compares what the formatter produced when it was called from an init function
// that runs before package kfmt's own initialiser (package early15) with what the same calls
// produce now. The kernel prints its first messages in exactly that state: goruntime.Init runs the
// package initialisers after pmm and vmm have already logged the memory map.
func TestVerifC15Early(t *testing.T) {
	st := vlib.For("C15")
	defer vlib.Flush()
	if !early15.Ran || len(early15.Probes) < 100 {
		t.Fatalf("VERIF-HARNESS the early probes did not run (%d recorded)", len(early15.Probes))
	}
	type earlyCase struct {
		Format string `json:"format"`
		Args   string `json:"args"`
	}
	for _, p := range early15.Probes {
		c := earlyCase{p.Format, fmt.Sprintf("%#v", p.Args)}
		var fail *vlib.Failure
		outputSink = nil
		c15Rec.n, c15Rec.writes = 0, 0
		pc := vlib.Catch(func() { Fprintf(c15RecW, p.Format, p.Args...) })
		now := string(c15Rec.buf[:c15Rec.n])
		switch {
		case p.Panic != "":
			fail = vlib.Failf("Fprintf(%q, %s) called before the package initialisers have run (as during early boot) panicked: %s; output up to then %q", p.Format, c.Args, p.Panic, p.Out)
		case pc.Panicked:
			fail = vlib.Failf("Fprintf(%q, %s) panicked: %v", p.Format, c.Args, pc)
		case p.Out != now:
			fail = vlib.Failf("Fprintf(%q, %s) wrote %q when called before the package initialisers had run and writes %q now", p.Format, c.Args, p.Out, now)
		}
		st.Case(c, true, "called-before-package-initialisation")
		vlib.Report(t, "C15", c, fail)
	}
	earlyPrintBuffer.rIndex, earlyPrintBuffer.wIndex = 0, 0
}
