//go:build verif && go1.21

package vmm

// Simulated machine for the virtual-memory code (C04, C05, C06, C07).
//
// Physical memory is one memfd-backed arena of host pages; frame number = host
// address >> 12. CR3 is a harness variable. A software MMU (hw) walks the page
// tables the way the hardware does, independently of the kernel's recursive
// walk. The kernel's seams (ptePtrFn, nextAddrFn, activePDTFn, switchPDTFn,
// flushTLBEntryFn, the frame allocator, mapTemporaryFn/unmapFn) are pointed at
// the machine, so the real Map/Unmap/Translate/PageDirectoryTable code runs
// unmodified against it.

import (
	"fmt"
	"sort"
	"syscall"
	"unsafe"

	"github.com/ProjectSerenity/firefly/kernel"
	"github.com/ProjectSerenity/firefly/kernel/cpu"
	"github.com/ProjectSerenity/firefly/kernel/mm"
	"github.com/ProjectSerenity/firefly/kernel/multiboot"
	"pgregory.net/rapid"
)

const (
	vmArenaFrames = 8192
	vmFrameMask   = uintptr(0x000ffffffffff000)
	vmJunk        = 0xA5
	// vmHighBit is the top bit of a physical address (bit 51). The host never hands out
	// addresses with it, so the machine uses it to give some frames a physical name in the
	// upper half of the physical address space: such a frame is host address | vmHighBit, and
	// only that name refers to it (the same address without the bit is not memory at all).
	vmHighBit = uintptr(1) << 51
)

type vmMachine struct {
	fd       int
	arena    []byte
	base     uintptr
	next     int // next unused arena frame
	dirty    int // frames that need re-junking at the next reset
	cr3      uintptr
	lastVirt map[uintptr]uintptr // host pte pointer -> virtual entry address
	flushed  []uintptr
	// flushedLeaf[i]: the last-level entry the MMU would have seen for flushed[i] at the
	// moment of the invalidation (0 when the walk from the active root does not get that far)
	flushedLeaf []uintptr

	allocs  int // allocations in the current operation
	failAt  int // fail the failAt-th allocation of the current operation (0 = never)
	failErr *kernel.Error
	handed  []mm.Frame // frames handed out in the current operation

	tempOut   bool
	tempAlias mm.Page
	tempFail  bool // make the next temporary mapping fail

	aliases [][]byte
	// pageZero: host memory is mapped at address 0 (alias of a frame): virtual page 0 exists
	pageZero bool
	// onTemp runs when the kernel asks for a temporary mapping: the moment the page-fault
	// handler is about to copy a page (see realias)
	onTemp func()

	// hiMask chooses the frames that live in the upper half of the physical address space:
	// arena frame i does when bit i%64 is set
	hiMask uint64
	high   []bool // per arena frame: it has an upper-half name
	// lowNext frames handed out by the allocator seam next get low names regardless of hiMask:
	// the kernel reads the ACTIVE root through its physical address (PageDirectoryTable.Map on
	// an inactive space), which only works for memory the host can address
	lowNext int
	// rootExtra: additional bits (no-execute, software bits, accessed/dirty) on the recursive
	// entry of the boot root, as a boot loader or the CPU may have left them
	rootExtra uintptr
}

var vmErrInjected = &kernel.Error{Module: "verif", Message: "injected frame allocation failure"}
var vmErrTempInjected = &kernel.Error{Module: "verif", Message: "injected temporary mapping failure"}

type vmFault struct{ msg string }

func (f vmFault) String() string { return f.msg }

var vmGlobal *vmMachine

// vmNew returns the (process-wide) machine, reset for a new case.
func vmNew() *vmMachine {
	if vmGlobal == nil {
		name := []byte("verif-phys\x00")
		fd, _, e := syscall.Syscall(319 /* memfd_create */, uintptr(unsafe.Pointer(&name[0])), 0, 0)
		if e != 0 {
			panic("memfd_create: " + e.Error())
		}
		if err := syscall.Ftruncate(int(fd), vmArenaFrames*4096); err != nil {
			panic(err)
		}
		arena, err := syscall.Mmap(int(fd), 0, vmArenaFrames*4096, syscall.PROT_READ|syscall.PROT_WRITE, syscall.MAP_SHARED)
		if err != nil {
			panic(err)
		}
		vmGlobal = &vmMachine{fd: int(fd), arena: arena, base: uintptr(unsafe.Pointer(&arena[0])), dirty: 0}
	}
	m := vmGlobal
	m.reset()
	return m
}

func (m *vmMachine) reset() {
	for _, a := range m.aliases {
		syscall.Munmap(a)
	}
	m.aliases = nil
	if m.pageZero {
		syscall.Syscall(syscall.SYS_MUNMAP, 0, 4096, 0)
		m.pageZero = false
	}
	n := m.dirty
	if m.next > n {
		n = m.next
	}
	junk := m.arena[:n*4096]
	for i := range junk {
		junk[i] = vmJunk
	}
	m.next, m.dirty = 0, 0
	m.cr3 = 0
	m.lastVirt = map[uintptr]uintptr{}
	m.flushed = nil
	m.flushedLeaf = nil
	m.allocs, m.failAt, m.failErr, m.handed = 0, 0, nil, nil
	m.tempOut, m.tempFail = false, false
	m.hiMask, m.rootExtra, m.lowNext = 0, 0, 0
	m.onTemp = nil
	if m.high == nil {
		m.high = make([]bool, vmArenaFrames)
	}
	m.install()
}

// install points every seam at the machine and resets the package globals.
func (m *vmMachine) install() {
	activePDTFn = func() uintptr { return m.cr3 }
	switchPDTFn = func(a uintptr) { m.cr3 = a }
	flushTLBEntryFn = func(a uintptr) {
		m.flushed = append(m.flushed, a)
		leaf := uintptr(0)
		if es, _ := m.hwEntries(m.cr3, a); len(es) == 4 {
			leaf = es[3]
		}
		m.flushedLeaf = append(m.flushedLeaf, leaf)
	}
	ptePtrFn = func(entry uintptr) unsafe.Pointer {
		h, ok := m.hwPtr(entry)
		if !ok {
			panic(vmFault{fmt.Sprintf("simulated page fault in kernel mode: page-table access at virtual address %#x is not mapped", entry)})
		}
		m.lastVirt[h] = entry
		return unsafe.Pointer(h)
	}
	nextAddrFn = func(x uintptr) uintptr {
		hostPte := x >> 9
		virt, ok := m.lastVirt[hostPte]
		if !ok {
			// not "pointer of the entry << 9" (what the shipped Map passes, the pointer being a host
			// pointer under this seam): then the address of the new table itself, in the recursive
			// window - on real hardware, where the entry pointer is the entry address, the two are
			// the same number
			if h, ok := m.hwPtr(x); ok {
				return h
			}
			panic(vmFault{"harness: nextAddrFn called for an entry that was not produced by the walk"})
		}
		// what the kernel computes on real hardware: entry address << 9
		h, ok := m.hwPtr(virt << 9)
		if !ok {
			panic(vmFault{fmt.Sprintf("simulated page fault in kernel mode: clearing the new table at virtual address %#x which is not mapped", virt<<9)})
		}
		return h
	}
	mm.SetFrameAllocator(func() (mm.Frame, *kernel.Error) {
		m.allocs++
		if m.failAt != 0 && m.allocs == m.failAt {
			m.failErr = vmErrInjected
			return mm.InvalidFrame, vmErrInjected
		}
		var f mm.Frame
		if m.lowNext > 0 {
			m.lowNext--
			f = m.newLowFrame()
		} else {
			f = m.newFrame()
		}
		m.handed = append(m.handed, f)
		return f, nil
	})
	mapTemporaryFn = func(f mm.Frame) (mm.Page, *kernel.Error) {
		if m.onTemp != nil {
			m.onTemp()
		}
		if m.tempFail {
			m.tempFail = false
			return 0, vmErrTempInjected
		}
		if _, err := MapTemporary(f); err != nil {
			return 0, err
		}
		if !m.inArena(f.Address()) {
			panic(vmFault{fmt.Sprintf("harness: temporary mapping of frame %#x which is not simulated physical memory", uintptr(f))})
		}
		// callers access the frame through the returned page; hand out the host
		// alias of the frame and remember exactly this one value
		m.tempOut, m.tempAlias = true, mm.Page(m.ptr(f.Address())>>12)
		return m.tempAlias, nil
	}
	unmapFn = func(p mm.Page) *kernel.Error {
		if m.tempOut && p == m.tempAlias {
			m.tempOut = false
			return Unmap(mm.PageFromAddress(tempMappingAddr))
		}
		return Unmap(p)
	}
	mapFn = vmShipped.mapFn
	translateFn = vmShipped.translateFn
	earlyReserveRegionFn = vmShipped.earlyReserveRegionFn
	visitElfSectionsFn = vmShipped.visitElfSectionsFn
	earlyReserveLastUsed = tempMappingAddr
	protectReservedZeroedPage = false
	ReservedZeroedFrame = 0
	kernelPDT = PageDirectoryTable{}
}

// vmShipped holds the seams as the package ships them, captured before any test touches them: which
// function a seam points at by default is the package's business (the harness must not "restore" a
// seam to a function it merely guesses to be the default).
var vmShipped = struct {
	mapFn                func(mm.Page, mm.Frame, PageTableEntryFlag) *kernel.Error
	unmapFn              func(mm.Page) *kernel.Error
	mapTemporaryFn       func(mm.Frame) (mm.Page, *kernel.Error)
	translateFn          func(uintptr) (uintptr, *kernel.Error)
	earlyReserveRegionFn func(uintptr) (uintptr, *kernel.Error)
	visitElfSectionsFn   func(multiboot.ElfSectionVisitor)
}{mapFn, unmapFn, mapTemporaryFn, translateFn, earlyReserveRegionFn, visitElfSectionsFn}

// vmRestore puts the production functions back (end of a test function).
func vmRestore() {
	activePDTFn = cpu.ActivePDT
	switchPDTFn = cpu.SwitchPDT
	flushTLBEntryFn = cpu.FlushTLBEntry
	ptePtrFn = func(entryAddr uintptr) unsafe.Pointer { return unsafe.Pointer(entryAddr) }
	nextAddrFn = func(entryAddr uintptr) uintptr { return entryAddr }
	mapTemporaryFn = vmShipped.mapTemporaryFn
	unmapFn = vmShipped.unmapFn
	mapFn = vmShipped.mapFn
	translateFn = vmShipped.translateFn
	earlyReserveRegionFn = vmShipped.earlyReserveRegionFn
	visitElfSectionsFn = vmShipped.visitElfSectionsFn
	readCR2Fn = cpu.ReadCR2
	earlyReserveLastUsed = tempMappingAddr
	protectReservedZeroedPage = false
	mm.SetFrameAllocator(nil)
}

// inArena reports whether the physical address names simulated physical memory.
func (m *vmMachine) inArena(addr uintptr) bool {
	h := addr &^ vmHighBit
	if h < m.base || h >= m.base+uintptr(m.next)*4096 {
		return false
	}
	return m.high[(h-m.base)>>12] == (addr&vmHighBit != 0)
}

func (m *vmMachine) isHigh(idx int) bool { return m.high[idx] }

// ptr is the host address behind a physical address.
func (m *vmMachine) ptr(addr uintptr) uintptr { return addr &^ vmHighBit }

// newFrame takes the next junk-filled frame of the arena.
func (m *vmMachine) newFrame() mm.Frame {
	return m.newFrameNamed(m.hiMask>>(uint(m.next)%64)&1 == 1)
}

// newLowFrame: a frame that may become the root of the active address space.
func (m *vmMachine) newLowFrame() mm.Frame { return m.newFrameNamed(false) }

func (m *vmMachine) newFrameNamed(high bool) mm.Frame {
	if m.next >= vmArenaFrames {
		panic(vmFault{"harness: physical arena exhausted"})
	}
	a := m.base + uintptr(m.next)*4096
	m.high[m.next] = high
	if high {
		a |= vmHighBit
	}
	m.next++
	return mm.Frame(a >> 12)
}

func (m *vmMachine) frameBytes(f mm.Frame) []byte {
	off := m.ptr(f.Address()) - m.base
	return m.arena[off : off+4096]
}

// alias maps another read-only view of an arena frame: a "virtual page" whose
// contents are, by construction, the contents of the frame.
func (m *vmMachine) alias(f mm.Frame) uintptr {
	b, err := syscall.Mmap(m.fd, int64(m.ptr(f.Address())-m.base), 4096, syscall.PROT_READ, syscall.MAP_SHARED)
	if err != nil {
		panic(vmFault{"harness: alias mmap: " + err.Error()})
	}
	m.aliases = append(m.aliases, b)
	return uintptr(unsafe.Pointer(&b[0]))
}

// aliasAtZero maps a read-only view of frame f at address 0, so that virtual page 0 - a legal
// page to map lazily - shows the frame. It reports false where the host does not allow it.
func (m *vmMachine) aliasAtZero(f mm.Frame) bool {
	if m.pageZero {
		return false
	}
	const mapFixed = 0x10
	got, _, e := syscall.Syscall6(syscall.SYS_MMAP, 0, 4096, syscall.PROT_READ, syscall.MAP_SHARED|mapFixed, uintptr(m.fd), m.ptr(f.Address())-m.base)
	if e != 0 || got != 0 {
		if e == 0 {
			syscall.Syscall(syscall.SYS_MUNMAP, got, 4096, 0)
		}
		return false
	}
	m.pageZero = true
	return true
}

// realias makes the alias page at addr show frame f from now on: what a virtual page shows is
// the frame its page-table entry refers to at that moment.
func (m *vmMachine) realias(addr uintptr, f mm.Frame) {
	const mapFixed = 0x10
	got, _, e := syscall.Syscall6(syscall.SYS_MMAP, addr, 4096, syscall.PROT_READ, syscall.MAP_SHARED|mapFixed, uintptr(m.fd), m.ptr(f.Address())-m.base)
	if e != 0 || got != addr {
		panic(vmFault{"harness: re-pointing an alias page failed: " + e.Error()})
	}
}

// newRoot builds an empty top-level table with the recursive entry, the way
// the boot code hands one to the kernel.
func (m *vmMachine) newRoot() mm.Frame {
	f := m.newLowFrame()
	b := m.frameBytes(f)
	for i := range b {
		b[i] = 0
	}
	*(*uintptr)(unsafe.Pointer(m.ptr(f.Address()) + 511*8)) = f.Address() | uintptr(FlagPresent|FlagRW) | m.rootExtra
	return f
}

// freshRoot checks a top-level table that PageDirectoryTable.Init has just set up in frame f:
// every entry empty except the last one, which holds exactly the frame's own address with the
// present and writable bits - nothing of what the frame held before.
func (m *vmMachine) freshRoot(f mm.Frame) string {
	b := m.frameBytes(f)
	for i := 0; i < 511; i++ {
		if e := *(*uint64)(unsafe.Pointer(&b[i*8])); e != 0 {
			return fmt.Sprintf("entry %d of the new top-level table is %#x, not empty (the frame was not cleared)", i, e&^uint64(vmFrameMask)|uint64(m.frameTag(uintptr(e))))
		}
	}
	got := *(*uintptr)(unsafe.Pointer(&b[511*8]))
	if want := f.Address() | uintptr(FlagPresent|FlagRW); got != want {
		return fmt.Sprintf("the recursive entry of the new top-level table is %#x, want its own frame with exactly present|writable (%#x): bits of the frame's previous contents survive", uint64(got)&^uint64(vmFrameMask)|uint64(m.frameTag(got)), uint64(want)&^uint64(vmFrameMask)|uint64(m.frameTag(want)))
	}
	return ""
}

// hw translates a virtual address from the current CR3 the way the MMU does:
// present bit and bits 12..51 of each entry, four levels.
func (m *vmMachine) hw(virt uintptr) (uintptr, bool) {
	return m.hwFrom(m.cr3, virt)
}

// hwPtr is hw for accesses the kernel itself makes: the translation has to end in
// simulated physical memory, and the result is the host address behind it.
func (m *vmMachine) hwPtr(virt uintptr) (uintptr, bool) {
	a, ok := m.hw(virt)
	if !ok || !m.inArena(a) {
		return 0, false
	}
	return m.ptr(a), true
}

func (m *vmMachine) hwFrom(root, virt uintptr) (uintptr, bool) {
	table := root
	for lvl := 0; lvl < 4; lvl++ {
		if !m.inArena(table) {
			return 0, false
		}
		idx := (virt >> (39 - 9*uint(lvl))) & 511
		e := *(*uintptr)(unsafe.Pointer(m.ptr(table) + idx*8))
		if e&1 == 0 {
			return 0, false
		}
		table = e & vmFrameMask
	}
	return table + virt&0xfff, true
}

// hwEntry returns the raw entries met on the walk of virt (one per level, as
// far as the walk gets).
func (m *vmMachine) hwEntries(root, virt uintptr) (entries []uintptr, ptrs []uintptr) {
	table := root
	for lvl := 0; lvl < 4; lvl++ {
		if !m.inArena(table) {
			return
		}
		idx := (virt >> (39 - 9*uint(lvl))) & 511
		p := m.ptr(table) + idx*8
		e := *(*uintptr)(unsafe.Pointer(p))
		entries = append(entries, e)
		ptrs = append(ptrs, p)
		if e&1 == 0 {
			return
		}
		table = e & vmFrameMask
	}
	return
}

type vmLeaf struct {
	Frame uint64 `json:"frame"`
	Flags uint64 `json:"flags"`
}

// enumerate lists every present leaf reachable from root (skipping the
// recursive slot) and the set of table frames. A present upper-level entry
// that does not point into simulated physical memory is reported.
func (m *vmMachine) enumerate(root uintptr) (leaves map[uint64]vmLeaf, tables []uintptr, bogus string) {
	leaves = map[uint64]vmLeaf{}
	var rec func(table uintptr, lvl int, prefix uintptr)
	rec = func(table uintptr, lvl int, prefix uintptr) {
		tables = append(tables, table)
		for i := uintptr(0); i < 512; i++ {
			if lvl == 0 && i == 511 {
				continue
			}
			e := *(*uintptr)(unsafe.Pointer(m.ptr(table) + i*8))
			if e&1 == 0 {
				continue
			}
			va := prefix | i<<(39-9*uint(lvl))
			if lvl == 3 {
				if va&(1<<47) != 0 {
					va |= 0xffff000000000000
				}
				leaves[uint64(va>>12)] = vmLeaf{uint64((e & vmFrameMask) >> 12), uint64(e &^ vmFrameMask)}
				continue
			}
			next := e & vmFrameMask
			if !m.inArena(next) {
				if bogus == "" {
					bogus = fmt.Sprintf("level-%d table at frame %s has a present entry %d that does not point to a page table (a newly created level was not empty?)", lvl, m.ff(uint64(table>>12)), i)
				}
				continue
			}
			rec(next, lvl+1, va)
		}
	}
	if m.inArena(root) {
		rec(root, 0, 0)
	}
	sort.Slice(tables, func(i, j int) bool { return tables[i] < tables[j] })
	return
}

// snapshot copies the bytes of the given table frames.
func (m *vmMachine) snapshot(tables []uintptr) [][]byte {
	out := make([][]byte, len(tables))
	for i, t := range tables {
		out[i] = append([]byte(nil), m.arena[m.ptr(t)-m.base:m.ptr(t)-m.base+4096]...)
	}
	return out
}

func vmCanon(va uintptr) uintptr {
	if va&(1<<47) != 0 {
		return va | 0xffff000000000000
	}
	return va & 0x0000ffffffffffff
}

func vmPageOf(p4, p3, p2, p1 uintptr) uint64 {
	return uint64(vmCanon(p4<<39|p3<<30|p2<<21|p1<<12) >> 12)
}

// ff formats a frame number deterministically: frames of the simulated
// physical memory are shown by their arena index (host addresses change from
// run to run, and rapid only shrinks failures whose text is reproducible).
func (m *vmMachine) ff(f uint64) string {
	a := uintptr(f) << 12
	if h := m.ptr(a); h >= m.base && h < m.base+vmArenaFrames*4096 {
		idx := int((h - m.base) >> 12)
		switch {
		case m.isHigh(idx) && a&vmHighBit != 0:
			return fmt.Sprintf("phys#%d(upper half)", idx)
		case m.isHigh(idx):
			return fmt.Sprintf("[phys#%d with address bit 51 lost]", idx)
		case a&vmHighBit != 0:
			return fmt.Sprintf("[phys#%d with a stray address bit 51]", idx)
		}
		return fmt.Sprintf("phys#%d", idx)
	}
	return fmt.Sprintf("%#x", f)
}

// staleAfterFlush reports a page of the active address space whose last-level
// entry is no longer what it was when its TLB entry was last invalidated: the
// MMU may have cached the intermediate value it saw in between.
func (m *vmMachine) staleAfterFlush(page uint64) string {
	last := -1
	for i, a := range m.flushed {
		if uint64(vmCanon(a)>>12) == page {
			last = i
		}
	}
	if last < 0 {
		return ""
	}
	now := uintptr(0)
	if es, _ := m.hwEntries(m.cr3, uintptr(page)<<12); len(es) == 4 {
		now = es[3]
	}
	// the entry counts only as far as the MMU interprets it: a non-present entry is just "not present"
	then := m.flushedLeaf[last]
	if then&1 == 0 && now&1 == 0 {
		return ""
	}
	if then != now {
		return fmt.Sprintf("the last-level entry was %#x when the TLB entry was invalidated and is %#x now: the invalidation came before the final update, so a stale translation can stay cached", uint64(then)&^uint64(vmFrameMask)|uint64(m.frameTag(then)), uint64(now)&^uint64(vmFrameMask)|uint64(m.frameTag(now)))
	}
	return ""
}

// frameTag replaces the (run dependent) frame bits of an entry by a small stable number.
func (m *vmMachine) frameTag(e uintptr) uintptr {
	f := e & vmFrameMask
	if f == 0 {
		return 0
	}
	if h := m.ptr(f); h >= m.base && h < m.base+vmArenaFrames*4096 {
		return ((h-m.base)>>12<<12)&vmFrameMask | f&vmHighBit
	}
	return f
}

// vmGenPhys draws the two machine parameters shared by the cases of C04-C06: which frames have
// upper-half physical names, and the extra bits on the boot root's recursive entry.
func vmGenPhys(t *rapid.T) (hi, rootFlags uint64) {
	switch rapid.IntRange(0, 7).Draw(t, "hiclass") {
	case 0:
		hi = ^uint64(0)
	case 1, 2:
		hi = rapid.Uint64().Draw(t, "himask")
	}
	switch rapid.IntRange(0, 5).Draw(t, "rootclass") {
	case 0:
		rootFlags = 1 << 63
	case 1:
		rootFlags = rapid.Uint64().Draw(t, "rootbits") & (0xfff<<52 | 0x60 | 0xe00)
	}
	return
}
