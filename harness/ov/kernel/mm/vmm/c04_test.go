//go:build verif && go1.21

package vmm

// C04 — page-table operations implement exactly the requested translation.

import (
	"bytes"
	"fmt"
	"testing"

	"github.com/ProjectSerenity/firefly/kernel"
	"github.com/ProjectSerenity/firefly/kernel/mm"
	"pgregory.net/rapid"
	"verifharness/vlib"
)

type c04Op struct {
	Kind   string `json:"kind"` // map unmap pdtMap pdtUnmap mapRegion identityMap mapTemp translate activate
	Space  int    `json:"space,omitempty"`
	P      [4]int `json:"p"` // table indices of the page
	Frame  uint64 `json:"frame,omitempty"`
	Flags  uint64 `json:"flags,omitempty"`
	Size   uint64 `json:"size,omitempty"`
	FailAt int    `json:"failat,omitempty"`
	Off    uint64 `json:"off,omitempty"`
	// NP (map, pdtMap): the requested flags do NOT include the present bit - a legal flag
	// combination ("park" a page): the entry holds the request, the page is not translatable
	NP bool `json:"np,omitempty"`
}

type c04Case struct {
	Spaces    int     `json:"spaces"`
	Ops       []c04Op `json:"ops"`
	Hi        uint64  `json:"hi,omitempty"`        // frames with upper-half physical names (vmMachine.hiMask)
	RootFlags uint64  `json:"rootflags,omitempty"` // extra bits on the boot root's recursive entry
}

type c04Stats struct {
	sharedUpper, remap, unmapThenMap, inactiveOp, injectedFired, refusedRegion, notPresent bool
}

func (op c04Op) page() uint64 {
	return vmPageOf(uintptr(op.P[0]), uintptr(op.P[1]), uintptr(op.P[2]), uintptr(op.P[3]))
}

func c04Run(c c04Case) (fail *vlib.Failure, rs c04Stats) {
	defer vlib.Guard("C04", c, nil)()
	m := vmNew()
	m.hiMask, m.rootExtra = c.Hi, uintptr(c.RootFlags)
	roots := []mm.Frame{m.newRoot()}
	m.cr3 = roots[0].Address()
	pdts := []PageDirectoryTable{{pdtFrame: roots[0]}}
	activated := map[int]bool{}
	for _, op := range c.Ops {
		if op.Kind == "activate" {
			activated[op.Space%c.Spaces] = true
		}
	}
	for i := 1; i < c.Spaces; i++ {
		// the root of a space that becomes active has to be host-addressable (see lowNext)
		f := m.newFrameNamed(!activated[i] && m.hiMask>>(uint(m.next)%64)&1 == 1)
		var p PageDirectoryTable
		var err *kernel.Error
		if pc := vlib.Catch(func() { err = p.Init(f) }); pc.Panicked || err != nil {
			return vlib.Failf("initialising address space %d failed: err=%v %v", i, err, pc), rs
		}
		if why := m.freshRoot(f); why != "" {
			return vlib.Failf("initialising address space %d (PageDirectoryTable.Init on a frame with old contents): %s", i, why), rs
		}
		roots = append(roots, f)
		pdts = append(pdts, p)
	}
	model := make([]map[uint64]vmLeaf, c.Spaces)
	everUnmapped := make([]map[uint64]bool, c.Spaces)
	for i := range model {
		model[i] = map[uint64]vmLeaf{}
		everUnmapped[i] = map[uint64]bool{}
	}
	active := 0

	check := func(when string) *vlib.Failure {
		for s := range roots {
			got, _, bogus := m.enumerate(roots[s].Address())
			if bogus != "" {
				return vlib.Failf("%s: address space %d: %s", when, s, bogus)
			}
			for p, want := range model[s] {
				g, ok := got[p]
				if !ok {
					return vlib.Failf("%s: address space %d: page %#x should map frame %s flags %#x but is not present", when, s, p, m.ff(want.Frame), want.Flags)
				}
				if g != want {
					return vlib.Failf("%s: address space %d: page %#x has frame %s flags %#x in the hardware entry, requested frame %s flags %#x", when, s, p, m.ff(g.Frame), g.Flags, m.ff(want.Frame), want.Flags)
				}
			}
			for p, g := range got {
				if _, ok := model[s][p]; !ok {
					return vlib.Failf("%s: address space %d: page %#x is mapped (frame %s flags %#x) although it was never mapped / has been unmapped", when, s, p, m.ff(g.Frame), g.Flags)
				}
			}
		}
		return nil
	}
	flushedHas := func(page uint64) bool {
		for _, a := range m.flushed {
			if uint64(vmCanon(a)>>12) == page {
				return true
			}
		}
		return false
	}
	if f := check("after set-up"); f != nil {
		return f, rs
	}

	for i, op := range c.Ops {
		when := fmt.Sprintf("op %d (%s)", i, op.Kind)
		m.flushedLeaf = nil
		m.flushed, m.allocs, m.failAt, m.failErr, m.handed = nil, 0, op.FailAt, nil, nil
		space := active
		if op.Kind == "pdtMap" || op.Kind == "pdtUnmap" || op.Kind == "activate" {
			space = op.Space % c.Spaces
		}
		page := op.page()
		flags := op.Flags | 1
		if op.NP && (op.Kind == "map" || op.Kind == "pdtMap") {
			flags = op.Flags &^ 1
		}
		if op.Kind == "mapRegion" && op.Size > 1<<32 && op.Size <= uint64(earlyReserveLastUsed) {
			continue // (hand-written replays only) would have to map billions of pages
		}
		cr3Before := m.cr3
		var snapTables []uintptr
		var snap [][]byte
		if space != active && op.Kind != "activate" {
			_, snapTables, _ = m.enumerate(roots[active].Address())
			snap = m.snapshot(snapTables)
			rs.inactiveOp = true
		}

		var err *kernel.Error
		var retPage mm.Page
		var retAddr uintptr
		reserveBefore := earlyReserveLastUsed
		pc := vlib.Catch(func() {
			switch op.Kind {
			case "map":
				err = Map(mm.Page(page), mm.Frame(op.Frame), PageTableEntryFlag(flags))
			case "unmap":
				err = Unmap(mm.Page(page))
			case "pdtMap":
				err = pdts[space].Map(mm.Page(page), mm.Frame(op.Frame), PageTableEntryFlag(flags))
			case "pdtUnmap":
				err = pdts[space].Unmap(mm.Page(page))
			case "mapRegion":
				retPage, err = MapRegion(mm.Frame(op.Frame), uintptr(op.Size), PageTableEntryFlag(flags))
			case "identityMap":
				retPage, err = IdentityMapRegion(mm.Frame(page), uintptr(op.Size), PageTableEntryFlag(flags))
			case "mapTemp":
				retPage, err = MapTemporary(mm.Frame(op.Frame))
			case "translate":
				retAddr, err = Translate(uintptr(page)<<12 | uintptr(op.Off&0xfff))
			case "activate":
				pdts[space].Activate()
			}
		})
		if pc.Panicked {
			return vlib.Failf("%s: %v", when, pc), rs
		}
		injected := m.failErr != nil
		if injected {
			rs.injectedFired = true
			if err != m.failErr {
				return vlib.Failf("%s: the frame allocator failed (allocation #%d of the operation) but the operation returned %v instead of that error", when, op.FailAt, err), rs
			}
		}

		changed := []uint64{}
		switch op.Kind {
		case "map", "pdtMap":
			if !injected {
				if err != nil {
					return vlib.Failf("%s: mapping page %#x failed: %s", when, page, err.Message), rs
				}
				if old, ok := model[space][page]; ok && (old != vmLeaf{op.Frame, flags}) {
					rs.remap = true
				}
				if everUnmapped[space][page] {
					rs.unmapThenMap = true
				}
				for q := range model[space] {
					if q != page && q>>9 == page>>9 {
						rs.sharedUpper = true
					}
				}
				model[space][page] = vmLeaf{op.Frame, flags}
				if flags&1 == 0 {
					// not present: the page does not translate, but the entry must hold exactly
					// what was asked for
					delete(model[space], page)
					everUnmapped[space][page] = true
					rs.notPresent = true
					es, _ := m.hwEntries(roots[space].Address(), uintptr(page)<<12)
					if want := uintptr(op.Frame)<<12 | uintptr(flags); len(es) != 4 || es[3] != want {
						got := uintptr(0)
						if len(es) == 4 {
							got = es[3]
						}
						return vlib.Failf("%s: page %#x mapped with flags %#x (not present): the hardware entry holds %#x (walk reached %d levels), want exactly frame %#x with the requested bits", when, page, flags, uint64(got)&^uint64(vmFrameMask)|uint64(m.frameTag(got)), len(es), op.Frame), rs
					}
				}
				changed = append(changed, page)
			}
		case "unmap", "pdtUnmap":
			if _, ok := model[space][page]; ok {
				if err != nil {
					return vlib.Failf("%s: unmapping the mapped page %#x failed: %s", when, page, err.Message), rs
				}
				delete(model[space], page)
				everUnmapped[space][page] = true
				changed = append(changed, page)
			} else if err != nil && err != ErrInvalidMapping {
				return vlib.Failf("%s: unmapping the unmapped page %#x returned an unexpected error: %s", when, page, err.Message), rs
			}
		case "mapTemp":
			tp := uint64(tempMappingAddr >> 12)
			if !injected {
				if err != nil {
					return vlib.Failf("%s: MapTemporary failed: %s", when, err.Message), rs
				}
				if uint64(retPage) != tp {
					return vlib.Failf("%s: MapTemporary returned page %#x, the temporary-mapping page is %#x", when, uint64(retPage), tp), rs
				}
				model[space][tp] = vmLeaf{op.Frame, uint64(FlagPresent | FlagRW)}
				changed = append(changed, tp)
			}
		case "mapRegion", "identityMap":
			if op.Kind == "mapRegion" && op.Size > uint64(reserveBefore) {
				// a region that does not fit below the regions mapped so far: refused, and
				// nothing may change - in particular not the place the next region will get
				if err == nil {
					return vlib.Failf("%s: a region of %#x bytes was mapped although only %#x bytes of address space are left", when, op.Size, uint64(reserveBefore)), rs
				}
				if earlyReserveLastUsed != reserveBefore {
					return vlib.Failf("%s: the refused region mapping of %#x bytes moved the start of the mapped regions from %#x to %#x: the next region would be given pages that are in use", when, op.Size, uint64(reserveBefore), uint64(earlyReserveLastUsed)), rs
				}
				rs.refusedRegion = true
				break
			}
			n := (op.Size + 4095) >> 12
			var first uint64
			if op.Kind == "identityMap" {
				first = page
			} else {
				// the region starts where the reservation cursor stands after the call: somewhere
				// below the regions mapped so far, with room for n pages (directly below them or
				// further down is the reservation code's choice)
				first = uint64(earlyReserveLastUsed >> 12)
				if err == nil && (earlyReserveLastUsed&0xfff != 0 || earlyReserveLastUsed > reserveBefore || uint64(reserveBefore-earlyReserveLastUsed) < n<<12) {
					return vlib.Failf("%s: after mapping a region of %d pages the start of the mapped regions moved from %#x to %#x: no room for the region below the earlier ones", when, n, uint64(reserveBefore), uint64(earlyReserveLastUsed)), rs
				}
			}
			frame0 := op.Frame
			if op.Kind == "identityMap" {
				frame0 = page
			}
			if !injected {
				if err != nil {
					return vlib.Failf("%s: region mapping failed: %s", when, err.Message), rs
				}
				if uint64(retPage) != first {
					return vlib.Failf("%s: region mapping returned page %#x, expected %#x", when, uint64(retPage), first), rs
				}
				for k := uint64(0); k < n; k++ {
					model[space][first+k] = vmLeaf{frame0 + k, flags}
					changed = append(changed, first+k)
				}
			} else {
				// pages of the request mapped before the failure may stay mapped
				got, _, _ := m.enumerate(roots[space].Address())
				for k := uint64(0); k < n; k++ {
					want := vmLeaf{frame0 + k, flags}
					if g, ok := got[first+k]; ok && g == want {
						model[space][first+k] = want
					}
				}
			}
		case "translate":
			va := uintptr(page)<<12 | uintptr(op.Off&0xfff)
			hwAddr, hwOK := m.hw(va)
			if l, ok := model[active][page]; ok {
				want := uintptr(l.Frame)<<12 + uintptr(op.Off&0xfff)
				if err != nil || retAddr != want {
					return vlib.Failf("%s: Translate(%#x) = (%#x, %v), the page maps frame %#x so %#x was expected", when, va, retAddr, err, l.Frame, want), rs
				}
				if !hwOK || hwAddr != want {
					return vlib.Failf("%s: the MMU translates %#x to (%#x, %v), model says %#x", when, va, hwAddr, hwOK, want), rs
				}
			} else {
				if err == nil {
					return vlib.Failf("%s: Translate(%#x) = %#x although the page is not mapped", when, va, retAddr), rs
				}
				if hwOK {
					return vlib.Failf("%s: the MMU translates the unmapped address %#x to %#x", when, va, hwAddr), rs
				}
			}
		case "activate":
			if m.cr3 != roots[space].Address() {
				return vlib.Failf("%s: after Activate the active root is %s, want the root of space %d (%s)", when, m.ff(uint64(m.cr3>>12)), space, m.ff(uint64(roots[space]))), rs
			}
			active = space
		}
		if op.Kind != "activate" && m.cr3 != cr3Before {
			return vlib.Failf("%s: the active address space changed (CR3 %s -> %s)", when, m.ff(uint64(cr3Before>>12)), m.ff(uint64(m.cr3>>12))), rs
		}
		if f := check("after " + when); f != nil {
			return f, rs
		}
		if space == active {
			for _, p := range changed {
				if !flushedHas(p) {
					return vlib.Failf("%s: the translation of page %#x changed but its TLB entry was not invalidated (flushed: %#x)", when, p, m.flushed), rs
				}
				if stale := m.staleAfterFlush(p); stale != "" {
					return vlib.Failf("%s: page %#x: %s", when, p, stale), rs
				}
			}
		} else if op.Kind != "activate" {
			after := m.snapshot(snapTables)
			for k := range snap {
				if !bytes.Equal(snap[k], after[k]) {
					return vlib.Failf("%s on inactive space %d: page-table frame %s of the ACTIVE space changed", when, space, m.ff(uint64(snapTables[k]>>12))), rs
				}
			}
			_, nowTables, _ := m.enumerate(roots[active].Address())
			if len(nowTables) != len(snapTables) {
				return vlib.Failf("%s on inactive space %d: the active space gained or lost page tables (%d -> %d)", when, space, len(snapTables), len(nowTables)), rs
			}
		}
	}
	return nil, rs
}

// ---------------------------------------------------------------------------

var (
	c04P4   = []int{0, 1, 255, 256, 509, 510}
	c04Pn   = []int{0, 1, 2, 510, 511}
	c04Bits = []uint64{1 << 1, 1 << 2, 1 << 3, 1 << 4, 1 << 8, 1 << 9, 1 << 63, 1 << 5, 1 << 6, 1 << 7}
)

func c04GenFlags(t *rapid.T) uint64 {
	f := uint64(1)
	mask := rapid.IntRange(0, 1023).Draw(t, "flagmask")
	for i, b := range c04Bits {
		if mask&(1<<uint(i)) != 0 {
			f |= b
		}
	}
	return f
}

func c04GenOp(t *rapid.T, spaces int) c04Op {
	kind := rapid.SampledFrom([]string{"map", "map", "map", "map", "unmap", "unmap", "pdtMap", "pdtMap", "pdtUnmap", "mapRegion", "identityMap", "mapTemp", "translate", "translate", "activate"}).Draw(t, "kind")
	op := c04Op{Kind: kind}
	op.P = [4]int{
		rapid.SampledFrom(c04P4).Draw(t, "p4"),
		rapid.SampledFrom(c04Pn).Draw(t, "p3"),
		rapid.SampledFrom(c04Pn).Draw(t, "p2"),
		rapid.SampledFrom(c04Pn).Draw(t, "p1"),
	}
	if rapid.IntRange(0, 9).Draw(t, "temp") == 0 {
		op.P = [4]int{510, 511, 511, 511} // the temporary-mapping page
	}
	switch kind {
	case "map", "pdtMap", "mapRegion", "mapTemp":
		if rapid.Bool().Draw(t, "smallframe") {
			op.Frame = uint64(rapid.IntRange(0, 7).Draw(t, "frame"))
		} else {
			op.Frame = rapid.Uint64Range(0, 1<<40-8).Draw(t, "frame")
		}
	}
	switch kind {
	case "map", "pdtMap", "mapRegion", "identityMap":
		op.Flags = c04GenFlags(t)
		if (kind == "map" || kind == "pdtMap") && rapid.IntRange(0, 7).Draw(t, "notpresent") == 0 {
			op.NP = true
		}
	}
	switch kind {
	case "mapRegion", "identityMap":
		op.Size = rapid.SampledFrom([]uint64{1, 4095, 4096, 4097, 8192, 3 * 4096, 5*4096 - 1}).Draw(t, "size")
		if kind == "mapRegion" && rapid.IntRange(0, 7).Draw(t, "toobig") == 0 {
			// larger than everything that is left below the regions mapped so far
			op.Size = rapid.SampledFrom([]uint64{1<<64 - 4096, 1<<64 - 8192, 1<<64 - 1<<30, 1<<64 - 4097, 1<<64 - 1}).Draw(t, "hugesize")
		}
		if kind == "identityMap" {
			// identity mappings live in the low half (frame numbers are page numbers)
			op.P[0] = rapid.SampledFrom([]int{0, 1, 254}).Draw(t, "idp4")
		}
	case "pdtMap", "pdtUnmap", "activate":
		op.Space = rapid.IntRange(0, spaces-1).Draw(t, "space")
	case "translate":
		op.Off = uint64(rapid.IntRange(0, 4095).Draw(t, "off"))
	}
	if kind != "translate" && kind != "activate" && kind != "unmap" && kind != "pdtUnmap" && rapid.IntRange(0, 5).Draw(t, "inject") == 0 {
		op.FailAt = rapid.IntRange(1, 3).Draw(t, "failat")
	}
	return op
}

func TestVerifC04(t *testing.T) {
	st := vlib.For("C04")
	defer vlib.Flush()
	defer vmRestore()
	rapid.Check(t, func(t *rapid.T) {
		var c c04Case
		c.Spaces = rapid.IntRange(1, 3).Draw(t, "spaces")
		c.Hi, c.RootFlags = vmGenPhys(t)
		spaces := c.Spaces
		// rapid's slice lengths are strongly biased towards short lists: draw a minimum
		// length first so that long histories are common (elements can still be deleted
		// while shrinking because the minimum itself shrinks)
		minOps := rapid.SampledFrom([]int{1, 1, 6, 16, 40}).Draw(t, "minops")
		c.Ops = rapid.SliceOfN(rapid.Custom(func(t *rapid.T) c04Op { return c04GenOp(t, spaces) }), minOps, vlib.Scale(60, 300)).Draw(t, "ops")
		fail, rs := c04Run(c)
		var labels []string
		for name, on := range map[string]bool{"shared-upper-table": rs.sharedUpper, "remap": rs.remap, "unmap-then-map": rs.unmapThenMap, "inactive-space-op": rs.inactiveOp, "injected-alloc-failure-fired": rs.injectedFired, "refused-region-map": rs.refusedRegion, "mapped-without-the-present-bit": rs.notPresent} {
			if on {
				labels = append(labels, name)
			}
		}
		st.Case(c, len(labels) > 0, uniqSorted(labels)...)
		vlib.Report(t, "C04", c, fail)
	})
}

func uniqSorted(l []string) []string {
	for i := 1; i < len(l); i++ {
		for j := i; j > 0 && l[j] < l[j-1]; j-- {
			l[j], l[j-1] = l[j-1], l[j]
		}
	}
	return l
}

func TestVerifC04Replay(t *testing.T) {
	defer vmRestore()
	var c c04Case
	ok, err := vlib.LoadReplay(&c)
	if !ok {
		t.Skip("no replay requested")
	}
	if err != nil {
		t.Fatalf("VERIF-HARNESS cannot load replay: %v", err)
	}
	fail, _ := c04Run(c)
	vlib.Report(t, "C04", c, fail)
}
