//go:build verif && go1.21

package vmm

// C05 — the kernel address space maps each loaded section exactly, with W^X
// permissions; early reservations keep their translations; the new space is
// active on return.

import (
	"encoding/binary"
	"fmt"
	"testing"
	"unsafe"

	"github.com/ProjectSerenity/firefly/kernel"
	"github.com/ProjectSerenity/firefly/kernel/mm"
	"github.com/ProjectSerenity/firefly/kernel/multiboot"
	"pgregory.net/rapid"
	"verifharness/vlib"
)

type c05Section struct {
	Name  string `json:"name"`
	Addr  uint64 `json:"addr"`
	Size  uint64 `json:"size"`
	Flags uint32 `json:"flags"` // multiboot.ElfSection* bits
}

type c05Reservation struct {
	Size   uint64   `json:"size"`
	Frames []uint64 `json:"frames"` // one per page
	// Refused: a request for more than is left (Size is huge, no frames); the
	// caller gets an error and carries on, as early boot code does
	Refused bool `json:"refused,omitempty"`
	// Flags (0 = present|writable): the flags the pages of the region were mapped with before the
	// kernel address space is built - e.g. a framebuffer mapped write-combining (the memory-type bit
	// of a last-level entry is bit 7) or no-execute. Always present.
	Flags uint64 `json:"flags,omitempty"`
}

type c05Case struct {
	Offset       uint64           `json:"offset"`
	Sections     []c05Section     `json:"sections"`
	Reservations []c05Reservation `json:"reservations"`
	ViaMultiboot bool             `json:"viamultiboot,omitempty"` // deliver the sections through a real multiboot2 block
	// MbLead: the block starts with a command-line tag of that many text bytes (0 = the
	// ELF-sections tag comes first). The block always lives at the same address, the way a boot
	// loader drops it at its fixed place: what a previous block held there must not matter.
	MbLead int `json:"mblead,omitempty"`
	FailAt       int              `json:"failat,omitempty"`       // fail the k-th frame allocation of setupPDTForKernel
	TempFail     bool             `json:"tempfail,omitempty"`     // fail the temporary mapping of the new root
	Hi           uint64           `json:"hi,omitempty"`           // frames with upper-half physical names (vmMachine.hiMask)
	RootFlags    uint64           `json:"rootflags,omitempty"`    // extra bits on the boot root's recursive entry
}

func c05Run(c c05Case) *vlib.Failure {
	defer vlib.Guard("C05", c, nil)()
	m := vmNew()
	m.hiMask, m.rootExtra = c.Hi, uintptr(c.RootFlags)
	boot := m.newRoot()
	m.cr3 = boot.Address()

	// early boot: reservations are made and mapped in the boot address space,
	// as pmm and the console drivers do
	reserved := map[uint64]uint64{} // page -> frame
	for i, r := range c.Reservations {
		var addr uintptr
		var err *kernel.Error
		if r.Refused {
			if r.Size <= uint64(earlyReserveLastUsed) {
				return vlib.Failf("VERIF-HARNESS: refused reservation %d of %#x bytes would fit", i, r.Size)
			}
			pc := vlib.Catch(func() { addr, err = EarlyReserveRegion(uintptr(r.Size)) })
			if pc.Panicked || err == nil {
				return vlib.Failf("set-up: early reservation %d of %#x bytes, more than is left, was not refused: address %#x %v", i, r.Size, uint64(addr), pc)
			}
			continue
		}
		pc := vlib.Catch(func() {
			addr, err = EarlyReserveRegion(uintptr(r.Size))
			if err != nil {
				return
			}
			for k, f := range r.Frames {
				fl := FlagPresent | FlagRW
				if r.Flags != 0 {
					fl = PageTableEntryFlag(r.Flags) | FlagPresent
				}
				if err = Map(mm.PageFromAddress(addr)+mm.Page(k), mm.Frame(f), fl); err != nil {
					return
				}
			}
		})
		if pc.Panicked || err != nil {
			return vlib.Failf("set-up: early reservation %d failed: %v %v", i, err, pc)
		}
		for k, f := range r.Frames {
			reserved[uint64(addr>>12)+uint64(k)] = f
		}
	}
	// every page of every reserved region is mapped now, as real callers map what they reserve
	// (whether the regions are adjacent is the reservation code's business: C07)

	if c.ViaMultiboot {
		// the real decoder reads the ELF-sections tag of a multiboot2 information block
		keep := c05InstallMultiboot(c.Sections, c.MbLead)
		defer func() { _ = keep }()
		visitElfSectionsFn = vmShipped.visitElfSectionsFn
	} else {
		visitElfSectionsFn = func(v multiboot.ElfSectionVisitor) {
			for _, s := range c.Sections {
				v(s.Name, multiboot.ElfSectionFlag(s.Flags), uintptr(s.Addr), s.Size)
			}
		}
	}
	m.flushedLeaf = nil
	m.flushed, m.allocs, m.failAt, m.failErr = nil, 0, c.FailAt, nil
	m.tempFail = c.TempFail
	bootLeaves, _, _ := m.enumerate(boot.Address())
	bootSlot := *(*uintptr)(unsafe.Pointer(&m.frameBytes(boot)[511*8]))
	var err *kernel.Error
	if pc := vlib.CatchFault(func() { err = setupPDTForKernel(uintptr(c.Offset)) }); pc.Panicked {
		return vlib.Failf("building the kernel address space: %v", pc)
	}
	if c.TempFail || m.failErr != nil {
		if err == nil {
			return vlib.Failf("a failure was injected (allocation #%d / temporary mapping %v) but setupPDTForKernel reported success", c.FailAt, c.TempFail)
		}
		if m.cr3 != boot.Address() {
			return vlib.Failf("setupPDTForKernel failed (%s) but the active address space changed", err.Message)
		}
		// the boot address space stays the active one: its recursive slot (borrowed while the
		// new space is built) has to be back, and every page has to translate as before
		if slot := *(*uintptr)(unsafe.Pointer(&m.frameBytes(boot)[511*8])); slot != bootSlot {
			return vlib.Failf("setupPDTForKernel failed (%s) and left the recursive entry of the boot address space, which stays active, pointing at %s instead of its own table", err.Message, m.ff(uint64(slot&vmFrameMask)>>12))
		}
		nowLeaves, _, bogus := m.enumerate(boot.Address())
		if bogus != "" {
			return vlib.Failf("setupPDTForKernel failed (%s); boot address space: %s", err.Message, bogus)
		}
		tp := uint64(vmCanon(tempMappingAddr) >> 12)
		for p, l := range bootLeaves {
			if nl, ok := nowLeaves[p]; p != tp && (!ok || nl != l) {
				return vlib.Failf("setupPDTForKernel failed (%s) and page %#x of the boot address space, which stays active, no longer translates as before", err.Message, p)
			}
		}
		for p := range nowLeaves {
			if _, ok := bootLeaves[p]; !ok && p != tp {
				return vlib.Failf("setupPDTForKernel failed (%s) and left page %#x mapped in the boot address space, which stays active", err.Message, p)
			}
		}
		for p, f := range reserved {
			if a, ok := m.hw(uintptr(p) << 12); !ok || uint64(a>>12) != f {
				return vlib.Failf("setupPDTForKernel failed (%s) and the reserved page %#x no longer translates to frame %#x in the boot address space (now %#x, mapped=%v)", err.Message, p, f, uint64(a>>12), ok)
			}
		}
		return nil
	}
	if err != nil {
		return vlib.Failf("setupPDTForKernel failed: %s", err.Message)
	}
	newRoot := kernelPDT.pdtFrame
	if m.cr3 != newRoot.Address() || m.cr3 == boot.Address() {
		return vlib.Failf("after initialisation the active root is %s, the kernel's new root is %s (boot root %s)", m.ff(uint64(m.cr3>>12)), m.ff(uint64(newRoot)), m.ff(uint64(boot)))
	}
	if e := *(*uintptr)(unsafe.Pointer(&m.frameBytes(newRoot)[511*8])); e != newRoot.Address()|uintptr(FlagPresent|FlagRW) {
		return vlib.Failf("the recursive entry of the kernel's new top-level table holds %#x besides its own frame, want exactly present|writable: bits of the frame's previous contents survive", uint64(e)&^uint64(vmFrameMask))
	}
	got, _, bogus := m.enumerate(m.cr3)
	if bogus != "" {
		return vlib.Failf("new address space: %s", bogus)
	}
	expected := map[uint64]bool{}
	for _, s := range c.Sections {
		if s.Addr < c.Offset {
			continue
		}
		first := s.Addr >> 12
		last := (s.Addr + s.Size - 1) >> 12
		frame := (s.Addr - c.Offset) >> 12
		for p := first; p <= last; p, frame = p+1, frame+1 {
			page := uint64(vmCanon(uintptr(p<<12)) >> 12)
			expected[page] = true
			l, ok := got[page]
			if !ok {
				return vlib.Failf("section %s [%#x,+%#x): page %#x is not mapped in the new address space", s.Name, s.Addr, s.Size, page)
			}
			if l.Frame != frame {
				return vlib.Failf("section %s [%#x,+%#x): page %#x maps frame %#x, it was loaded at frame %#x", s.Name, s.Addr, s.Size, page, l.Frame, frame)
			}
			writable := s.Flags&uint32(multiboot.ElfSectionWritable) != 0
			executable := s.Flags&uint32(multiboot.ElfSectionExecutable) != 0
			if (l.Flags&uint64(FlagRW) != 0) != writable {
				return vlib.Failf("section %s (writable=%v): page %#x has RW=%v", s.Name, writable, page, l.Flags&uint64(FlagRW) != 0)
			}
			if (l.Flags&(1<<63) == 0) != executable {
				return vlib.Failf("section %s (executable=%v): page %#x has NX=%v", s.Name, executable, page, l.Flags&(1<<63) != 0)
			}
			if l.Flags&uint64(FlagUserAccessible) != 0 {
				return vlib.Failf("section %s: page %#x is user-accessible", s.Name, page)
			}
		}
	}
	for page, frame := range reserved {
		l, ok := got[page]
		if !ok || l.Frame != frame {
			return vlib.Failf("reserved page %#x translated to frame %#x before initialisation, now (%#x, mapped=%v)", page, frame, l.Frame, ok)
		}
		expected[page] = true
	}
	for page, l := range got {
		if !expected[page] {
			return vlib.Failf("page %#x is mapped (frame %s flags %#x) in the new address space but belongs to no section in the kernel range and to no reservation", page, m.ff(l.Frame), l.Flags)
		}
	}
	return nil
}

// c05InstallMultiboot encodes the sections as the ELF-symbols tag of a multiboot2 block
// (64-byte section headers, names in a string table that is itself the last section) and
// points the multiboot package at it. The returned slices keep the memory alive.
// c05MbArena is where every multiboot block of this process is put.
var c05MbArena [40 << 10]uint64

func c05InstallMultiboot(secs []c05Section, lead int) [][]uint64 {
	var strtab []byte
	strtab = append(strtab, 0)
	nameOff := make([]uint32, len(secs))
	for i, s := range secs {
		nameOff[i] = uint32(len(strtab))
		strtab = append(strtab, s.Name...)
		strtab = append(strtab, 0)
	}
	strName := uint32(len(strtab))
	strtab = append(strtab, ".shstrtab"...)
	strtab = append(strtab, 0)
	strBack := make([]uint64, len(strtab)/8+2)
	strBytes := unsafe.Slice((*byte)(unsafe.Pointer(&strBack[0])), len(strtab))
	copy(strBytes, strtab)

	n := len(secs) + 1
	tagSize := 8 + 12 + 64*n
	leadSize := 0
	if lead > 0 {
		leadSize = (8 + lead + 1 + 7) &^ 7
	}
	total := 8 + leadSize + (tagSize+7)&^7 + 8
	back := c05MbArena[:]
	if total > len(back)*8 {
		panic("VERIF-HARNESS: multiboot arena too small")
	}
	b := unsafe.Slice((*byte)(unsafe.Pointer(&back[0])), total)
	for i := range b {
		b[i] = 0
	}
	le := binary.LittleEndian
	le.PutUint32(b[0:], uint32(total))
	if lead > 0 {
		le.PutUint32(b[8:], 1) // boot command line
		le.PutUint32(b[12:], uint32(8+lead+1))
		for i := 0; i < lead; i++ {
			b[16+i] = "quiet x=1 "[i%10]
		}
	}
	b = b[leadSize:] // from here on offsets are those of a block without the leading tag
	le.PutUint32(b[8:], 9) // ELF symbols tag
	le.PutUint32(b[12:], uint32(tagSize))
	le.PutUint32(b[16:], uint32(n))
	le.PutUint32(b[20:], 64)
	le.PutUint32(b[24:], uint32(n-1)) // index of the string-table section
	put := func(i int, name uint32, typ uint32, flags, addr, size uint64) {
		o := 28 + 64*i
		le.PutUint32(b[o:], name)
		le.PutUint32(b[o+4:], typ)
		le.PutUint64(b[o+8:], flags)
		le.PutUint64(b[o+16:], addr)
		le.PutUint64(b[o+32:], size)
	}
	for i, s := range secs {
		put(i, nameOff[i], 1, uint64(s.Flags), s.Addr, s.Size)
	}
	put(n-1, strName, 3, 0, uint64(uintptr(unsafe.Pointer(&strBytes[0]))), uint64(len(strtab)))
	end := 8 + (tagSize+7)&^7
	le.PutUint32(b[end:], 0)
	le.PutUint32(b[end+4:], 8)
	multiboot.SetInfoPtr(uintptr(unsafe.Pointer(&c05MbArena[0])))
	return [][]uint64{strBack}
}

func c05Gen(t *rapid.T) c05Case {
	var c c05Case
	c.Hi, c.RootFlags = vmGenPhys(t)
	c.Offset = rapid.SampledFrom([]uint64{0xffff800000000000, 0xffff800000000000, 0xffffc00000000000, 1 << 30, 0x200000, 0}).Draw(t, "offset")
	cursor := c.Offset + rapid.SampledFrom([]uint64{0, 0x100000, 0x100000, 0x7ff000}).Draw(t, "load")
	n := rapid.IntRange(0, 10).Draw(t, "nsections")
	many := rapid.IntRange(0, 24).Draw(t, "manysections") == 0
	if many {
		// "any count": an image with dozens of (small) sections
		n = rapid.SampledFrom([]int{16, 31, 32, 33, 34, 48, 64, 65, 100, 129}).Draw(t, "nmany")
	}
	low := uint64(0)
	if rapid.IntRange(0, 59).Draw(t, "hugecount") == 0 {
		// thousands of section headers (the count is a 16-bit field): small sections derived
		// from their index, delivered through the real multiboot decoder
		total := rapid.SampledFrom([]int{1022, 1023, 1024, 1025, 1100, 2047, 2049}).Draw(t, "nhuge")
		for i := 0; i < total; i++ {
			s := c05Section{Name: fmt.Sprintf(".h%d", i), Flags: uint32(i % 8), Size: uint64(1 + (i*37)%4096)}
			if i%13 == 5 && c.Offset != 0 {
				s.Addr = low + 0x32 // below the kernel's range
				if s.Addr+s.Size > c.Offset {
					s.Addr, s.Size = 0, 1
				}
				low = (s.Addr + s.Size + 4095) &^ 4095
			} else {
				s.Addr = cursor + uint64(i%3)*0x20
				cursor = (s.Addr + s.Size + 4095) &^ 4095
			}
			c.Sections = append(c.Sections, s)
		}
		n = 0
		c.ViaMultiboot = c.Offset >= 0xffff800000000000
		if c.ViaMultiboot {
			c.MbLead = rapid.SampledFrom([]int{0, 0, 1, 7, 8, 100, 3000}).Draw(t, "mblead")
		}
	}
	for i := 0; i < n; i++ {
		s := c05Section{Name: fmt.Sprintf(".s%d", i)}
		s.Flags = uint32(rapid.IntRange(0, 7).Draw(t, "secflags"))
		s.Size = uint64(rapid.IntRange(1, 4096*3).Draw(t, "size"))
		if many {
			s.Size = uint64(rapid.IntRange(1, 4096).Draw(t, "smallsize"))
		} else if rapid.IntRange(0, 3).Draw(t, "big") == 0 {
			s.Size = uint64(rapid.IntRange(1, 40).Draw(t, "pages"))*4096 - uint64(rapid.SampledFrom([]int{0, 0, 1, 100}).Draw(t, "short"))
		}
		if rapid.IntRange(0, 5).Draw(t, "below") == 0 && c.Offset != 0 { // (nothing lies below a range that starts at 0)
			// a section outside the kernel's range (debug info etc.): low address
			s.Addr = low + uint64(rapid.SampledFrom([]int{0, 0x32, 0x1000}).Draw(t, "lowoff"))
			if s.Addr >= c.Offset {
				s.Addr = 0
			}
			if s.Addr+s.Size > c.Offset {
				s.Size = 1
			}
			low = (s.Addr + s.Size + 4095) &^ 4095
		} else {
			s.Addr = cursor + uint64(rapid.SampledFrom([]int{0, 0, 0, 0x20, 0x32, 0x800, 0xfff}).Draw(t, "misalign"))
			cursor = (s.Addr + s.Size + 4095) &^ 4095 // next section starts on a fresh page
			cursor += uint64(rapid.SampledFrom([]int{0, 0, 0x1000, 0x200000}).Draw(t, "gap"))
		}
		c.Sections = append(c.Sections, s)
	}
	nr := rapid.IntRange(0, 6).Draw(t, "nreservations")
	for i := 0; i < nr; i++ {
		pages := rapid.IntRange(1, 5).Draw(t, "rpages")
		big := rapid.IntRange(0, 29).Draw(t, "rbig") == 0
		if big {
			// a frame buffer or a large bitmap: one request the size of a whole page table or more
			pages = rapid.SampledFrom([]int{300, 511, 512, 513, 768, 1024, 1025, 1200}).Draw(t, "rbigpages")
		}
		r := c05Reservation{Size: uint64(pages)*4096 - uint64(rapid.SampledFrom([]int{0, 0, 1, 4095}).Draw(t, "rshort"))}
		if big {
			base := rapid.Uint64Range(1, 1<<36).Draw(t, "rbigframe")
			for k := 0; k < pages; k++ {
				r.Frames = append(r.Frames, base+uint64(k))
			}
		}
		for k := 0; k < pages && !big; k++ {
			if rapid.IntRange(0, 5).Draw(t, "rlowframe") == 0 {
				// low memory, physical frame 0 included (the first frame the early allocator hands out)
				r.Frames = append(r.Frames, uint64(rapid.IntRange(0, 3).Draw(t, "rframelow")))
			} else {
				r.Frames = append(r.Frames, rapid.Uint64Range(1, 1<<36).Draw(t, "rframe"))
			}
		}
		if rapid.IntRange(0, 3).Draw(t, "rflagsodd") == 0 {
			r.Flags = c04GenFlags(t)
		}
		c.Reservations = append(c.Reservations, r)
		if rapid.IntRange(0, 7).Draw(t, "refused") == 0 {
			c.Reservations = append(c.Reservations, c05Reservation{Refused: true,
				Size: rapid.SampledFrom([]uint64{1<<64 - 8192, 1<<64 - 1<<30, 1<<64 - 1<<38, 1<<64 - 4096, 1<<64 - 1}).Draw(t, "refusedsize")})
		}
	}
	// through the real multiboot decoder when the string table (host memory, low half) is
	// certain to lie below the kernel range and therefore to be skipped
	if c.Offset >= 0xffff800000000000 && rapid.IntRange(0, 2).Draw(t, "viamultiboot") == 0 {
		c.ViaMultiboot = true
		c.MbLead = rapid.SampledFrom([]int{0, 0, 1, 7, 8, 100, 3000}).Draw(t, "mblead")
	}
	switch rapid.IntRange(0, 9).Draw(t, "inject") {
	case 0:
		c.FailAt = rapid.IntRange(1, 12).Draw(t, "failat")
	case 1:
		c.TempFail = true
	}
	return c
}

func TestVerifC05(t *testing.T) {
	st := vlib.For("C05")
	defer vlib.Flush()
	defer vmRestore()
	rapid.Check(t, func(t *rapid.T) {
		c := c05Gen(t)
		fail := c05Run(c)
		perms := map[uint32]bool{}
		var labels []string
		seen := map[string]bool{}
		add := func(l string) {
			if !seen[l] {
				seen[l] = true
				labels = append(labels, l)
			}
		}
		for _, s := range c.Sections {
			if s.Addr < c.Offset {
				add("section-below-kernel-range")
				continue
			}
			perms[s.Flags&5] = true
			if s.Addr&0xfff != 0 {
				add("unaligned-section-start")
			}
			if (s.Addr+s.Size-1)>>12 != s.Addr>>12 {
				add("multi-page-section")
			}
			if s.Flags&5 == 5 {
				add("writable+executable-section")
			}
		}
		if c.FailAt != 0 || c.TempFail {
			add("failure-injected")
		}
		if len(c.Reservations) > 0 {
			add("has-reservations")
		}
		for _, r := range c.Reservations {
			if r.Flags&(1<<7) != 0 {
				add("reservation-mapped-with-the-memory-type-bit-(bit-7)-set")
			}
			if len(r.Frames) >= 512 {
				add("reservation-of-a-page-table-or-more")
			}
		}
		if c.ViaMultiboot {
			add("sections-through-real-multiboot-block")
			if c.MbLead > 0 {
				add("multiboot-block-with-another-tag-in-front-of-the-sections")
			}
			if len(c.Sections) > 1000 {
				add("more-than-1000-section-headers-through-the-real-decoder")
			}
		}
		st.Case(c, len(perms) >= 2 && len(c.Reservations) >= 1, uniqSorted(labels)...)
		if fail != nil && len(fail.Msg) > 13 && fail.Msg[:13] == "VERIF-HARNESS" {
			t.Fatalf("%s", fail.Msg)
		}
		vlib.Report(t, "C05", c, fail)
	})
}

func TestVerifC05Replay(t *testing.T) {
	defer vmRestore()
	var c c05Case
	ok, err := vlib.LoadReplay(&c)
	if !ok {
		t.Skip("no replay requested")
	}
	if err != nil {
		t.Fatalf("VERIF-HARNESS cannot load replay: %v", err)
	}
	vlib.Report(t, "C05", c, c05Run(c))
}
