//go:build verif && go1.21

package vmm

// C06 — copy-on-write faults get a private copy; the shared zero frame is never
// writable; every other fault panics.

import (
	"bytes"
	"fmt"
	"io"
	"reflect"
	"testing"
	"unsafe"

	"github.com/ProjectSerenity/firefly/kernel"
	"github.com/ProjectSerenity/firefly/kernel/gate"
	"github.com/ProjectSerenity/firefly/kernel/kfmt"
	"github.com/ProjectSerenity/firefly/kernel/mm"
	"github.com/ProjectSerenity/firefly/kernel/multiboot"
	"pgregory.net/rapid"
	"verifharness/vlib"
)

type c06Op struct {
	Kind string `json:"kind"` // zeroMap, cowPage, fault, gpf

	// zeroMap: try to map the shared zero frame through an entry point
	Entry string `json:"entry,omitempty"` // map mapTemp mapRegion identity pdtActive pdtInactive
	// region ops: the request ends Part bytes into the page of the zero frame (0: covers it wholly)
	Part  int    `json:"part,omitempty"`
	Lead  int    `json:"lead,omitempty"`  // region ops: pages before the zero frame inside the request
	P     [4]int `json:"p"`               // target page (pool indices)

	// cowPage: create a virtual page (host alias of a shared frame) and map it
	Shared int    `json:"shared,omitempty"` // 0 = zero frame, 1..2 = content-filled frames
	Flags  uint64 `json:"flags,omitempty"`  // leaf flags
	AtZero bool   `json:"atzero,omitempty"` // the virtual page is page 0 (host memory mapped at address 0, where the host allows it)

	// fault
	Page      int    `json:"page,omitempty"` // alias page index (mod count); -1 = pool page P
	Knock     [3]int `json:"knock"`          // per upper level: 1 = clear Present, 2 = clear RW, 3 = set User
	Off       uint64 `json:"off,omitempty"`
	Info      uint64 `json:"info,omitempty"`
	FailAlloc bool   `json:"failalloc,omitempty"`
	FailTemp  bool   `json:"failtemp,omitempty"`
}

type c06Case struct {
	FullInit  bool    `json:"fullinit"` // bring the vmm up through Init (else reserveZeroedFrame on the boot root)
	Ops       []c06Op `json:"ops"`
	Hi        uint64  `json:"hi,omitempty"`        // frames with upper-half physical names (vmMachine.hiMask)
	RootFlags uint64  `json:"rootflags,omitempty"` // extra bits on the boot root's recursive entry
}

type c06Stats struct {
	pageZero bool // virtual page 0 was one of the copy-on-write pages
	recoveredShared    bool // recoverable fault with >=2 pages sharing the source frame
	nonRecovAllPresent bool
	injected           bool
	zeroRWRejected     int
	remapped           bool // a page was mapped onto its shared frame a second time
}

type c06Alias struct {
	virt   uintptr
	shared int
}

type c06Discard struct{}

func (c06Discard) Write(p []byte) (int, error) { return len(p), nil }

var c06Sink io.Writer = c06Discard{}

func c06Run(c c06Case) (fail *vlib.Failure, rs c06Stats) {
	defer vlib.Guard("C06", c, nil)()
	m := vmNew()
	m.hiMask, m.rootExtra = c.Hi, uintptr(c.RootFlags)
	kfmt.SetOutputSink(c06Sink)
	defer kfmt.SetOutputSink(nil)
	defer func() { handleInterruptFn = gate.HandleInterrupt }()
	boot := m.newRoot()
	m.cr3 = boot.Address()

	handlers := map[gate.InterruptNumber]uintptr{}
	handleInterruptFn = func(n gate.InterruptNumber, _ uint8, h func(*gate.Registers)) {
		handlers[n] = reflect.ValueOf(h).Pointer()
	}
	var err *kernel.Error
	if c.FullInit {
		visitElfSectionsFn = func(multiboot.ElfSectionVisitor) {}
		m.lowNext = 1 // the kernel's own root: first frame Init allocates, later read through its physical address
		if pc := vlib.Catch(func() { err = Init(0xffff800000000000) }); pc.Panicked || err != nil {
			return vlib.Failf("vmm.Init failed: %v %v", err, pc), rs
		}
		if handlers[gate.PageFaultException] != reflect.ValueOf(pageFaultHandler).Pointer() || handlers[gate.GPFException] != reflect.ValueOf(generalProtectionFaultHandler).Pointer() {
			return vlib.Failf("vmm.Init did not install the page-fault and general-protection-fault handlers"), rs
		}
	} else {
		if pc := vlib.Catch(func() { err = reserveZeroedFrame() }); pc.Panicked || err != nil {
			return vlib.Failf("reserving the shared zero frame failed: %v %v", err, pc), rs
		}
	}
	m.lowNext = 0
	if m.cr3&vmHighBit != 0 {
		return nil, rs // (only on a tree that allocates its root differently) the machine cannot host this case
	}
	zero := ReservedZeroedFrame
	if !m.inArena(zero.Address()) {
		return vlib.Failf("the shared zero frame %#x was not obtained from the frame allocator", uintptr(zero)), rs
	}
	roots := []uintptr{m.cr3}
	// a second, inactive address space
	var other PageDirectoryTable
	otherFrame := m.newFrame()
	if pc := vlib.Catch(func() { err = other.Init(otherFrame) }); pc.Panicked || err != nil {
		return vlib.Failf("initialising the inactive address space failed: %v %v", err, pc), rs
	}
	if why := m.freshRoot(otherFrame); why != "" {
		return vlib.Failf("initialising the inactive address space: %s", why), rs
	}
	roots = append(roots, otherFrame.Address())
	activePDT := PageDirectoryTable{pdtFrame: mm.Frame(m.cr3 >> 12)}

	// shared source frames: 0 = the zero frame, 1..2 content-filled
	shared := []mm.Frame{zero}
	for i := 1; i <= 2; i++ {
		f := m.newFrame()
		b := m.frameBytes(f)
		for k := range b {
			b[k] = byte(k*7 + i*31)
		}
		shared = append(shared, f)
	}
	var aliases []c06Alias
	var everAliases []uintptr
	var everShared []int // the shared frame each page of everAliases was created for
	// pg names a page deterministically (alias pages have run-dependent host addresses)
	pg := func(page uint64) string {
		for k, v := range everAliases {
			if uint64(vmCanon(v)>>12) == page {
				return fmt.Sprintf("alias-page#%d", k)
			}
		}
		if a := uintptr(page) << 12; a >= m.base && a < m.base+vmArenaFrames*4096 {
			return "page@" + m.ff(page)
		}
		return fmt.Sprintf("%#x", page)
	}

	zeroIsZero := func() bool {
		for _, b := range m.frameBytes(zero) {
			if b != 0 {
				return false
			}
		}
		return true
	}
	invariant := func(when string) *vlib.Failure {
		for si, r := range roots {
			leaves, _, bogus := m.enumerate(r)
			if bogus != "" {
				return vlib.Failf("%s: address space %d: %s", when, si, bogus)
			}
			for p, l := range leaves {
				if l.Frame == uint64(zero) && l.Flags&uint64(FlagRW) != 0 {
					return vlib.Failf("%s: address space %d: page %s maps the shared zero frame writable (flags %#x)", when, si, pg(p), l.Flags)
				}
			}
		}
		if !zeroIsZero() {
			return vlib.Failf("%s: the shared zero frame is no longer all zero", when)
		}
		return nil
	}
	allLeaves := func() []map[uint64]vmLeaf {
		out := make([]map[uint64]vmLeaf, len(roots))
		for i, r := range roots {
			out[i], _, _ = m.enumerate(r)
		}
		return out
	}
	if f := invariant("after initialisation"); f != nil {
		return f, rs
	}

	for i, op := range c.Ops {
		when := fmt.Sprintf("op %d (%s)", i, op.Kind)
		m.flushedLeaf = nil
		m.flushed, m.allocs, m.failAt, m.failErr, m.handed, m.tempFail = nil, 0, 0, nil, nil, false
		switch op.Kind {
		case "zeroMap":
			page := vmPageOf(uintptr(op.P[0]), uintptr(op.P[1]), uintptr(op.P[2]), uintptr(op.P[3]))
			if page == 0 && m.pageZero {
				continue // page 0 is one of the alias pages of this case: its contents are tied to its shared frame
			}
			flags := PageTableEntryFlag(op.Flags | 1)
			before := allLeaves()
			var err *kernel.Error
			pc := vlib.Catch(func() {
				switch op.Entry {
				case "map":
					err = Map(mm.Page(page), zero, flags)
				case "mapTemp":
					_, err = MapTemporary(zero)
					flags |= FlagRW
				case "mapRegion":
					_, err = MapRegion(zero-mm.Frame(op.Lead), c06RegionSize(op), flags)
				case "identity":
					_, err = IdentityMapRegion(zero-mm.Frame(op.Lead), c06RegionSize(op), flags)
				case "pdtActive":
					err = activePDT.Map(mm.Page(page), zero, flags)
				case "pdtInactive":
					err = other.Map(mm.Page(page), zero, flags)
				}
			})
			if pc.Panicked {
				return vlib.Failf("%s via %s: %v", when, op.Entry, pc), rs
			}
			if flags&FlagRW != 0 {
				if err == nil {
					return vlib.Failf("%s: mapping the shared zero frame writable through %s (flags %#x) was accepted", when, op.Entry, uint64(flags)), rs
				}
				rs.zeroRWRejected++
				if op.Lead == 0 || (op.Entry != "mapRegion" && op.Entry != "identity") {
					after := allLeaves()
					for s := range before {
						if !reflect.DeepEqual(before[s], after[s]) {
							return vlib.Failf("%s: the rejected writable mapping of the zero frame through %s changed the translations of address space %d", when, op.Entry, s), rs
						}
					}
				}
			} else if err != nil {
				return vlib.Failf("%s: read-only mapping of the zero frame through %s failed: %s", when, op.Entry, err.Message), rs
			}
		case "cowPage", "recow":
			sh := op.Shared % len(shared)
			var v uintptr
			again := op.Kind == "recow" && len(everAliases) > 0
			if again {
				// map a page that was mapped before (and may own a private writable frame
				// since its fault) onto its shared frame again, as goruntime.sysMap does
				// when a region is mapped anew
				k := ((op.Page % len(everAliases)) + len(everAliases)) % len(everAliases)
				v, sh = everAliases[k], everShared[k]
				rs.remapped = true
			} else if op.AtZero && m.aliasAtZero(shared[sh]) {
				v = 0
				rs.pageZero = true
			} else {
				v = m.alias(shared[sh])
			}
			flags := PageTableEntryFlag(op.Flags)
			var err *kernel.Error
			if pc := vlib.Catch(func() { err = Map(mm.PageFromAddress(v), shared[sh], flags) }); pc.Panicked {
				return vlib.Failf("%s: %v", when, pc), rs
			}
			if sh == 0 && flags&FlagRW != 0 {
				if err == nil {
					return vlib.Failf("%s: Map of the shared zero frame with flags %#x (writable) was accepted", when, uint64(flags)), rs
				}
				rs.zeroRWRejected++
				continue
			}
			if err != nil {
				return vlib.Failf("%s: Map failed: %s", when, err.Message), rs
			}
			if again {
				for k := range aliases {
					if aliases[k].virt == v {
						aliases = append(aliases[:k], aliases[k+1:]...)
						break
					}
				}
				aliases = append(aliases, c06Alias{v, sh})
			} else {
				aliases = append(aliases, c06Alias{v, sh})
				everAliases = append(everAliases, v)
				everShared = append(everShared, sh)
			}
		case "gpf":
			var regs gate.Registers
			regs.Info = op.Info
			readCR2Fn = func() uint64 { return op.Off }
			if pc := vlib.Catch(func() { generalProtectionFaultHandler(&regs) }); !pc.Panicked {
				return vlib.Failf("%s: the general-protection-fault handler returned to the faulting code", when), rs
			}
		case "fault":
			var virt uintptr
			isAlias := op.Page >= 0 && len(aliases) > 0
			var al c06Alias
			if isAlias {
				al = aliases[op.Page%len(aliases)]
				virt = al.virt
			} else {
				virt = uintptr(vmPageOf(uintptr(op.P[0]), uintptr(op.P[1]), uintptr(op.P[2]), uintptr(op.P[3]))) << 12
			}
			// knock flags off / onto the upper levels (restored afterwards)
			_, ptrs := m.hwEntries(m.cr3, virt)
			type saved struct {
				p uintptr
				v uintptr
			}
			var restore []saved
			for lvl := 0; lvl < 3 && lvl < len(ptrs); lvl++ {
				p := (*uintptr)(unsafe.Pointer(ptrs[lvl]))
				old := *p
				switch op.Knock[lvl] {
				case 1:
					*p &^= uintptr(FlagPresent)
				case 2:
					*p &^= uintptr(FlagRW)
				case 3:
					*p |= uintptr(FlagUserAccessible)
				}
				if *p != old {
					restore = append(restore, saved{ptrs[lvl], old})
				}
				if *p&1 == 0 {
					break
				}
			}
			entries, _ := m.hwEntries(m.cr3, virt)
			allPresent := len(entries) == 4
			for _, e := range entries {
				if e&1 == 0 {
					allPresent = false
				}
			}
			recoverable := false
			var leaf uintptr
			if allPresent {
				leaf = entries[3]
				recoverable = leaf&uintptr(FlagRW) == 0 && leaf&uintptr(FlagCopyOnWrite) != 0
			}
			if recoverable && !isAlias {
				// the handler would copy from an address that is not simulated memory
				for _, s := range restore {
					*(*uintptr)(unsafe.Pointer(s.p)) = s.v
				}
				continue
			}
			inject := recoverable && (op.FailAlloc || op.FailTemp)
			if inject {
				rs.injected = true
				if op.FailAlloc {
					m.failAt = 1
				} else {
					m.tempFail = true
				}
			}
			var regs gate.Registers
			regs.Info = op.Info
			addr := virt + uintptr(op.Off&0xfff)
			readCR2Fn = func() uint64 { return uint64(addr) }
			before := allLeaves()
			var pageBefore, srcBefore []byte
			if isAlias {
				if virt == 0 {
					// Go refuses to dereference address 0 even where memory is mapped there; the
					// page shows the frame it aliases
					pageBefore = append([]byte(nil), m.frameBytes(shared[al.shared])...)
				} else {
					pageBefore = append([]byte(nil), (*[4096]byte)(unsafe.Pointer(virt))[:]...)
				}
				srcBefore = append([]byte(nil), m.frameBytes(shared[al.shared])...)
			}
			if isAlias {
				// While the handler runs the page shows whatever frame its entry refers to: when
				// the handler reaches for its temporary mapping (to make the copy), the alias
				// is pointed at the frame the MMU would translate the page to at that moment.
				m.onTemp = func() {
					if es, _ := m.hwEntries(m.cr3, virt); len(es) == 4 && es[3]&1 != 0 && m.inArena(es[3]&vmFrameMask) {
						m.realias(virt, mm.Frame((es[3]&vmFrameMask)>>12))
					}
				}
			}
			pc := vlib.CatchFault(func() { pageFaultHandler(&regs) })
			m.onTemp = nil
			if isAlias {
				m.realias(virt, shared[al.shared])
			}
			for _, s := range restore {
				*(*uintptr)(unsafe.Pointer(s.p)) = s.v
			}
			if !recoverable || inject {
				if allPresent && !recoverable {
					rs.nonRecovAllPresent = true
				}
				if !pc.Panicked {
					return vlib.Failf("%s on %s (info %d, leaf flags %#x, all levels present=%v, injected failure=%v): the page-fault handler returned and would resume the faulting code", when, pg(uint64(vmCanon(virt)>>12)), op.Info, leaf&^vmFrameMask, allPresent, inject), rs
				}
				break
			}
			if pc.Panicked {
				return vlib.Failf("%s: copy-on-write fault on a present read-only CoW page (leaf flags %#x) ended in %v", when, leaf&^vmFrameMask, pc), rs
			}
			// recovered: check the private copy
			after := allLeaves()
			page := uint64(vmCanon(virt) >> 12)
			nl, ok := after[0][page]
			if !ok {
				return vlib.Failf("%s: after the copy-on-write fault page %s is not mapped", when, pg(page)), rs
			}
			fresh := false
			for _, f := range m.handed {
				if uint64(f) == nl.Frame {
					fresh = true
				}
			}
			if !fresh {
				return vlib.Failf("%s: after the copy-on-write fault page %s maps frame %s which was not freshly allocated during the fault", when, pg(page), m.ff(nl.Frame)), rs
			}
			// the accessed and dirty bits (5, 6) are the processor's book-keeping, set again by the
			// next access: whether the handler carries them over or clears them is its business
			const c06StatusBits = uint64(1<<5 | 1<<6)
			wantFlags := (uint64(leaf&^vmFrameMask) | uint64(FlagRW)) &^ uint64(FlagCopyOnWrite)
			if nl.Flags&^c06StatusBits != wantFlags&^c06StatusBits {
				return vlib.Failf("%s: after the copy-on-write fault page %s has flags %#x, want %#x (writable, CoW cleared, permissions and attributes unchanged; accessed/dirty not compared)", when, pg(page), nl.Flags, wantFlags), rs
			}
			if !bytes.Equal(m.frameBytes(mm.Frame(nl.Frame)), pageBefore) {
				return vlib.Failf("%s: the private copy of page %s does not equal what the page showed before the fault", when, pg(page)), rs
			}
			if !bytes.Equal(m.frameBytes(shared[al.shared]), srcBefore) {
				return vlib.Failf("%s: the shared source frame changed during the copy-on-write fault", when), rs
			}
			for s := range before {
				for p, l := range before[s] {
					if s == 0 && p == page {
						continue
					}
					if after[s][p] != l {
						return vlib.Failf("%s: the fault on page %s changed the mapping of page %s in address space %d", when, pg(page), pg(p), s), rs
					}
				}
				for p := range after[s] {
					if _, ok := before[s][p]; !ok && !(s == 0 && p == page) {
						return vlib.Failf("%s: the fault on page %s created a mapping for page %s in address space %d", when, pg(page), pg(p), s), rs
					}
				}
			}
			flushed := false
			for _, a := range m.flushed {
				if uint64(vmCanon(a)>>12) == page {
					flushed = true
				}
			}
			if !flushed {
				return vlib.Failf("%s: the TLB entry of page %s was not invalidated after the copy-on-write fault", when, pg(page)), rs
			}
			if stale := m.staleAfterFlush(page); stale != "" {
				return vlib.Failf("%s: page %s: %s", when, pg(page), stale), rs
			}
			sharers := 0
			for _, a := range aliases {
				if a.shared == al.shared {
					sharers++
				}
			}
			if sharers >= 2 {
				rs.recoveredShared = true
			}
			// the page no longer shares the frame
			for k := range aliases {
				if aliases[k].virt == virt {
					aliases = append(aliases[:k], aliases[k+1:]...)
					break
				}
			}
		}
		if f := invariant("after " + when); f != nil {
			return f, rs
		}
	}
	return nil, rs
}

func c06GenOp(t *rapid.T) c06Op {
	op := c06Op{Kind: rapid.SampledFrom([]string{"zeroMap", "cowPage", "cowPage", "cowPage", "recow", "fault", "fault", "fault", "fault", "gpf"}).Draw(t, "kind")}
	op.P = [4]int{
		rapid.SampledFrom([]int{0, 1, 255, 256, 509}).Draw(t, "p4"),
		rapid.SampledFrom(c04Pn).Draw(t, "p3"),
		rapid.SampledFrom(c04Pn).Draw(t, "p2"),
		rapid.SampledFrom(c04Pn).Draw(t, "p1"),
	}
	switch op.Kind {
	case "zeroMap":
		op.Entry = rapid.SampledFrom([]string{"map", "mapTemp", "mapRegion", "identity", "pdtActive", "pdtInactive"}).Draw(t, "entry")
		op.Flags = c04GenFlags(t)
		op.Lead = rapid.IntRange(0, 2).Draw(t, "lead")
		op.Part = rapid.SampledFrom([]int{0, 0, 1, 100, 2048, 4095}).Draw(t, "part")
	case "cowPage", "recow":
		op.Page = rapid.IntRange(0, 12).Draw(t, "again")
		op.Shared = rapid.IntRange(0, 2).Draw(t, "shared")
		switch rapid.IntRange(0, 3).Draw(t, "flagclass") {
		case 0:
			op.Flags = c04GenFlags(t)
			if rapid.Bool().Draw(t, "notpresent") {
				op.Flags &^= 1
			}
		default:
			op.AtZero = op.Kind == "cowPage" && rapid.IntRange(0, 14).Draw(t, "atzero") == 0
			// the interesting class: present, read-only, copy-on-write, plus extras
			op.Flags = uint64(FlagPresent|FlagCopyOnWrite) | uint64(rapid.SampledFrom([]uint64{0, 1 << 63, 1 << 2, 1<<63 | 1<<2, 1 << 8}).Draw(t, "extra"))
		}
	case "fault":
		op.Page = rapid.IntRange(-1, 12).Draw(t, "page")
		if rapid.IntRange(0, 3).Draw(t, "knock") == 0 {
			lvl := rapid.IntRange(0, 2).Draw(t, "knocklevel")
			op.Knock[lvl] = rapid.IntRange(1, 3).Draw(t, "knockkind")
		}
		op.Off = uint64(rapid.IntRange(0, 4095).Draw(t, "off"))
		op.Info = rapid.SampledFrom([]uint64{0, 1, 2, 3, 3, 3, 4, 7, 8, 16, 0xffffffff}).Draw(t, "info")
		switch rapid.IntRange(0, 7).Draw(t, "inject") {
		case 0:
			op.FailAlloc = true
		case 1:
			op.FailTemp = true
		}
	case "gpf":
		op.Off = rapid.Uint64().Draw(t, "cr2")
		op.Info = rapid.Uint64Range(0, 64).Draw(t, "info")
	}
	return op
}

// c06RegionSize is the size of a region request whose last page - the one that falls on the zero
// frame - is covered wholly or only by its first op.Part bytes.
func c06RegionSize(op c06Op) uintptr {
	if op.Part > 0 && op.Part < 4096 {
		return uintptr(op.Lead)*4096 + uintptr(op.Part)
	}
	return uintptr(op.Lead+1) * 4096
}

func TestVerifC06(t *testing.T) {
	st := vlib.For("C06")
	defer vlib.Flush()
	defer vmRestore()
	rapid.Check(t, func(t *rapid.T) {
		var c c06Case
		c.FullInit = rapid.Bool().Draw(t, "fullinit")
		c.Hi, c.RootFlags = vmGenPhys(t)
		minOps := rapid.SampledFrom([]int{1, 1, 6, 16, 30}).Draw(t, "minops")
		c.Ops = rapid.SliceOfN(rapid.Custom(c06GenOp), minOps, vlib.Scale(40, 120)).Draw(t, "ops")
		fail, rs := c06Run(c)
		var labels []string
		if rs.recoveredShared {
			labels = append(labels, "recovered-fault-on-shared-frame")
		}
		if rs.nonRecovAllPresent {
			labels = append(labels, "non-recoverable-flags-all-levels-present")
		}
		if rs.injected {
			labels = append(labels, "injected-failure-during-cow")
		}
		nt := len(labels) > 0
		if rs.remapped {
			labels = append(labels, "page-mapped-onto-its-shared-frame-again")
		}
		if rs.pageZero {
			labels = append(labels, "virtual-page-0-is-a-copy-on-write-page")
		}
		if rs.zeroRWRejected > 0 {
			labels = append(labels, "writable-zero-frame-mapping-rejected")
		}
		st.Case(c, nt, labels...)
		vlib.Report(t, "C06", c, fail)
	})
}

func TestVerifC06Replay(t *testing.T) {
	defer vmRestore()
	var c c06Case
	ok, err := vlib.LoadReplay(&c)
	if !ok {
		t.Skip("no replay requested")
	}
	if err != nil {
		t.Fatalf("VERIF-HARNESS cannot load replay: %v", err)
	}
	fail, _ := c06Run(c)
	vlib.Report(t, "C06", c, fail)
}
