//go:build verif && go1.21

package vmm

// C07 — kernel virtual-region reservations never overlap and never wrap;
// region mapping maps exactly the pages needed.

import (
	"fmt"
	"math/big"
	"testing"
	"unsafe"

	"github.com/ProjectSerenity/firefly/kernel"
	"github.com/ProjectSerenity/firefly/kernel/mm"
	"github.com/ProjectSerenity/firefly/kernel/multiboot"
	"pgregory.net/rapid"
	"verifharness/vlib"
)

type c07Op struct {
	Kind   string `json:"kind"`            // reserve, mapRegion, identityMap, setupPDT (the kernel's page directory is built and activated between two requests, as at boot)
	Size   uint64 `json:"size"`            // absolute size ...
	Rel    bool   `json:"rel,omitempty"`   // ... or remaining space + Delta
	Delta  int64  `json:"delta,omitempty"` //
	Frame  uint64 `json:"frame,omitempty"`
	Flags  uint64 `json:"flags,omitempty"`
	FailAt int    `json:"failat,omitempty"` // fail the j-th call of the map seam (0 = never)
	// Nested (mapRegion only): while the request is being mapped - during the NestedAt-th call of
	// the map seam - another reservation of Nested bytes is served (mapping a page can need a new
	// page table, and the frame allocator may have to reserve address space to find one)
	Nested   uint64 `json:"nested,omitempty"`
	NestedAt int    `json:"nestedat,omitempty"`
}

type c07Case struct {
	Ops []c07Op `json:"ops"`
}

type c07Stats struct {
	okReservations int
	pdtBetween     bool // the page directory was set up after one reservation and before another
	nested         bool
	nearRemaining  bool
	overflowBand   bool
}

type c07Region struct{ start, end uintptr } // [start, end)

type c07Call struct {
	page, frame, flags uint64
}

var c07ErrMap = &kernel.Error{Module: "verif", Message: "injected map failure"}

const c07PageBudget = 1 << 20

func c07Run(c c07Case) (*vlib.Failure, c07Stats) {
	defer vlib.Guard("C07", c, nil)()
	var rs c07Stats
	defer vmRestore()
	vmRestore()
	var calls []c07Call
	failAt := 0
	// limit: the number of map calls after which the seam refuses to go on. It
	// is set per operation to more than the operation can legitimately need, so
	// it only ever stops a loop that maps pages the request does not cover.
	limit, runaway := 0, false
	var (
		nestedSize               uint64
		nestedAt                 int
		nestedDone               bool
		nestedAddr, nestedBefore uintptr
		nestedErr                *kernel.Error
	)
	mapFn = func(p mm.Page, f mm.Frame, fl PageTableEntryFlag) *kernel.Error {
		if len(calls) >= limit {
			runaway = true
			return c07ErrMap
		}
		calls = append(calls, c07Call{uint64(p), uint64(f), uint64(fl)})
		if failAt != 0 && len(calls) == failAt {
			return c07ErrMap
		}
		if nestedSize != 0 && len(calls) == nestedAt {
			nestedDone = true
			nestedBefore = earlyReserveLastUsed
			nestedAddr, nestedErr = EarlyReserveRegion(uintptr(nestedSize))
		}
		return nil
	}
	var regions []c07Region
	two64 := new(big.Int).Lsh(big.NewInt(1), 64)
	_ = two64

	for i, op := range c.Ops {
		when := fmt.Sprintf("op %d (%s)", i, op.Kind)
		cursor := earlyReserveLastUsed
		size := op.Size
		if op.Rel {
			size = uint64(int64(cursor) + op.Delta)
			rs.nearRemaining = true
		}
		if size >= ^uint64(0)-4094 {
			rs.overflowBand = true
		}
		// pages needed, in arbitrary precision
		bsize := new(big.Int).SetUint64(size)
		pages := new(big.Int).Add(bsize, big.NewInt(4095))
		pages.Rsh(pages, 12)
		rounded := new(big.Int).Lsh(pages, 12)
		fits := rounded.Cmp(new(big.Int).SetUint64(uint64(cursor))) <= 0

		calls = nil
		failAt = op.FailAt
		nestedSize, nestedAt, nestedDone = 0, 0, false
		if op.Kind == "mapRegion" && op.FailAt == 0 {
			nestedSize, nestedAt = op.Nested, op.NestedAt
		}
		switch op.Kind {
		case "setupPDT":
			// The boot order: something is reserved, vmm builds and activates the kernel's page directory
			// (which carries the reserved window over, page by page), more is reserved. The call is no
			// request: whatever it does to the cursor is judged by the requests that follow (round 21, C07-u).
			if uint64(tempMappingAddr-cursor)>>12 > 96 || cursor > tempMappingAddr {
				continue // only while the window to carry over is small
			}
			limit, runaway, failAt, nestedSize = 1<<12, false, 0, 0
			buf := make([]byte, 2*mm.PageSize)
			host := (uintptr(unsafe.Pointer(&buf[0])) + mm.PageSize - 1) &^ (mm.PageSize - 1)
			sv := struct {
				a func() uintptr
				s func(uintptr)
				t func(uintptr) (uintptr, *kernel.Error)
				u func(mm.Page) *kernel.Error
				m func(mm.Frame) (mm.Page, *kernel.Error)
				v func(multiboot.ElfSectionVisitor)
			}{activePDTFn, switchPDTFn, translateFn, unmapFn, mapTemporaryFn, visitElfSectionsFn}
			mm.SetFrameAllocator(func() (mm.Frame, *kernel.Error) { return mm.Frame(host >> mm.PageShift), nil })
			activePDTFn = func() uintptr { return host }
			switchPDTFn = func(uintptr) {}
			translateFn = func(uintptr) (uintptr, *kernel.Error) { return 0xbadf00d000, nil }
			unmapFn = func(mm.Page) *kernel.Error { return nil }
			mapTemporaryFn = func(f mm.Frame) (mm.Page, *kernel.Error) { return mm.Page(f), nil }
			visitElfSectionsFn = func(multiboot.ElfSectionVisitor) {}
			var err *kernel.Error
			pc := vlib.Catch(func() { err = setupPDTForKernel(0) })
			activePDTFn, switchPDTFn, translateFn, unmapFn, mapTemporaryFn, visitElfSectionsFn = sv.a, sv.s, sv.t, sv.u, sv.m, sv.v
			mm.SetFrameAllocator(nil)
			_ = buf
			if pc.Panicked {
				return vlib.Failf("%s: setupPDTForKernel with %d reserved pages to carry over: %v", when, uint64(tempMappingAddr-cursor)>>12, pc), rs
			}
			if err != nil {
				continue
			}
			if now := earlyReserveLastUsed; now < cursor {
				// it reserved something for itself: a region like any other
				regions = append(regions, c07Region{now, cursor})
			}
			if len(regions) > 0 {
				rs.pdtBetween = true
			}
		case "reserve":
			var addr uintptr
			var err *kernel.Error
			if pc := vlib.Catch(func() { addr, err = EarlyReserveRegion(uintptr(size)) }); pc.Panicked {
				return vlib.Failf("%s: EarlyReserveRegion(%#x) %v", when, size, pc), rs
			}
			if err != nil {
				if earlyReserveLastUsed != cursor {
					return vlib.Failf("%s: the failed reservation of %#x bytes moved the reservation cursor (%#x -> %#x)", when, size, cursor, earlyReserveLastUsed), rs
				}
				if fits {
					return vlib.Failf("%s: reservation of %#x bytes failed (%s) although %#x bytes are left", when, size, err.Message, cursor), rs
				}
				continue
			}
			if !fits {
				return vlib.Failf("%s: reservation of %#x bytes succeeded (address %#x) although only %#x bytes are left", when, size, addr, cursor), rs
			}
			if f := c07CheckRegion(when, addr, size, cursor, &regions); f != nil {
				return f, rs
			}
			regions = append(regions, c07Region{addr, cursor})
			rs.okReservations++
		case "mapRegion", "identityMap":
			tooMany := pages.Cmp(big.NewInt(c07PageBudget)) > 0
			if tooMany {
				failAt = 1 // a correct implementation now has to report an error
			}
			limit, runaway = 8, false
			if !tooMany {
				limit = int(pages.Uint64()) + 8
			}
			var page mm.Page
			var err *kernel.Error
			pc := vlib.Catch(func() {
				if op.Kind == "mapRegion" {
					page, err = MapRegion(mm.Frame(op.Frame), uintptr(size), PageTableEntryFlag(op.Flags))
				} else {
					page, err = IdentityMapRegion(mm.Frame(op.Frame), uintptr(size), PageTableEntryFlag(op.Flags))
				}
			})
			if pc.Panicked {
				return vlib.Failf("%s: size %#x: %v", when, size, pc), rs
			}
			if runaway {
				return vlib.Failf("%s: size %#x needs %s pages, but the operation went on mapping after %d map calls (first page %#x; stopped by the harness)", when, size, pages.String(), len(calls), calls[0].page), rs
			}
			if earlyReserveLastUsed > cursor {
				return vlib.Failf("%s: the reservation cursor moved up (%#x -> %#x)", when, cursor, earlyReserveLastUsed), rs
			}
			if op.Kind == "mapRegion" && !fits {
				if err == nil {
					return vlib.Failf("%s: MapRegion of %#x bytes succeeded although only %#x bytes of address space are left", when, size, cursor), rs
				}
				if earlyReserveLastUsed != cursor {
					return vlib.Failf("%s: failed MapRegion of %#x bytes moved the reservation cursor", when, size), rs
				}
				continue
			}
			n := pages.Uint64()
			if tooMany || (failAt != 0 && uint64(failAt) <= n) {
				if err == nil {
					return vlib.Failf("%s: size %#x needs %s pages and the map seam failed at call %d, but the operation reported success after %d map calls", when, size, pages.String(), failAt, len(calls)), rs
				}
				if op.Kind == "mapRegion" && earlyReserveLastUsed != cursor {
					regions = append(regions, c07Region{earlyReserveLastUsed, cursor})
				}
				continue
			}
			if err != nil {
				return vlib.Failf("%s: size %#x failed: %s", when, size, err.Message), rs
			}
			first := op.Frame // identity: page number == frame number
			if nestedDone {
				// the request's own region is the one reserved first: it starts where the cursor stood
				// while the request was being mapped (below the old cursor - how far below, beyond the
				// rounded size, is the reservation code's business)
				rs.nested = true
				addr := nestedBefore
				if addr&0xfff != 0 || addr > cursor || uint64(cursor-addr) < size {
					return vlib.Failf("%s: while the %d-page request was being mapped the reservation cursor was %#x: not a page-aligned start of a region of at least %#x bytes below the previous cursor %#x", when, n, addr, size, cursor), rs
				}
				end := addr
				if nestedErr == nil {
					nb := (nestedSize + 4095) &^ 4095
					if nestedAddr&0xfff != 0 || uint64(nestedAddr)+nb > uint64(addr) || nestedAddr > addr || earlyReserveLastUsed != nestedAddr {
						return vlib.Failf("%s: the reservation of %#x bytes served while the request was being mapped got [%#x,+%#x) and left the cursor at %#x; the request's own region is [%#x,%#x)", when, nestedSize, nestedAddr, nb, earlyReserveLastUsed, addr, cursor), rs
					}
					end = nestedAddr
				} else if earlyReserveLastUsed != addr {
					return vlib.Failf("%s: a refused reservation (served while the request was being mapped) moved the cursor to %#x", when, earlyReserveLastUsed), rs
				}
				regions = append(regions, c07Region{addr, cursor})
				if end != addr {
					regions = append(regions, c07Region{end, addr})
				}
				rs.okReservations++
				first = uint64(addr >> 12)
				if uint64(page) != first {
					return vlib.Failf("%s: returned page %#x; the region reserved for this request is [%#x,%#x) (another reservation, of %#x bytes, was served while it was being mapped and got [%#x,%#x))", when, uint64(page), addr, cursor, nestedSize, end, addr), rs
				}
			} else if op.Kind == "mapRegion" {
				addr := earlyReserveLastUsed
				if f := c07CheckRegion(when, addr, size, cursor, &regions); f != nil {
					return f, rs
				}
				regions = append(regions, c07Region{addr, cursor})
				rs.okReservations++
				first = uint64(addr >> 12)
			}
			if uint64(page) != first {
				return vlib.Failf("%s: returned page %#x, the region starts at page %#x", when, uint64(page), first), rs
			}
			if uint64(len(calls)) != n {
				return vlib.Failf("%s: size %#x needs %d pages, %d were mapped", when, size, n, len(calls)), rs
			}
			// every page of the region once, page k of the region to frame k of the range (in
			// which order the pages are mapped is the implementation's business)
			seen := make(map[uint64]bool, len(calls))
			for i, cl := range calls {
				k := cl.page - first
				if cl.page < first || k >= n || seen[k] || cl.frame != op.Frame+k || cl.flags != op.Flags {
					return vlib.Failf("%s: mapping call #%d is page %#x -> frame %#x flags %#x; the region is pages [%#x,+%d), page k belongs to frame %#x+k with flags %#x, each page once (mapped twice: %v)", when, i, cl.page, cl.frame, cl.flags, first, n, op.Frame, op.Flags, seen[k]), rs
				}
				seen[k] = true
			}
		}
	}
	return nil, rs
}

func c07CheckRegion(when string, addr uintptr, size uint64, prevCursor uintptr, regions *[]c07Region) *vlib.Failure {
	if addr&0xfff != 0 {
		return vlib.Failf("%s: reserved address %#x is not page aligned", when, addr)
	}
	if addr > prevCursor {
		return vlib.Failf("%s: reserved address %#x lies above the previous reservation cursor %#x", when, addr, prevCursor)
	}
	if uint64(prevCursor-addr) < size {
		return vlib.Failf("%s: reserved region [%#x,%#x) is smaller than the requested %#x bytes", when, addr, prevCursor, size)
	}
	if prevCursor > tempMappingAddr {
		return vlib.Failf("%s: region [%#x,%#x) reaches above the temporary-mapping page", when, addr, prevCursor)
	}
	if earlyReserveLastUsed != addr {
		return vlib.Failf("%s: after reserving [%#x,%#x) the cursor is %#x", when, addr, prevCursor, earlyReserveLastUsed)
	}
	for _, r := range *regions {
		if addr < r.end && r.start < prevCursor && prevCursor != addr {
			return vlib.Failf("%s: region [%#x,%#x) overlaps the earlier region [%#x,%#x)", when, addr, prevCursor, r.start, r.end)
		}
		if prevCursor > r.start {
			return vlib.Failf("%s: region [%#x,%#x) does not lie entirely below the earlier region [%#x,%#x)", when, addr, prevCursor, r.start, r.end)
		}
	}
	return nil
}

func c07GenOp(t *rapid.T) c07Op {
	op := c07Op{Kind: rapid.SampledFrom([]string{"reserve", "reserve", "reserve", "mapRegion", "mapRegion", "identityMap"}).Draw(t, "kind")}
	if rapid.IntRange(0, 11).Draw(t, "pdt") == 0 {
		return c07Op{Kind: "setupPDT"}
	}
	switch rapid.IntRange(0, 9).Draw(t, "sizeclass") {
	case 0:
		op.Size = rapid.SampledFrom([]uint64{0, 1, 4095, 4096, 4097}).Draw(t, "small")
	case 1, 2, 3:
		op.Size = uint64(rapid.IntRange(0, 40).Draw(t, "pages"))*4096 + rapid.SampledFrom([]uint64{0, 0, 1, 2048, 4095}).Draw(t, "tail")
	case 4:
		op.Size = rapid.SampledFrom([]uint64{1 << 63, 1<<64 - 4096, 1<<64 - 4095, 1<<64 - 4094, 1<<64 - 2, 1<<64 - 1, 1 << 62, 1 << 47}).Draw(t, "huge")
	case 5:
		op.Size = rapid.Uint64().Draw(t, "any")
	case 6, 7:
		op.Rel = true
		op.Delta = rapid.SampledFrom([]int64{-4097, -4096, -4095, -1, 0, 1, 4095, 4096, 4097}).Draw(t, "delta")
	default:
		// a large chunk: moves the cursor down a lot so that later requests hit the end
		op.Size = rapid.SampledFrom([]uint64{1 << 40, 1 << 46, 0xffffff7000000000, 0x7fffff8000000000}).Draw(t, "chunk")
	}
	if op.Kind != "reserve" {
		op.Frame = rapid.Uint64Range(0, 1<<40).Draw(t, "frame")
		op.Flags = c04GenFlags(t)
		if rapid.IntRange(0, 4).Draw(t, "inject") == 0 {
			op.FailAt = rapid.IntRange(1, 5).Draw(t, "failat")
		} else if op.Kind == "mapRegion" && rapid.IntRange(0, 3).Draw(t, "nested") == 0 {
			op.Nested = rapid.SampledFrom([]uint64{1, 4096, 4097, 8192, 1 << 20, 1<<64 - 4096}).Draw(t, "nestedsize")
			op.NestedAt = rapid.IntRange(1, 3).Draw(t, "nestedat")
		}
	}
	return op
}

func TestVerifC07(t *testing.T) {
	st := vlib.For("C07")
	defer vlib.Flush()
	rapid.Check(t, func(t *rapid.T) {
		var c c07Case
		minOps := rapid.SampledFrom([]int{1, 1, 4, 10, 25}).Draw(t, "minops")
		c.Ops = rapid.SliceOfN(rapid.Custom(c07GenOp), minOps, 40).Draw(t, "ops")
		fail, rs := c07Run(c)
		var labels []string
		if rs.okReservations >= 3 {
			labels = append(labels, ">=3-successful-reservations")
		}
		if rs.nearRemaining {
			labels = append(labels, "size-within-a-page-of-remaining-space")
		}
		if rs.pdtBetween {
			labels = append(labels, "page-directory-set-up-after-a-reservation")
		}
		if rs.overflowBand {
			labels = append(labels, "size-in-overflow-band")
		}
		if rs.nested {
			labels = append(labels, "reservation-served-while-a-region-is-being-mapped")
		}
		st.Case(c, len(labels) > 0, labels...)
		vlib.Report(t, "C07", c, fail)
	})
}

func TestVerifC07Replay(t *testing.T) {
	var c c07Case
	ok, err := vlib.LoadReplay(&c)
	if !ok {
		t.Skip("no replay requested")
	}
	if err != nil {
		t.Fatalf("VERIF-HARNESS cannot load replay: %v", err)
	}
	fail, _ := c07Run(c)
	vlib.Report(t, "C07", c, fail)
}

// ---------------------------------------------------------------------------
// C07 in real page tables: "mapping a physical range through such a
// reservation maps exactly the pages needed" is also checked where it finally
// matters - in the tables the MMU walks. The histories are region mappings
// (plus a few single-page mappings that create and share upper-level tables)
// run by the C04 machine: real Map on junk-filled frames, software MMU; after
// every operation the set of translations must be exactly the model's, so a
// region mapping that leaves any other page mapped is seen.

func TestVerifC07Tables(t *testing.T) {
	st := vlib.For("C07")
	defer vlib.Flush()
	defer vmRestore()
	rapid.Check(t, func(t *rapid.T) {
		c := c04Case{Spaces: 1}
		c.Hi, c.RootFlags = vmGenPhys(t)
		n := rapid.IntRange(1, 14).Draw(t, "nops")
		for i := 0; i < n; i++ {
			op := c04GenOp(t, 1)
			switch op.Kind {
			case "mapRegion", "identityMap", "translate", "map", "unmap":
			default:
				op = c04Op{Kind: "mapRegion", Frame: uint64(rapid.IntRange(0, 1<<20).Draw(t, "frame")), Flags: c04GenFlags(t),
					Size: rapid.SampledFrom([]uint64{1, 4096, 4097, 3 * 4096, 5*4096 - 1}).Draw(t, "size")}
			}
			c.Ops = append(c.Ops, op)
		}
		fail, rs := c04Run(c)
		regions := 0
		for _, op := range c.Ops {
			if op.Kind == "mapRegion" || op.Kind == "identityMap" {
				regions++
			}
		}
		labels := []string{"real-page-tables"}
		if rs.refusedRegion {
			labels = append(labels, "real-page-tables-refused-region")
		}
		st.Case(c, regions >= 2, labels...)
		vlib.Report(t, "C07", c, fail)
	})
}

func TestVerifC07TablesReplay(t *testing.T) {
	var c c04Case
	ok, err := vlib.LoadReplay(&c)
	if !ok {
		t.Skip("no replay requested")
	}
	if err != nil {
		t.Fatalf("VERIF-HARNESS cannot load replay: %v", err)
	}
	fail, _ := c04Run(c)
	vlib.Report(t, "C07", c, fail)
}
