//go:build verif && go1.21

package pmm

// C02 — early-boot allocator: ascending unique frames, never kernel or
// reserved RAM; replay from a reset state recovers the same frames.

import (
	"fmt"
	"testing"

	"github.com/ProjectSerenity/firefly/kernel"
	"github.com/ProjectSerenity/firefly/kernel/mm"
	"pgregory.net/rapid"
	"verifharness/vlib"
)

type c02Stats struct {
	allocs      int
	jumpedKern  bool
	jumpedReg   bool
	exhausted   bool
	skipped     int
	handover    bool
	mapFailed   bool
	retried     bool
}

func c02Run(c pmCase) (*vlib.Failure, c02Stats) {
	defer vlib.Guard("C02", c, nil)()
	var rs c02Stats
	env := pmSetup(c)
	defer env.close()

	avail := c.availFrames()
	availSet := make(map[uint64]bool, len(avail))
	for _, f := range avail {
		availSet[f] = true
	}
	kf0, kf1 := c.kernelFrames()
	legit := 0
	for _, f := range avail {
		if f < kf0 || f > kf1 {
			legit++
		}
	}

	bootMemAllocator.init(uintptr(c.KStart), uintptr(c.KEnd))
	n := c.Early
	if n > legit+5 {
		n = legit + 5
	}
	var got []uint64
	oom := false
	for i := 0; i < n; i++ {
		var f mm.Frame
		var err *kernel.Error
		pc := vlib.CatchFault(func() { f, err = earlyAllocFrame() })
		if pc.Panicked {
			return vlib.Failf("early allocation #%d crashed: %v", i, pc), rs
		}
		if err != nil {
			oom = true
			rs.exhausted = true
			continue
		}
		fn := uint64(f)
		if oom {
			return vlib.Failf("early allocation #%d returned frame %#x after out-of-memory had been reported", i, fn), rs
		}
		switch {
		case !availSet[fn]:
			return vlib.Failf("early allocation #%d returned frame %#x which does not lie wholly inside an available region", i, fn), rs
		case fn >= kf0 && fn <= kf1:
			return vlib.Failf("early allocation #%d returned frame %#x inside the kernel image [%#x,%#x]", i, fn, kf0, kf1), rs
		case len(got) > 0 && fn <= got[len(got)-1]:
			return vlib.Failf("early allocation #%d returned frame %#x, not above the previous frame %#x", i, fn, got[len(got)-1]), rs
		}
		if len(got) > 0 {
			prev := got[len(got)-1]
			if prev < kf0 && fn > kf1 {
				rs.jumpedKern = true
			}
			if fn != prev+1 && !(prev < kf0 && fn > kf1) {
				rs.jumpedReg = true
			}
		}
		got = append(got, fn)
	}
	rs.allocs = len(got)
	if oom {
		// "when no such frame remains it reports out-of-memory": an
		// out-of-memory report while a legitimate frame above the last one
		// exists is tolerated only as the documented frame-skipping quirk
		// (DESIGN.md C02); it is counted, not asserted.
		last := uint64(0)
		if len(got) > 0 {
			last = got[len(got)-1]
		}
		for _, f := range avail {
			if (f < kf0 || f > kf1) && (len(got) == 0 || f > last) {
				rs.skipped++
			}
		}
	}

	// replay from a reset state: same frames, same order
	count := bootMemAllocator.allocCount
	if count != uint64(len(got)) {
		return vlib.Failf("the allocator counted %d allocations, %d frames were returned", count, len(got)), rs
	}
	bootMemAllocator.allocCount, bootMemAllocator.lastAllocFrame = 0, 0
	for i := 0; i < len(got); i++ {
		var f mm.Frame
		var err *kernel.Error
		pc := vlib.CatchFault(func() { f, err = earlyAllocFrame() })
		if pc.Panicked {
			return vlib.Failf("replayed early allocation #%d crashed: %v", i, pc), rs
		}
		if err != nil || uint64(f) != got[i] {
			return vlib.Failf("replay from a reset state: allocation #%d gave (%#x, %v), the first run gave %#x", i, uint64(f), err, got[i]), rs
		}
	}

	// real hand-over: the main allocator initialises on top of the n early
	// allocations (making a few more of its own) and must end up with exactly
	// kernel + early frames reserved.
	if !oom && c.MapFail != 0 {
		// the hand-over fails half-way (the map seam reports an error); boot goes on
		mm.SetFrameAllocator(earlyAllocFrame)
		var initErr *kernel.Error
		pc := vlib.CatchFault(func() { initErr = bitmapAllocator.init() })
		if pc.Panicked {
			return nil, rs // decided by C03
		}
		if initErr != pmErrMapFail {
			return nil, rs // the failure did not fire (fewer map calls), or another error came first
		}
		rs.mapFailed = true
		retried := false
		if c.RetryInit {
			// boot tries the hand-over again from the top: pmm.Init, with a fresh main allocator
			bitmapAllocator = BitmapAllocator{}
			env.reserved, env.mapped, env.reserveSz = nil, nil, nil
			pc := vlib.CatchFault(func() { initErr = Init(uintptr(c.KStart), uintptr(c.KEnd)) })
			if pc.Panicked {
				return nil, rs // decided by C03
			}
			retried = initErr == nil
			rs.retried = true
		}
		seq := append(append([]uint64(nil), got...), env.early...)
		for i := 0; i < 3 && !retried; i++ {
			var f mm.Frame
			var err *kernel.Error
			if pc := vlib.CatchFault(func() { f, err = earlyAllocFrame() }); pc.Panicked {
				return vlib.Failf("early allocation after the failed hand-over crashed: %v", pc), rs
			}
			if err != nil {
				break
			}
			seq = append(seq, uint64(f))
		}
		for i := 1; i < len(seq); i++ {
			if seq[i] <= seq[i-1] {
				return vlib.Failf("after a hand-over that failed (map seam call %d of the hand-over reported an error) the early allocator returned frame %#x as allocation #%d, not above frame %#x returned before (all frames so far: %s)", c.MapFail, seq[i], i, seq[i-1], clipFrames(seq)), rs
			}
		}
		for i, fn := range seq {
			if !availSet[fn] || (fn >= kf0 && fn <= kf1) {
				return vlib.Failf("early allocation #%d (around a failed hand-over) returned frame %#x, which is not usable RAM outside the kernel image", i, fn), rs
			}
		}
		if count := bootMemAllocator.allocCount; count != uint64(len(seq)) {
			return vlib.Failf("after a failed hand-over the early allocator counts %d allocations, %d frames were returned (%s): the frames consumed during boot cannot be recovered", count, len(seq), clipFrames(seq)), rs
		}
		return nil, rs
	}
	if !oom {
		var initErr *kernel.Error
		pc := vlib.CatchFault(func() { initErr = bitmapAllocator.init() })
		if pc.Panicked || initErr != nil {
			return nil, rs // decided by C03
		}
		rs.handover = true
		early := map[uint64]bool{}
		for _, f := range got {
			early[f] = true
		}
		for _, f := range env.early {
			early[f] = true
		}
		for _, f := range avail {
			pi := bitmapAllocator.poolForFrame(mm.Frame(f))
			if pi < 0 {
				return nil, rs // C03
			}
			p := &bitmapAllocator.pools[pi]
			rel := f - uint64(p.startFrame)
			if int(rel>>6) >= len(p.freeBitmap) {
				return nil, rs // C03 (bitmap too short)
			}
			isReserved := p.freeBitmap[rel>>6]&(1<<(63-(rel&63))) != 0
			wantReserved := early[f] || (f >= kf0 && f <= kf1)
			if isReserved != wantReserved {
				return vlib.Failf("hand-over: frame %#x reserved=%v in the main allocator, want %v (early=%v kernel=%v); early frames %v",
					f, isReserved, wantReserved, early[f], f >= kf0 && f <= kf1, clipFrames(got)), rs
			}
		}
	}
	return nil, rs
}

func clipFrames(l []uint64) string {
	if len(l) > 12 {
		return fmt.Sprintf("%#x … (%d frames)", l[:12], len(l))
	}
	return fmt.Sprintf("%#x", l)
}

func TestVerifC02(t *testing.T) {
	st := vlib.For("C02")
	defer vlib.Flush()
	rapid.Check(t, func(t *rapid.T) {
		var c pmCase
		c.Regions = pmGenRegions(t, 8, false)
		c.EntrySize = pmGenEntrySize(t)
		if rapid.IntRange(0, 5).Draw(t, "mapfail") == 0 {
			c.MapFail = rapid.IntRange(1, 3).Draw(t, "mapfailat")
			c.RetryInit = rapid.Bool().Draw(t, "retryinit")
			c.Tables = rapid.IntRange(0, 3).Draw(t, "mapfailtables")
		}
		ks, ke, where, ok := pmGenKernel(t, c.Regions)
		if !ok {
			st.Case(c, false, "no-available-region-with-a-whole-frame")
			return
		}
		c.KStart, c.KEnd = ks, ke
		total := len(c.availFrames())
		switch rapid.IntRange(0, 3).Draw(t, "earlyclass") {
		case 0:
			c.Early = total + 5 // to exhaustion and beyond
		case 1:
			c.Early = rapid.IntRange(0, 8).Draw(t, "early")
		default:
			c.Early = rapid.IntRange(0, total+5).Draw(t, "early")
		}
		fail, rs := c02Run(c)
		labels := pmLabels(c, where)
		if rs.jumpedKern {
			labels = append(labels, "jumped-over-kernel")
		}
		if rs.jumpedReg {
			labels = append(labels, "jumped-to-next-region")
		}
		if rs.exhausted {
			labels = append(labels, "exhausted")
		}
		if rs.mapFailed {
			labels = append(labels, "hand-over-failed-half-way,-boot-went-on")
		}
		if rs.retried {
			labels = append(labels, "hand-over-failed-half-way,-then-tried-again-from-the-top")
		}
		if rs.handover {
			labels = append(labels, "hand-over-checked")
		}
		if rs.skipped > 0 {
			labels = append(labels, "oom-with-skipped-frames(statistic)")
			st.Add("frames_skipped_at_oom", int64(rs.skipped))
		}
		avail := 0
		for _, r := range c.Regions {
			if _, _, w := r.whole(); w && r.Typ == 1 {
				avail++
			}
		}
		st.Case(c, avail >= 2 && (rs.jumpedKern || rs.jumpedReg) && rs.allocs >= 2, labels...)
		vlib.Report(t, "C02", c, fail)
	})
}

func TestVerifC02Replay(t *testing.T) {
	var c pmCase
	ok, err := vlib.LoadReplay(&c)
	if !ok {
		t.Skip("no replay requested")
	}
	if err != nil {
		t.Fatalf("VERIF-HARNESS cannot load replay: %v", err)
	}
	fail, _ := c02Run(c)
	vlib.Report(t, "C02", c, fail)
}
