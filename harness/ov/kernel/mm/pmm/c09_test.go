//go:build verif && go1.21

package pmm

// C09 — concurrent frame allocation and freeing never duplicates or loses a
// frame, never blocks forever, and the totals add up afterwards.

import (
	"fmt"
	"runtime"
	gosync "sync"
	"sync/atomic"
	"testing"
	"time"

	"github.com/ProjectSerenity/firefly/kernel"
	"github.com/ProjectSerenity/firefly/kernel/mm"
	ksync "github.com/ProjectSerenity/firefly/kernel/sync"
	"pgregory.net/rapid"
	"verifharness/vlib"
)

type c09Prog struct {
	Iters    int    `json:"iters"`
	AllocPct int    `json:"allocpct"` // chance (percent) that a step allocates rather than frees
	BogusPct int    `json:"boguspct"` // chance that a free step frees an unmanaged frame instead
	HoldMax  int    `json:"holdmax"`  // frees are forced once this many frames are held
	Salt     uint32 `json:"salt"`
}

type c09Case struct {
	Map   pmCase    `json:"map"`
	Progs []c09Prog `json:"progs"`
	// Age: the allocator has been in use for a while - that many allocate/free pairs by a
	// single caller - before the concurrent phase starts (counters inside the allocator or its
	// lock are near whatever boundary they have)
	Age int `json:"age,omitempty"`
	// PreHold: that many frames are allocated by a single caller before the concurrent phase and
	// kept for all of it (the lowest frames of a big pool are in long-term use: every call of the
	// concurrent phase has to look through dozens of full bitmap words first)
	PreHold int `json:"prehold,omitempty"`
}

const c09Patience = 8 * time.Second

type c09Stats struct {
	ooms, contention, allocs, frees, refusedFrees int64
	skipped                          bool
}

func c09Run(c c09Case) (fail *vlib.Failure, rs c09Stats) {
	old := ksync.VerifSetYieldFn(runtime.Gosched)
	defer ksync.VerifSetYieldFn(old)
	env := pmSetup(c.Map)
	defer env.close()

	var initErr *kernel.Error
	if pc := vlib.CatchFault(func() { initErr = Init(uintptr(c.Map.KStart), uintptr(c.Map.KEnd)) }); pc.Panicked || initErr != nil {
		rs.skipped = true // decided by C03
		return nil, rs
	}
	alloc := &bitmapAllocator
	avail := c.Map.availFrames()
	index := make(map[uint64]int, len(avail))
	for i, f := range avail {
		index[f] = i
	}
	kf0, kf1 := c.Map.kernelFrames()
	early := map[uint64]bool{}
	for _, f := range env.early {
		early[f] = true
	}
	usable := 0
	for _, f := range avail {
		if (f < kf0 || f > kf1) && !early[f] {
			usable++
		}
	}
	for i := 0; i < c.Age && usable > 0; i++ {
		f, err := alloc.AllocFrame()
		if err != nil {
			return vlib.Failf("allocate/free pair %d of the single-caller warm-up: AllocFrame failed (%s) although %d frames are usable", i, err.Message, usable), rs
		}
		if err := alloc.FreeFrame(f); err != nil {
			return vlib.Failf("allocate/free pair %d of the single-caller warm-up: FreeFrame(%#x) failed: %s", i, uintptr(f), err.Message), rs
		}
	}
	preHeld := map[uint64]bool{}
	for i := 0; i < c.PreHold && len(preHeld) < usable; i++ {
		f, err := alloc.AllocFrame()
		if err != nil {
			return vlib.Failf("single caller, allocation %d of %d before the concurrent phase: AllocFrame failed (%s) although %d frames are usable", i, c.PreHold, err.Message, usable), rs
		}
		if _, ok := index[uint64(f)]; !ok || preHeld[uint64(f)] || early[uint64(f)] || (uint64(f) >= kf0 && uint64(f) <= kf1) {
			return vlib.Failf("single caller, allocation %d before the concurrent phase returned frame %#x, which is not a free usable frame", i, uint64(f)), rs
		}
		preHeld[uint64(f)] = true
	}
	initialReserved := alloc.reservedPages
	outside := pmOutsideFrames(c.Map, func() map[uint64]bool {
		m := map[uint64]bool{}
		for _, f := range avail {
			m[f] = true
		}
		return m
	}())

	// (Freeing a frame that is free is exercised by the single-caller probes only. As first built,
	// the workers also "freed" the highest usable frame, on the assumption that an allocator which
	// hands out the lowest free frame never gets that far; which free frame is handed out is the
	// allocator's choice - the sixteenth/seventeenth seeding rounds, see DESIGN.md 9.5 - and under
	// another policy that frame has an owner.)
	// ---- deterministic lock-discipline probes ---------------------------------
	if f := c09LockDiscipline(outside); f != nil {
		return f, rs
	}

	// ---- concurrent phase --------------------------------------------------------
	owner := make([]int32, len(avail))
	for f := range preHeld {
		owner[index[f]] = 1000 // held by the caller that took it before the workers started
	}
	var (
		violations int64
		inflight   int32
		firstMsg   atomic.Value
		progress   int64
		wg         gosync.WaitGroup
		start      = make(chan struct{})
		heldAll    = make([][]uint64, len(c.Progs))
	)
	report := func(format string, args ...interface{}) {
		if atomic.AddInt64(&violations, 1) == 1 {
			firstMsg.Store(fmt.Sprintf(format, args...))
		}
	}
	for w, p := range c.Progs {
		wg.Add(1)
		go func(w int, p c09Prog) {
			defer wg.Done()
			<-start
			x := uint32(w)*2654435761 + p.Salt | 1
			next := func() uint32 { x ^= x << 13; x ^= x >> 17; x ^= x << 5; return x }
			var held []uint64
			for i := 0; i < p.Iters && atomic.LoadInt64(&violations) == 0; i++ {
				r := next()
				doAlloc := int(r%100) < p.AllocPct
				if len(held) >= p.HoldMax {
					doAlloc = false
				}
				if doAlloc {
					// collisions are counted by how many calls are under way at the same moment, not by
					// looking at a lock: how the allocator keeps its callers apart is its business
					if atomic.AddInt32(&inflight, 1) > 1 {
						atomic.AddInt64(&rs.contention, 1)
					}
					f, err := mm.AllocFrame()
					atomic.AddInt32(&inflight, -1)
					atomic.AddInt64(&progress, 1)
					if err != nil {
						atomic.AddInt64(&rs.ooms, 1)
						continue
					}
					atomic.AddInt64(&rs.allocs, 1)
					idx, ok := index[uint64(f)]
					if !ok || (uint64(f) >= kf0 && uint64(f) <= kf1) || early[uint64(f)] {
						report("worker %d was handed frame %#x which is not a usable frame", w, uint64(f))
						continue
					}
					if prev := atomic.SwapInt32(&owner[idx], int32(w+1)); prev != 0 {
						report("frame %#x handed to worker %d while worker %d still holds it", uint64(f), w, prev-1)
						continue
					}
					held = append(held, uint64(f))
					continue
				}
				if int((r>>8)%100) < p.BogusPct && len(outside) > 0 {
					fr := outside[int(r>>16)%len(outside)]
					err := alloc.FreeFrame(mm.Frame(fr))
					atomic.AddInt64(&progress, 1)
					if err == nil {
						report("worker %d: FreeFrame(%#x) of an unmanaged frame was accepted", w, fr)
					}
					continue
				}
				if len(held) == 0 {
					continue
				}
				k := int(r>>16) % len(held)
				fr := held[k]
				held[k] = held[len(held)-1]
				held = held[:len(held)-1]
				if !atomic.CompareAndSwapInt32(&owner[index[fr]], int32(w+1), 0) {
					report("ownership table corrupt for frame %#x", fr)
					continue
				}
				if atomic.AddInt32(&inflight, 1) > 1 {
					atomic.AddInt64(&rs.contention, 1)
				}
				err := alloc.FreeFrame(mm.Frame(fr))
				atomic.AddInt32(&inflight, -1)
				atomic.AddInt64(&progress, 1)
				atomic.AddInt64(&rs.frees, 1)
				if err != nil {
					report("worker %d: FreeFrame(%#x) of a frame it holds failed: %s", w, fr, err.Message)
				}
			}
			heldAll[w] = held
		}(w, p)
	}
	// await watches a set of running workers: no progress for c09Patience = a call blocks forever
	await := func(finished chan struct{}, phase string) *vlib.Failure {
		stall, lastSeen := vlib.StartPatience(c09Patience), int64(-1)
		for {
			select {
			case <-finished:
				return nil
			case <-time.After(20 * time.Millisecond):
			}
			if p := atomic.LoadInt64(&progress); p != lastSeen {
				lastSeen = p
				stall.Reset()
				continue
			}
			if stall.Expired() {
				f := vlib.Failf("%sno allocate/free call completed for %v while %d workers are running: a call blocks forever", phase, c09Patience, len(c.Progs))
				atomic.AddInt64(&violations, 1)
				giveUp := vlib.StartPatience(c09Patience)
				for {
					alloc.mutex.Release()
					select {
					case <-finished:
						return f
					case <-time.After(100 * time.Microsecond):
					}
					if giveUp.Expired() {
						vlib.Die("C09", c, f)
					}
				}
			}
		}
	}
	finished := make(chan struct{})
	go func() { wg.Wait(); close(finished) }()
	close(start)
	if f := await(finished, ""); f != nil {
		return f, rs
	}
	if atomic.LoadInt64(&violations) != 0 {
		return vlib.Failf("%s", firstMsg.Load()), rs
	}

	// ---- quiescent state ------------------------------------------------------------
	stillHeld := map[uint64]bool{}
	for _, h := range heldAll {
		for _, f := range h {
			stillHeld[f] = true
		}
	}
	workersHold := len(stillHeld)
	if want := initialReserved + uint32(workersHold); alloc.reservedPages != want {
		return vlib.Failf("after all workers stopped: reserved pages = %d, want initial %d + %d still held = %d", alloc.reservedPages, initialReserved, workersHold, want), rs
	}
	// ---- free-only storm ----------------------------------------------------------------
	// Nobody allocates now, so a frame that is free stays free whatever the allocator's policy is.
	// All workers at once give back what they still hold and, in between, "free" frames that are
	// free (refused, and nothing may change) and frames the allocator does not manage.
	var knownFree []uint64
	for _, f := range avail {
		if (f < kf0 || f > kf1) && !early[f] && !preHeld[f] && atomic.LoadInt32(&owner[index[f]]) == 0 {
			knownFree = append(knownFree, f)
		}
	}
	if len(knownFree) > 0 {
		var swg gosync.WaitGroup
		go2 := make(chan struct{})
		for w, p := range c.Progs {
			swg.Add(1)
			go func(w int, p c09Prog) {
				defer swg.Done()
				<-go2
				x := uint32(w)*40503 + p.Salt | 1
				next := func() uint32 { x ^= x << 13; x ^= x >> 17; x ^= x << 5; return x }
				held := heldAll[w]
				iters := p.Iters
				if iters > 1500 {
					iters = 1500
				}
				for i := 0; (i < iters || len(held) > 0) && atomic.LoadInt64(&violations) == 0; i++ {
					r := next()
					switch {
					case len(held) > 0 && (r%4 == 0 || i >= iters):
						fr := held[len(held)-1]
						held = held[:len(held)-1]
						if !atomic.CompareAndSwapInt32(&owner[index[fr]], int32(w+1), 0) {
							report("ownership table corrupt for frame %#x", fr)
							continue
						}
						if err := alloc.FreeFrame(mm.Frame(fr)); err != nil {
							report("worker %d (nobody allocates any more): FreeFrame(%#x) of a frame it holds failed: %s", w, fr, err.Message)
						}
						atomic.AddInt64(&rs.frees, 1)
					case r%4 == 1 && len(outside) > 0:
						fr := outside[int(r>>16)%len(outside)]
						if err := alloc.FreeFrame(mm.Frame(fr)); err == nil {
							report("worker %d: FreeFrame(%#x) of an unmanaged frame was accepted", w, fr)
						}
					default:
						fr := knownFree[int(r>>8)%len(knownFree)]
						if err := alloc.FreeFrame(mm.Frame(fr)); err == nil {
							report("worker %d: FreeFrame(%#x) of a frame that is free was accepted (nobody allocates any more; the frame was free when the last allocation returned)", w, fr)
						}
						atomic.AddInt64(&rs.refusedFrees, 1)
					}
					atomic.AddInt64(&progress, 1)
				}
				heldAll[w] = held
			}(w, p)
		}
		stormDone := make(chan struct{})
		go func() { swg.Wait(); close(stormDone) }()
		close(go2)
		if f := await(stormDone, "free-only phase: "); f != nil {
			return f, rs
		}
		if atomic.LoadInt64(&violations) != 0 {
			return vlib.Failf("%s", firstMsg.Load()), rs
		}
		stillHeld = map[uint64]bool{}
		if alloc.reservedPages != initialReserved {
			return vlib.Failf("after every worker has given back its frames (with refused frees of free and of unmanaged frames going on at the same time): reserved pages = %d, want the initial %d", alloc.reservedPages, initialReserved), rs
		}
	}
	for f := range preHeld {
		stillHeld[f] = true
	}
	for pi := range alloc.pools {
		p := &alloc.pools[pi]
		n := uint64(p.endFrame-p.startFrame) + 1
		clear := uint32(0)
		for rel := uint64(0); rel < n; rel++ {
			if p.freeBitmap[rel>>6]&(1<<(63-(rel&63))) == 0 {
				clear++
			}
		}
		if clear != p.freeCount {
			return vlib.Failf("pool %d: free counter %d but %d frames are marked free in the bitmap", pi, p.freeCount, clear), rs
		}
	}
	got := map[uint64]bool{}
	for {
		f, err := mm.AllocFrame()
		if err != nil {
			break
		}
		if _, ok := index[uint64(f)]; !ok || stillHeld[uint64(f)] || got[uint64(f)] || early[uint64(f)] || (uint64(f) >= kf0 && uint64(f) <= kf1) {
			return vlib.Failf("drain after the concurrent phase returned frame %#x (held=%v dup=%v)", uint64(f), stillHeld[uint64(f)], got[uint64(f)]), rs
		}
		got[uint64(f)] = true
	}
	if len(got) != usable-len(stillHeld) {
		return vlib.Failf("drain after the concurrent phase yielded %d frames, %d usable frames minus %d still held = %d expected (frames were lost)", len(got), usable, len(stillHeld), usable-len(stillHeld)), rs
	}
	return nil, rs
}

// c09LockDiscipline checks, without needing a race, that every return path of
// AllocFrame/FreeFrame leaves the allocator lock released, and that a call arriving
// while another task is inside the allocator has its full effect.
// c09LockFreeCalls counts calls that completed while the harness held the allocator lock.
var c09LockFreeCalls atomic.Int64

func c09LockDiscipline(outside []uint64) *vlib.Failure {
	alloc := &bitmapAllocator
	free := func(path string) *vlib.Failure {
		if !alloc.mutex.TryToAcquire() {
			alloc.mutex.Release()
			return vlib.Failf("the allocator lock is still held after the %s path returned (the next caller would block forever)", path)
		}
		alloc.mutex.Release()
		return nil
	}
	var held []mm.Frame
	for {
		f, err := alloc.AllocFrame()
		if err != nil {
			if fl := free("AllocFrame out-of-memory"); fl != nil {
				return fl
			}
			break
		}
		held = append(held, f)
		if len(held) == 1 {
			if fl := free("AllocFrame success"); fl != nil {
				return fl
			}
		}
	}
	if len(outside) > 0 {
		alloc.FreeFrame(mm.Frame(outside[0]))
		if fl := free("FreeFrame unmanaged-frame"); fl != nil {
			return fl
		}
	}
	if len(held) > 0 {
		alloc.FreeFrame(held[0])
		if fl := free("FreeFrame success"); fl != nil {
			return fl
		}
		alloc.FreeFrame(held[0])
		if fl := free("FreeFrame already-free"); fl != nil {
			return fl
		}
		held = held[1:]
	}
	// A call that arrives while somebody else is inside the allocator. The harness plays that
	// somebody by holding the allocator lock for a moment. How the call copes - waiting for the
	// lock, or getting its work done some other way - is the allocator's business; what counts
	// is the outcome once the lock has been released and the call has returned, judged with
	// nothing else running: a frame handed out is one nobody holds, and a frame whose FreeFrame
	// reported success is allocatable again.
	fill := func() {
		for {
			f, err := alloc.AllocFrame()
			if err != nil {
				return
			}
			held = append(held, f)
		}
	}
	for _, which := range []string{"AllocFrame", "FreeFrame"} {
		fill() // every frame is held: the next frame to become free is the only free one
		if len(held) == 0 {
			continue
		}
		victim := held[len(held)-1]
		held = held[:len(held)-1]
		if which == "AllocFrame" {
			if err := alloc.FreeFrame(victim); err != nil {
				return vlib.Failf("FreeFrame(%#x) of a held frame failed: %s", uint64(victim), err.Message)
			}
		}
		alloc.mutex.Acquire()
		var (
			got    mm.Frame
			gotErr *kernel.Error
			done   = make(chan struct{})
		)
		go func() {
			if which == "AllocFrame" {
				got, gotErr = alloc.AllocFrame()
			} else {
				gotErr = alloc.FreeFrame(victim)
			}
			close(done)
		}()
		select {
		case <-done:
			c09LockFreeCalls.Add(1)
		case <-time.After(300 * time.Microsecond):
		}
		alloc.mutex.Release()
		if !vlib.StartPatience(c09Patience).Wait(done) {
			vlib.Die("C09", nil, vlib.Failf("%s did not complete within %v after the allocator lock was released", which, c09Patience))
		}
		if fl := free(which + " after waiting for the lock"); fl != nil {
			return fl
		}
		if which == "AllocFrame" {
			if gotErr != nil {
				return vlib.Failf("AllocFrame called while another task was inside the allocator reported %q although frame %#x was free the whole time", gotErr.Message, uint64(victim))
			}
			if got != victim {
				return vlib.Failf("AllocFrame called while another task was inside the allocator returned frame %#x; the only free frame is %#x", uint64(got), uint64(victim))
			}
			held = append(held, got)
			continue
		}
		if gotErr != nil {
			return vlib.Failf("FreeFrame(%#x) of a held frame, called while another task was inside the allocator, failed: %s", uint64(victim), gotErr.Message)
		}
		// the freed frame is allocatable again (and it is the only one)
		f, err := alloc.AllocFrame()
		if err != nil {
			return vlib.Failf("frame %#x was freed (FreeFrame returned success, called while another task was inside the allocator); with nothing else running the next AllocFrame reports %q: the freed frame is not allocatable", uint64(victim), err.Message)
		}
		if f != victim {
			return vlib.Failf("frame %#x was freed while another task was inside the allocator; the next AllocFrame returned %#x, which is held", uint64(victim), uint64(f))
		}
		held = append(held, f)
	}
	for _, f := range held {
		alloc.FreeFrame(f)
	}
	return nil
}

func TestVerifC09(t *testing.T) {
	st := vlib.For("C09")
	defer vlib.Flush()
	rapid.Check(t, func(t *rapid.T) {
		var c c09Case
		// small pools: 1-3 available regions of 1-130 frames
		n := rapid.IntRange(1, 3).Draw(t, "npools")
		cur := uint64(0x100000)
		for i := 0; i < n; i++ {
			frames := uint64(rapid.SampledFrom([]int{1, 2, 3, 5, 8, 17, 63, 64, 65, 66, 129, 130}).Draw(t, "frames"))
			if i == 0 && frames < 3 {
				frames = 3 // room for the kernel frame and the allocator state
			}
			c.Map.Regions = append(c.Map.Regions, pmRegion{cur, frames * 4096, 1})
			cur += frames*4096 + uint64(rapid.SampledFrom([]int{0x1000, 0x10000}).Draw(t, "gap"))
		}
		bigPool := rapid.IntRange(0, 9).Draw(t, "bigpool") == 0
		if bigPool {
			// one pool of some 4200-4400 frames whose first 4100 or so are in long-term use: what
			// is left to fight over lies behind more than 64 full bitmap words
			frames := uint64(rapid.IntRange(4200, 4400).Draw(t, "bigframes"))
			c.Map.Regions = []pmRegion{{0x100000, frames * 4096, 1}}
			c.PreHold = int(frames) - rapid.IntRange(8, 90).Draw(t, "leftover")
		}
		c.Map.KStart = 0x100000
		c.Map.KEnd = 0x100000 + 1
		if rapid.IntRange(0, 11).Draw(t, "aged") == 0 {
			// around 2^15 and 2^16 pairs = 2^16 and 2^17 lock acquisitions before the workers start
			c.Age = rapid.SampledFrom([]int{120, 32000, 32700, 32760, 65400, 65530}).Draw(t, "age")
		}
		nw := rapid.IntRange(2, 16).Draw(t, "workers")
		for i := 0; i < nw; i++ {
			c.Progs = append(c.Progs, c09Prog{
				Iters:    rapid.IntRange(200, vlib.Scale(4000, 40000)).Draw(t, "iters"),
				AllocPct: rapid.SampledFrom([]int{40, 50, 60, 80}).Draw(t, "allocpct"),
				BogusPct: rapid.SampledFrom([]int{0, 5, 20}).Draw(t, "boguspct"),
				HoldMax:  rapid.SampledFrom([]int{1, 2, 4, 16, 200}).Draw(t, "holdmax"),
				Salt:     rapid.Uint32().Draw(t, "salt"),
			})
		}
		fail, rs := c09Run(c)
		labels := []string{fmt.Sprintf("workers=%d", nw), fmt.Sprintf("pools=%d", n)}
		if rs.refusedFrees > 0 {
			labels = append(labels, "concurrent-frees-of-free-frames-while-nobody-allocates")
		}
		if rs.ooms > 0 {
			labels = append(labels, "hit-out-of-memory")
		}
		if rs.contention > 0 {
			labels = append(labels, "calls-under-way-at-the-same-time")
		}
		if rs.skipped {
			labels = append(labels, "init-failed(routed to C03)")
		}
		if c.Age >= 30000 {
			labels = append(labels, "allocator-used-tens-of-thousands-of-times-before")
		}
		if c.PreHold >= 4096 {
			labels = append(labels, "free-frames-behind-more-than-64-full-bitmap-words")
		}
		st.Add("calls_completed", rs.allocs+rs.frees+rs.ooms)
		st.Add("calls_that_started_while_another_was_under_way", rs.contention)
		st.Add("calls_that_completed_while_the_harness_held_the_allocator_lock", c09LockFreeCalls.Swap(0))
		st.Case(c, nw >= 4 && rs.ooms > 0 && rs.contention > 0, labels...)
		vlib.Report(t, "C09", c, fail)
	})
}

func TestVerifC09Replay(t *testing.T) {
	var c c09Case
	ok, err := vlib.LoadReplay(&c)
	if !ok {
		t.Skip("no replay requested")
	}
	if err != nil {
		t.Fatalf("VERIF-HARNESS cannot load replay: %v", err)
	}
	for i := 0; i < 10; i++ {
		fail, _ := c09Run(c)
		vlib.Report(t, "C09", c, fail)
	}
}
