//go:build verif && go1.21

package pmm

// Shared machinery for C01, C02, C03 (and C09): memory-map cases, a multiboot
// block builder, the harness side of pmm.Init (reserveRegionFn / mapFn) and the
// set model of physical frames.

import (
	"encoding/binary"
	"fmt"
	"sort"
	"strings"
	"unsafe"

	"github.com/ProjectSerenity/firefly/kernel"
	"github.com/ProjectSerenity/firefly/kernel/kfmt"
	"github.com/ProjectSerenity/firefly/kernel/mm"
	"github.com/ProjectSerenity/firefly/kernel/mm/vmm"
	"github.com/ProjectSerenity/firefly/kernel/multiboot"
	"pgregory.net/rapid"
	"verifharness/vlib"
)

type pmRegion struct {
	Addr uint64 `json:"addr"`
	Len  uint64 `json:"len"`
	Typ  uint32 `json:"typ"`
}

type pmOp struct {
	Kind string `json:"kind"` // alloc, freeHeld, freeFree, freeOutside, freeTwice, drain, freeAll
	K    uint64 `json:"k,omitempty"`
}

type pmCase struct {
	Regions []pmRegion `json:"regions"`
	KStart  uint64     `json:"kstart"`
	KEnd    uint64     `json:"kend"`
	Early   int        `json:"early,omitempty"` // C02: number of early allocations
	Tables  int        `json:"tables,omitempty"` // frames the map seam takes for page tables on its first call
	Ops     []pmOp     `json:"ops,omitempty"`
	// EntrySize is the entry_size field of the memory-map tag (0 = 24). Multiboot2 lets a boot
	// loader use larger entries ("so that in future new fields may be added to it"); the extra
	// bytes are filled with a pattern.
	EntrySize uint32 `json:"entrysize,omitempty"`
	// MapFail (C02): the k-th call of the map seam during the hand-over fails (after it has taken
	// its page-table frames, as vmm.Map can): the hand-over reports the error, and boot goes on
	// making early allocations
	MapFail int `json:"mapfail,omitempty"`
	// RetryInit (C02, with MapFail): after the failed hand-over the whole of pmm.Init runs again
	// (fresh main allocator, same early allocator): the early allocator must carry on where it was
	RetryInit bool `json:"retryinit,omitempty"`
	// Grow (C07, non-zero): after the first hand-over the allocator is set up a second time, from
	// a memory map whose last available region has that many more frames: it reserves and maps
	// again, and what it maps must again lie inside what it reserved
	Grow uint64 `json:"grow,omitempty"`
}

// whole returns the first and last whole frame of a region.
func (r pmRegion) whole() (first, last uint64, ok bool) {
	s := (r.Addr + 4095) >> 12
	e := (r.Addr + r.Len) >> 12
	if e <= s {
		return 0, 0, false
	}
	return s, e - 1, true
}

func (c pmCase) kernelFrames() (first, last uint64) {
	return c.KStart >> 12, ((c.KEnd + 4095) >> 12) - 1
}

// availFrames returns the sorted list of whole frames inside available regions
// (kernel frames included).
func (c pmCase) availFrames() []uint64 {
	var out []uint64
	for _, r := range c.Regions {
		if r.Typ != 1 {
			continue
		}
		if s, e, ok := r.whole(); ok {
			for f := s; f <= e; f++ {
				out = append(out, f)
			}
		}
	}
	return out
}

// pmBuildInfo encodes the memory map as a multiboot2 information block
// (memory-map tag followed by the end tag) in 8-byte aligned memory.
func pmBuildInfo(regs []pmRegion, entrySize uint32) []byte {
	if entrySize < 24 {
		entrySize = 24
	}
	es := int(entrySize)
	n := 8 + 16 + es*len(regs) + 8
	backing := make([]uint64, (n+7)/8+1)
	b := (*[1 << 30]byte)(unsafe.Pointer(&backing[0]))[:0:len(backing)*8]
	put32 := func(v uint32) { var t [4]byte; binary.LittleEndian.PutUint32(t[:], v); b = append(b, t[:]...) }
	put64 := func(v uint64) { var t [8]byte; binary.LittleEndian.PutUint64(t[:], v); b = append(b, t[:]...) }
	put32(0)
	put32(0)
	put32(6)
	put32(uint32(16 + es*len(regs)))
	put32(entrySize)
	put32(0)
	for i, r := range regs {
		put64(r.Addr)
		put64(r.Len)
		put32(r.Typ)
		put32(0)
		for k := 24; k < es; k++ {
			b = append(b, byte(0x11*(i+1)+k))
		}
	}
	put32(0)
	put32(8)
	binary.LittleEndian.PutUint32(b[0:], uint32(len(b)))
	return b
}

// pmGenEntrySize draws the entry size of the memory-map tag.
func pmGenEntrySize(t *rapid.T) uint32 {
	return rapid.SampledFrom([]uint32{0, 0, 0, 0, 0, 32, 40, 48}).Draw(t, "entrysize")
}

// pmEnv is the harness side of one initialisation.
type pmEnv struct {
	info      []byte
	reserved  [][]byte // host memory handed to reserveRegionFn
	early     []uint64 // frames passed to mapFn = frames consumed by the early allocator
	log       strings.Builder
	reserveSz []uintptr
	// what Init maps through the regions it reserved: page numbers per reservation
	// (index into reserved), and pages that lie in none of them
	mapped    [][]uint64
	stray     []uint64
	guards    []*vlib.Guarded
	mapCalls  int
}

// mappingVerdict checks "maps exactly the pages needed to cover the requested
// size" for the regions Init reserved: every page of ceil(size/4096) once,
// nothing else.
func (env *pmEnv) mappingVerdict() string {
	if len(env.stray) > 0 {
		where := "no region was reserved"
		if len(env.reserved) > 0 {
			last := len(env.reserved) - 1
			first := int64(uint64(vlib.AddrOf(env.reserved[last])) >> 12)
			where = fmt.Sprintf("page %+d relative to the start of the %d-page region reserved last (%#x bytes requested)",
				int64(env.stray[0])-first, len(env.reserved[last])>>12, uint64(env.reserveSz[last]))
		}
		return fmt.Sprintf("mapped a page which lies outside every region it reserved: %s; the harness refused the mapping", where)
	}
	for i, mem := range env.reserved {
		first := uint64(vlib.AddrOf(mem)) >> 12
		need := (uint64(env.reserveSz[i]) + 4095) >> 12
		seen := map[uint64]int{}
		for _, p := range env.mapped[i] {
			seen[p]++
		}
		for k := uint64(0); k < need; k++ {
			if n := seen[first+k]; n != 1 {
				return fmt.Sprintf("reserved %#x bytes (%d pages) but mapped page %d of the region %d times", uint64(env.reserveSz[i]), need, k, n)
			}
		}
		if uint64(len(env.mapped[i])) != need {
			return fmt.Sprintf("reserved %#x bytes (%d pages) but made %d mappings inside the region", uint64(env.reserveSz[i]), need, len(env.mapped[i]))
		}
	}
	return ""
}

type pmLogSink struct{ env *pmEnv }

func (s pmLogSink) Write(p []byte) (int, error) { s.env.log.Write(p); return len(p), nil }

var pmErrMapFail = &kernel.Error{Module: "verif", Message: "injected failure of the map seam"}

var pmErrNoVirt = &kernel.Error{Module: "verif", Message: "out of memory (harness: virtual region too large)"}

const pmMaxReserve = 64 << 20

// pmSetup points the package seams at the harness and resets every global the
// allocators use, so that a case is a pure function of its data.
func pmSetup(c pmCase) *pmEnv {
	env := &pmEnv{}
	env.info = pmBuildInfo(c.Regions, c.EntrySize)
	multiboot.SetInfoPtr(uintptr(unsafe.Pointer(&env.info[0])))
	bootMemAllocator = BootMemAllocator{}
	bitmapAllocator = BitmapAllocator{}
	reserveRegionFn = func(sz uintptr) (uintptr, *kernel.Error) {
		env.reserveSz = append(env.reserveSz, sz)
		if sz > pmMaxReserve {
			return 0, pmErrNoVirt
		}
		pages := int((sz + 4095) >> 12)
		if pages == 0 {
			pages = 1
		}
		// inaccessible pages directly before and after: the allocator's state must
		// stay inside the region it asked for
		g, err := vlib.NewGuarded(pages*4096, false)
		if err != nil {
			return 0, pmErrNoVirt
		}
		mem := g.Data
		for i := range mem {
			mem[i] = 0xA5
		}
		env.guards = append(env.guards, g)
		env.reserved = append(env.reserved, mem)
		env.mapped = append(env.mapped, nil)
		return vlib.AddrOf(mem), nil
	}
	tablesLeft := c.Tables
	mapFn = func(pg mm.Page, f mm.Frame, _ vmm.PageTableEntryFlag) *kernel.Error {
		in := -1
		for i, mem := range env.reserved {
			if first := uint64(vlib.AddrOf(mem)) >> 12; uint64(pg) >= first && uint64(pg) < first+uint64(len(mem))>>12 {
				in = i
			}
		}
		if in < 0 {
			// not backed by host memory: refuse, so that nothing is written there
			env.stray = append(env.stray, uint64(pg))
			return pmErrNoVirt
		}
		env.mapped[in] = append(env.mapped[in], uint64(pg))
		env.early = append(env.early, uint64(f))
		env.mapCalls++
		// the real vmm.Map allocates frames for missing page-table levels from the same
		// (early) allocator: simulate that on the first call
		for ; tablesLeft > 0; tablesLeft-- {
			tf, err := mm.AllocFrame()
			if err != nil {
				return err
			}
			env.early = append(env.early, uint64(tf))
		}
		if c.MapFail != 0 && env.mapCalls == c.MapFail {
			return pmErrMapFail
		}
		return nil
	}
	kfmt.SetOutputSink(pmLogSink{env})
	return env
}

func (env *pmEnv) close() {
	kfmt.SetOutputSink(nil)
	// drop the slices that alias the host memory before unmapping it
	bitmapAllocator = BitmapAllocator{}
	for _, g := range env.guards {
		g.Free()
	}
	env.guards, env.reserved = nil, nil
	reserveRegionFn = vmm.EarlyReserveRegion
	mapFn = vmm.Map
	mm.SetFrameAllocator(nil)
}

// pmSnapshot captures the model-visible allocator state.
type pmSnapshot struct {
	total, reserved uint32
	free            []uint32
	bitmaps         [][]uint64
}

func pmTakeSnapshot() pmSnapshot {
	s := pmSnapshot{total: bitmapAllocator.totalPages, reserved: bitmapAllocator.reservedPages}
	for i := range bitmapAllocator.pools {
		s.free = append(s.free, bitmapAllocator.pools[i].freeCount)
		s.bitmaps = append(s.bitmaps, append([]uint64(nil), bitmapAllocator.pools[i].freeBitmap...))
	}
	return s
}

func (a pmSnapshot) equal(b pmSnapshot) bool {
	if a.total != b.total || a.reserved != b.reserved || len(a.free) != len(b.free) {
		return false
	}
	for i := range a.free {
		if a.free[i] != b.free[i] || len(a.bitmaps[i]) != len(b.bitmaps[i]) {
			return false
		}
		for j := range a.bitmaps[i] {
			if a.bitmaps[i][j] != b.bitmaps[i][j] {
				return false
			}
		}
	}
	return true
}

// ---------------------------------------------------------------------------
// generators

var pmFrameCounts = []uint64{0, 1, 1, 2, 3, 5, 62, 63, 64, 65, 66, 127, 128, 129, 130, 191, 192, 193, 256, 257}

func pmGenRegions(t *rapid.T, maxRegions int, forceBoundary bool) []pmRegion {
	if !forceBoundary && rapid.IntRange(0, 39).Draw(t, "fragmented") == 0 {
		return pmGenFragmented(t)
	}
	n := rapid.IntRange(1, maxRegions).Draw(t, "nregions")
	cur := rapid.SampledFrom([]uint64{0, 0, 0x800, 0x1000, 0x9fc00, 0x100000, 0x100000, 1 << 32, 0xfffff000, 1 << 39}).Draw(t, "base")
	var regs []pmRegion
	forced := -1
	if forceBoundary {
		forced = rapid.IntRange(0, n-1).Draw(t, "forced")
	}
	must := rapid.IntRange(0, n-1).Draw(t, "must") // this region is available and has a whole frame
	for i := 0; i < n; i++ {
		cur += rapid.SampledFrom([]uint64{0, 0, 0, 1, 0x400, 0x1000, 0x1800, 0x100000, 0x3ff000}).Draw(t, "gap")
		var frames uint64
		if i == forced {
			frames = rapid.SampledFrom([]uint64{1, 63, 64, 65, 128, 129}).Draw(t, "bframes")
		} else if rapid.IntRange(0, 5).Draw(t, "frand") == 0 {
			frames = uint64(rapid.IntRange(0, 3000).Draw(t, "framesr"))
		} else {
			frames = rapid.SampledFrom(pmFrameCounts).Draw(t, "frames")
		}
		if i == must && frames == 0 {
			frames = 1
		}
		tail := rapid.SampledFrom([]uint64{0, 0, 0, 1, 0x7ff, 0xfff}).Draw(t, "tail")
		head := uint64(0)
		if rapid.IntRange(0, 3).Draw(t, "unalignedStart") == 0 && cur&0xfff == 0 {
			// start in the middle of a page: the leading partial page is not usable
			head = rapid.SampledFrom([]uint64{1, 0x400, 0xfff}).Draw(t, "head")
		}
		addr := cur + head
		// bytes up to the next page boundary do not belong to a whole frame
		lead := (4096 - addr&0xfff) & 0xfff
		length := lead + frames*4096 + tail
		if length == 0 {
			length = rapid.SampledFrom([]uint64{1, 0x200, 0xfff}).Draw(t, "tiny")
		}
		typ := rapid.SampledFrom([]uint32{1, 1, 1, 1, 1, 2, 3, 4, 5, 0, 99, 0xffffffff}).Draw(t, "typ")
		if i == forced || i == must {
			typ = 1
		}
		regs = append(regs, pmRegion{addr, length, typ})
		cur = addr + length
	}
	return regs
}

// pmGenFragmented draws a fragmented firmware map: dozens to hundreds of small available regions
// with reserved holes, sub-page scraps and other types between them (a handful of draws; the
// pattern repeats).
func pmGenFragmented(t *rapid.T) []pmRegion {
	n := rapid.SampledFrom([]int{20, 33, 63, 64, 65, 66, 100, 129, 200, 300}).Draw(t, "nfragments")
	sizes := rapid.SliceOfN(rapid.SampledFrom([]uint64{1, 1, 2, 3, 5, 7, 63, 64, 65}), 3, 6).Draw(t, "fragsizes")
	holeEvery := rapid.IntRange(1, 5).Draw(t, "holeevery")
	holeTyp := rapid.SampledFrom([]uint32{2, 3, 4, 5, 0}).Draw(t, "holetyp")
	scrap := rapid.Bool().Draw(t, "scraps")
	cur := rapid.SampledFrom([]uint64{0, 0x1000, 0x100000, 1 << 32}).Draw(t, "fragbase")
	var regs []pmRegion
	for i := 0; len(regs) < n; i++ {
		frames := sizes[i%len(sizes)]
		regs = append(regs, pmRegion{cur, frames * 4096, 1})
		cur += frames * 4096
		if i%holeEvery == 0 {
			regs = append(regs, pmRegion{cur, 4096, holeTyp})
			cur += 4096
		}
		if scrap && i%7 == 3 {
			// an available entry without a whole page
			regs = append(regs, pmRegion{cur + 0x800, 0x400, 1})
			cur += 4096
		}
		if i%11 == 10 {
			cur += 0x100000 // an unreported gap
		}
	}
	return regs
}

// pmGenKernel places the kernel image with a page-aligned start inside one
// available region that has at least one whole frame. It returns false when no
// such region exists.
func pmGenKernel(t *rapid.T, regs []pmRegion) (ks, ke uint64, where string, ok bool) {
	var cand []int
	for i, r := range regs {
		if r.Typ != 1 {
			continue
		}
		if _, _, w := r.whole(); w {
			cand = append(cand, i)
		}
	}
	if len(cand) == 0 {
		return 0, 0, "", false
	}
	r := regs[cand[rapid.IntRange(0, len(cand)-1).Draw(t, "kregion")]]
	s, e, _ := r.whole()
	n := e - s + 1
	if tail := r.Addr + r.Len - (e+1)<<12; tail > 0 && tail < 4096 && rapid.IntRange(0, 7).Draw(t, "kintailonly") == 0 {
		// the whole image sits in the partial page behind the region's last whole frame: a
		// page-aligned start inside the region, like any other
		ks = (e + 1) << 12
		ke = ks + uint64(rapid.IntRange(1, int(tail)).Draw(t, "ktailonlybytes"))
		return ks, ke, "tail-page-only", true
	}
	var first, last uint64
	switch rapid.IntRange(0, 5).Draw(t, "kwhere") {
	case 0:
		first, where = s, "start"
		last = first + uint64(rapid.IntRange(0, int(min64(n-1, 40))).Draw(t, "klen"))
	case 1:
		last, where = e, "end"
		first = last - uint64(rapid.IntRange(0, int(min64(n-1, 40))).Draw(t, "klen"))
	case 2:
		first, last, where = s, e, "cover"
	default:
		first = s + uint64(rapid.IntRange(0, int(n-1)).Draw(t, "koff"))
		last = first + uint64(rapid.IntRange(0, int(min64(e-first, 40))).Draw(t, "klen"))
		where = "middle"
		if first == s {
			where = "start"
		}
		if last == e {
			where = "end"
		}
		if first == s && last == e {
			where = "cover"
		}
	}
	ks = first << 12
	// kernel end: somewhere in the last kernel frame (exclusive end address)
	ke = last<<12 + uint64(rapid.SampledFrom([]int{1, 0x800, 0xfff, 0x1000}).Draw(t, "ktail"))
	regEnd := r.Addr + r.Len
	if tail := regEnd - (e+1)<<12; last == e && tail > 0 && tail < 4096 && rapid.IntRange(0, 2).Draw(t, "kintotail") == 0 {
		// the image ends inside the partial page behind the region's last whole frame
		ke = (e+1)<<12 + uint64(rapid.IntRange(1, int(tail)).Draw(t, "ktailbytes"))
		where += "+partial-tail-page"
	}
	if ke > regEnd {
		ke = regEnd
	}
	if ke <= ks {
		ke = ks + 1
	}
	return ks, ke, where, true
}

func min64(a, b uint64) uint64 {
	if a < b {
		return a
	}
	return b
}

func pmGenOps(t *rapid.T, maxOps int, hostile bool) []pmOp {
	kinds := []string{"alloc", "alloc", "alloc", "alloc", "freeHeld", "freeHeld", "freeHeld"}
	if hostile {
		kinds = append(kinds, "freeFree", "freeOutside", "freeTwice", "drain", "freeAll")
	} else {
		kinds = append(kinds, "drain", "freeAll")
	}
	return rapid.SliceOfN(rapid.Custom(func(t *rapid.T) pmOp {
		k := rapid.SampledFrom(kinds).Draw(t, "op")
		op := pmOp{Kind: k}
		switch k {
		case "freeHeld", "freeFree", "freeOutside", "freeTwice":
			op.K = uint64(rapid.Uint32().Draw(t, "k"))
		case "drain", "freeAll":
			// keep the expensive ops rare
			if rapid.IntRange(0, 3).Draw(t, "rare") != 0 {
				op.Kind = "alloc"
			}
		}
		return op
	}), rapid.SampledFrom([]int{0, 0, 8, 30, 80}).Draw(t, "minops"), maxOps).Draw(t, "ops")
}

// pmLabels computes the class labels of a map + kernel placement.
func pmLabels(c pmCase, where string) []string {
	var l []string
	pools := 0
	for _, r := range c.Regions {
		if r.Typ != 1 {
			l = append(l, "non-available-region")
			continue
		}
		s, e, ok := r.whole()
		if !ok {
			l = append(l, "available-region-without-whole-frame")
			continue
		}
		pools++
		n := e - s + 1
		switch n % 64 {
		case 0:
			l = append(l, "pool%64==0")
		case 1:
			l = append(l, "pool%64==1")
		case 63:
			l = append(l, "pool%64==63")
		}
		if r.Addr&0xfff != 0 || (r.Addr+r.Len)&0xfff != 0 {
			l = append(l, "unaligned-region")
		}
	}
	l = append(l, fmt.Sprintf("pools=%d", pools))
	if where != "" {
		l = append(l, "kernel-at-"+where)
	}
	return uniq(l)
}

func uniq(l []string) []string {
	sort.Strings(l)
	out := l[:0]
	for i, s := range l {
		if i == 0 || s != l[i-1] {
			out = append(out, s)
		}
	}
	return out
}
