//go:build verif && go1.21

package pmm

// C01 — frames handed out exclusively and only from free RAM.
// C03 — frame accounting, error contract, no crash.
//
// Both drive the real pmm.Init from a generated multiboot memory map and then a
// generated allocate/free history through mm.AllocFrame / FreeFrame, next to a
// set model of the physical frames.

import (
	"unsafe"
	"fmt"
	"runtime"
	"regexp"
	"sort"
	"strconv"
	"strings"
	"testing"

	"github.com/ProjectSerenity/firefly/kernel"
	"github.com/ProjectSerenity/firefly/kernel/mm"
	"github.com/ProjectSerenity/firefly/kernel/multiboot"
	"pgregory.net/rapid"
	"verifharness/vlib"
)

var pmStatsRe = regexp.MustCompile(`\[bitmap_alloc\] page stats: free: (\d+)/(\d+) \((\d+) reserved\)`)

type pmRunStats struct {
	initFailed   bool
	reallocs     int
	rejected     int
	drainedWhole bool
	earlyOtherPool bool
	retried      bool
	secondSetup  bool
}

// pmRun executes a case. prop selects which oracle is asserted ("C01" or "C03").
func pmRun(c pmCase, prop string) (fail *vlib.Failure, rs pmRunStats) {
	defer vlib.Guard(prop, c, nil)()
	env := pmSetup(c)
	defer env.close()

	avail := c.availFrames()
	availSet := make(map[uint64]bool, len(avail))
	for _, f := range avail {
		availSet[f] = true
	}
	kf0, kf1 := c.kernelFrames()

	var initErr *kernel.Error
	pc := vlib.CatchFault(func() { initErr = Init(uintptr(c.KStart), uintptr(c.KEnd)) })
	if !pc.Panicked && initErr == pmErrMapFail && c.MapFail != 0 {
		// The hand-over failed half-way (an injected failure of the map seam, after that call had
		// taken its page-table frames). It is tried again with a fresh allocator; the early-boot
		// allocator is what it is: every frame it handed out during the failed attempt stays
		// consumed (the page tables built then are still in use).
		rs.retried = true
		bitmapAllocator = BitmapAllocator{}
		env.reserved, env.mapped, env.reserveSz = nil, nil, nil // (the host memory stays alive until env.close)
		pc = vlib.CatchFault(func() { initErr = Init(uintptr(c.KStart), uintptr(c.KEnd)) })
	}
	if pc.Panicked {
		rs.initFailed = true
		if prop == "C03" || prop == "C07" {
			return vlib.Failf("pmm.Init crashed instead of succeeding or reporting out-of-memory (the region it reserved for its state is followed by an inaccessible page): %v", pc), rs
		}
		return nil, rs
	}
	if v := env.mappingVerdict(); v != "" && (len(env.stray) > 0 || initErr == nil) && (prop == "C03" || prop == "C07") {
		// writing to pages that were never reserved is a crash in waiting
		return vlib.Failf("pmm.Init %s", v), rs
	}
	if prop == "C07" {
		if c.Grow == 0 || initErr != nil {
			return nil, rs
		}
		regs := append([]pmRegion(nil), c.Regions...)
		for i := len(regs) - 1; i >= 0; i-- {
			if _, _, ok := regs[i].whole(); ok && regs[i].Typ == 1 {
				regs[i].Len += c.Grow * 4096
				for j := i + 1; j < len(regs); j++ {
					regs[j].Addr += c.Grow * 4096 // what follows moves up: still sorted, still apart
				}
				break
			}
		}
		info2 := pmBuildInfo(regs, c.EntrySize)
		multiboot.SetInfoPtr(uintptr(unsafe.Pointer(&info2[0])))
		pc = vlib.CatchFault(func() { initErr = Init(uintptr(c.KStart), uintptr(c.KEnd)) })
		runtime.KeepAlive(info2)
		rs.secondSetup = true
		if pc.Panicked {
			return vlib.Failf("second set-up of the allocator (last available region %d frames larger): pmm.Init crashed (every region it reserved is followed by an inaccessible page): %v", c.Grow, pc), rs
		}
		if v := env.mappingVerdict(); v != "" && (len(env.stray) > 0 || initErr == nil) {
			return vlib.Failf("second set-up of the allocator (last available region %d frames larger): pmm.Init %s", c.Grow, v), rs
		}
		return nil, rs
	}
	if initErr != nil {
		rs.initFailed = true
		if prop != "C03" {
			return nil, rs
		}
		if !strings.Contains(initErr.Message, "out of memory") {
			return vlib.Failf("pmm.Init returned an error that is not out-of-memory: %q", initErr.Message), rs
		}
		// An out-of-memory report is only justified when the map cannot hold the
		// allocator's own state. Generous upper bound of what any reasonable
		// implementation needs: 256 bytes per available region + 1 bit per frame
		// rounded up to a word per region, in whole pages, plus one page.
		nAvail := 0
		for _, r := range c.Regions {
			if r.Typ == 1 {
				nAvail++
			}
		}
		need := (uint64(nAvail)*(256+8)+uint64(len(avail))/8+4095)/4096 + 1
		// the early allocator may pass over a frame at each region / kernel
		// boundary (documented quirk, see DESIGN.md C02): allow for that
		need += uint64(nAvail) + 2
		if rs.retried {
			need += 8 // what the failed first attempt took from the early allocator and never gave back
		}
		usable := uint64(0)
		for _, f := range avail {
			if f < kf0 || f > kf1 {
				usable++
			}
		}
		if usable >= need {
			return vlib.Failf("pmm.Init reported %q although %d usable frames exist and the allocator state needs at most %d", initErr.Message, usable, need), rs
		}
		return nil, rs
	}

	// ---- model -------------------------------------------------------------
	earlySet := map[uint64]bool{}
	for _, f := range env.early {
		earlySet[f] = true
	}
	usable := map[uint64]bool{} // U
	kernelInPools := 0
	for _, f := range avail {
		if f >= kf0 && f <= kf1 {
			kernelInPools++
			continue
		}
		if earlySet[f] {
			continue
		}
		usable[f] = true
	}
	// early frames must themselves be legitimate (decided in detail by C02; here
	// they only need to be inside the pools so that the accounting is defined)
	earlyInPools := 0
	for f := range earlySet {
		if availSet[f] {
			earlyInPools++
		}
	}
	held := map[uint64]bool{}
	var heldList []uint64 // insertion order; positional selection
	freeCount := len(usable)
	poolOf := func(f uint64) int {
		idx := 0
		for _, r := range c.Regions {
			if r.Typ != 1 {
				continue
			}
			s, e, ok := r.whole()
			if !ok {
				continue
			}
			if f >= s && f <= e {
				return idx
			}
			idx++
		}
		return -1
	}
	if len(env.early) > 0 && poolOf(env.early[0]) != poolOf(kf0) {
		rs.earlyOtherPool = true
	}

	totalWhole := uint32(len(avail))
	checkAccounting := func(when string) *vlib.Failure {
		if prop != "C03" {
			return nil
		}
		a := &bitmapAllocator
		if a.totalPages != totalWhole {
			return vlib.Failf("%s: total page count is %d, the map has %d whole frames of available RAM", when, a.totalPages, totalWhole)
		}
		wantReserved := uint32(kernelInPools + earlyInPools + len(held))
		if a.reservedPages != wantReserved {
			return vlib.Failf("%s: reserved page count is %d, want %d (kernel %d + early %d + held %d)", when, a.reservedPages, wantReserved, kernelInPools, earlyInPools, len(held))
		}
		if free := a.totalPages - a.reservedPages; free != uint32(freeCount) {
			return vlib.Failf("%s: reported free pages %d, model has %d free usable frames", when, free, freeCount)
		}
		return nil
	}
	if prop == "C03" {
		// the totals as reported on the kernel log (when the line has the shipped wording;
		// a re-worded line is not an alarm - the counters are also checked directly below)
		if m := pmStatsRe.FindStringSubmatch(env.log.String()); m != nil {
			free, _ := strconv.ParseUint(m[1], 10, 64)
			total, _ := strconv.ParseUint(m[2], 10, 64)
			reserved, _ := strconv.ParseUint(m[3], 10, 64)
			if total != uint64(totalWhole) || reserved != uint64(kernelInPools+earlyInPools) || free != uint64(len(usable)) {
				return vlib.Failf("reported stats free=%d total=%d reserved=%d; model: free=%d total=%d reserved=%d (kernel %d + early %d)",
					free, total, reserved, len(usable), totalWhole, kernelInPools+earlyInPools, kernelInPools, earlyInPools), rs
			}
		} else {
			vlib.For("C03").Label("stats-line-not-recognised(skipped)")
		}
		if f := checkAccounting("after Init"); f != nil {
			return f, rs
		}
	}

	everFreed := map[uint64]bool{}
	alloc := func(when string) (*vlib.Failure, bool) {
		var f mm.Frame
		var err *kernel.Error
		pc := vlib.CatchFault(func() { f, err = mm.AllocFrame() })
		if pc.Panicked {
			return vlib.Failf("%s: AllocFrame crashed: %v", when, pc), false
		}
		if err != nil {
			if prop == "C03" && freeCount != 0 {
				return vlib.Failf("%s: AllocFrame reported %q although %d usable frames are still free (e.g. frame %#x)", when, err.Message, freeCount, anyFree(usable, held)), false
			}
			return nil, false
		}
		fn := uint64(f)
		if !f.Valid() {
			return vlib.Failf("%s: AllocFrame returned the invalid frame without an error", when), false
		}
		switch {
		case !availSet[fn]:
			return vlib.Failf("%s: AllocFrame returned frame %#x which does not lie wholly inside an available region", when, fn), false
		case fn >= kf0 && fn <= kf1:
			return vlib.Failf("%s: AllocFrame returned frame %#x which belongs to the kernel image [%#x,%#x]", when, fn, kf0, kf1), false
		case earlySet[fn]:
			return vlib.Failf("%s: AllocFrame returned frame %#x which the early-boot allocator had already consumed", when, fn), false
		case held[fn]:
			return vlib.Failf("%s: AllocFrame returned frame %#x which is still held by another caller", when, fn), false
		}
		if prop == "C03" && freeCount == 0 {
			return vlib.Failf("%s: AllocFrame returned frame %#x although no usable frame is free", when, fn), false
		}
		held[fn] = true
		heldList = append(heldList, fn)
		freeCount--
		if everFreed[fn] {
			rs.reallocs++
		}
		return nil, true
	}
	freeHeld := func(idx int, when string) *vlib.Failure {
		fn := heldList[idx]
		var err *kernel.Error
		pc := vlib.CatchFault(func() { err = bitmapAllocator.FreeFrame(mm.Frame(fn)) })
		if pc.Panicked {
			return vlib.Failf("%s: FreeFrame(%#x) of a held frame crashed: %v", when, fn, pc)
		}
		if err != nil {
			return vlib.Failf("%s: FreeFrame(%#x) of a held frame failed: %q", when, fn, err.Message)
		}
		delete(held, fn)
		heldList = append(heldList[:idx], heldList[idx+1:]...)
		everFreed[fn] = true
		freeCount++
		return nil
	}
	rejectFree := func(fn uint64, why, when string) *vlib.Failure {
		before := pmTakeSnapshot()
		var err *kernel.Error
		pc := vlib.CatchFault(func() { err = bitmapAllocator.FreeFrame(mm.Frame(fn)) })
		if pc.Panicked {
			return vlib.Failf("%s: FreeFrame(%#x) (%s) crashed: %v", when, fn, why, pc)
		}
		if prop == "C03" {
			if err == nil {
				return vlib.Failf("%s: FreeFrame(%#x) (%s) was accepted", when, fn, why)
			}
			if !before.equal(pmTakeSnapshot()) {
				return vlib.Failf("%s: rejected FreeFrame(%#x) (%s) changed the allocator state", when, fn, why)
			}
		}
		rs.rejected++
		return nil
	}
	sortedFree := func() []uint64 {
		var l []uint64
		for f := range usable {
			if !held[f] {
				l = append(l, f)
			}
		}
		sort.Slice(l, func(i, j int) bool { return l[i] < l[j] })
		return l
	}
	outside := pmOutsideFrames(c, availSet)

	for i, op := range c.Ops {
		when := fmt.Sprintf("op %d (%s)", i, op.Kind)
		switch op.Kind {
		case "alloc":
			if f, _ := alloc(when); f != nil {
				return f, rs
			}
		case "freeHeld":
			if len(heldList) == 0 {
				continue
			}
			if f := freeHeld(int(op.K%uint64(len(heldList))), when); f != nil {
				return f, rs
			}
		case "freeTwice":
			if len(heldList) == 0 {
				continue
			}
			idx := int(op.K % uint64(len(heldList)))
			fn := heldList[idx]
			if f := freeHeld(idx, when); f != nil {
				return f, rs
			}
			if f := rejectFree(fn, "already freed", when); f != nil {
				return f, rs
			}
		case "freeFree":
			l := sortedFree()
			if len(l) == 0 {
				continue
			}
			if f := rejectFree(l[op.K%uint64(len(l))], "free usable frame, not held", when); f != nil {
				return f, rs
			}
		case "freeOutside":
			if len(outside) == 0 {
				continue
			}
			if f := rejectFree(outside[op.K%uint64(len(outside))], "not managed by any pool", when); f != nil {
				return f, rs
			}
		case "drain":
			for {
				f, ok := alloc(when)
				if f != nil {
					return f, rs
				}
				if !ok {
					break
				}
			}
		case "freeAll":
			for len(heldList) > 0 {
				if f := freeHeld(len(heldList)-1, when); f != nil {
					return f, rs
				}
			}
		}
		if f := checkAccounting("after " + when); f != nil {
			return f, rs
		}
		// a call that has returned does not hold the allocator's lock any more (asked through the
		// lock's own API): the next caller would otherwise wait forever
		if !bitmapAllocator.mutex.TryToAcquire() {
			return vlib.Failf("after %s: the allocator's lock is still held although the call has returned: every later allocate or free call blocks forever", when), rs
		}
		bitmapAllocator.mutex.Release()
	}

	// final: everything usable can be allocated, then out-of-memory (C03);
	// exclusivity while draining (C01)
	for {
		f, ok := alloc("final drain")
		if f != nil {
			return f, rs
		}
		if !ok {
			break
		}
	}
	if prop == "C03" {
		if len(held) != len(usable) {
			return vlib.Failf("after draining, %d frames are held but %d usable frames exist (e.g. %#x never handed out)", len(held), len(usable), anyFree(usable, held)), rs
		}
		if f := checkAccounting("after final drain"); f != nil {
			return f, rs
		}
		rs.drainedWhole = true
		// freeing an allocated frame makes exactly that frame allocatable again
		if len(heldList) > 0 {
			idx := int(uint64(len(c.Ops)*7919+3) % uint64(len(heldList)))
			fn := heldList[idx]
			if f := freeHeld(idx, "free after drain"); f != nil {
				return f, rs
			}
			var got mm.Frame
			var err *kernel.Error
			got, err = mm.AllocFrame()
			if err != nil || uint64(got) != fn {
				return vlib.Failf("with every other frame held, freeing %#x and allocating again gave (%#x, %v)", fn, uint64(got), err), rs
			}
			held[fn] = true
			heldList = append(heldList, fn)
			freeCount--
			if _, err = mm.AllocFrame(); err == nil {
				return vlib.Failf("a second allocation after freeing a single frame succeeded"), rs
			}
		}
	}
	return nil, rs
}

func anyFree(usable, held map[uint64]bool) uint64 {
	best := ^uint64(0)
	for f := range usable {
		if !held[f] && f < best {
			best = f
		}
	}
	return best
}

func clipStr(s string) string {
	if len(s) > 400 {
		return s[:400] + "…"
	}
	return s
}

// pmOutsideFrames lists frames that no pool manages: gaps, non-available
// regions, partial pages at region edges, and far-away values.
func pmOutsideFrames(c pmCase, availSet map[uint64]bool) []uint64 {
	cand := []uint64{0, 1, 0xfffff, 1 << 40, ^uint64(0), ^uint64(0) - 1, 1 << 52}
	for _, r := range c.Regions {
		first := r.Addr >> 12
		last := (r.Addr + r.Len - 1) >> 12
		cand = append(cand, first, last, first-1, last+1, (first+last)/2)
	}
	var out []uint64
	for _, f := range cand {
		if !availSet[f] {
			out = append(out, f)
		}
	}
	sort.Slice(out, func(i, j int) bool { return out[i] < out[j] })
	return out
}

// ---------------------------------------------------------------------------

func pmGenCase(t *rapid.T, prop string) (pmCase, string, bool) {
	var c pmCase
	switch cls := rapid.IntRange(0, 599).Draw(t, "mapclass"); {
	case cls == 599:
		// a large machine whose allocator state (pool table + bitmaps) is within a word of a page multiple
		c.Regions = c07pGenRegions(t)
	default:
		c.Regions = pmGenRegions(t, 8, prop == "C03" && rapid.Bool().Draw(t, "forceBoundary"))
		c.EntrySize = pmGenEntrySize(t)
		if cls >= 580 {
			// one more region exactly 2^32 frames (16 TiB) above an earlier one: frame numbers that
			// agree in their low 32 bits
			var avail []pmRegion
			for _, r := range c.Regions {
				if r.Typ == 1 && r.Addr+r.Len < 1<<43 {
					avail = append(avail, r)
				}
			}
			if len(avail) > 0 && c.Regions[len(c.Regions)-1].Addr+c.Regions[len(c.Regions)-1].Len < 1<<43 {
				r := avail[rapid.IntRange(0, len(avail)-1).Draw(t, "aliasof")]
				c.Regions = append(c.Regions, pmRegion{r.Addr + 1<<44, r.Len, 1})
			}
		}
	}
	ks, ke, where, ok := pmGenKernel(t, c.Regions)
	if !ok {
		return c, "", false
	}
	c.KStart, c.KEnd = ks, ke
	c.Tables = rapid.SampledFrom([]int{0, 0, 1, 2, 3, 3}).Draw(t, "tables")
	c.Ops = pmGenOps(t, vlib.Scale(120, 400), prop == "C03")
	if rapid.IntRange(0, 9).Draw(t, "failedhandover") == 0 {
		c.MapFail = rapid.IntRange(1, 3).Draw(t, "mapfailat")
	}
	return c, where, true
}

func TestVerifC01(t *testing.T) {
	st := vlib.For("C01")
	defer vlib.Flush()
	rapid.Check(t, func(t *rapid.T) {
		c, where, ok := pmGenCase(t, "C01")
		if !ok {
			st.Case(c, false, "no-available-region-with-a-whole-frame")
			return
		}
		fail, rs := pmRun(c, "C01")
		labels := pmLabels(c, where)
		pools := 0
		for _, l := range labels {
			if strings.HasPrefix(l, "pools=") && l != "pools=1" && l != "pools=0" {
				pools = 2
			}
		}
		if rs.initFailed {
			labels = append(labels, "init-failed(routed to C03)")
		}
		if rs.earlyOtherPool {
			labels = append(labels, "early-frames-in-other-pool-than-kernel")
		}
		if rs.reallocs > 0 {
			labels = append(labels, "free-then-reallocated")
		}
		if rs.retried {
			labels = append(labels, "hand-over-failed-half-way-then-repeated-with-a-fresh-allocator")
		}
		st.Case(c, !rs.initFailed && (pools >= 2 || rs.reallocs > 0 || where != ""), labels...)
		vlib.Report(t, "C01", c, fail)
	})
}

func TestVerifC01Replay(t *testing.T) {
	var c pmCase
	ok, err := vlib.LoadReplay(&c)
	if !ok {
		t.Skip("no replay requested")
	}
	if err != nil {
		t.Fatalf("VERIF-HARNESS cannot load replay: %v", err)
	}
	fail, _ := pmRun(c, "C01")
	vlib.Report(t, "C01", c, fail)
}

func TestVerifC03(t *testing.T) {
	st := vlib.For("C03")
	defer vlib.Flush()
	rapid.Check(t, func(t *rapid.T) {
		c, where, ok := pmGenCase(t, "C03")
		if !ok {
			st.Case(c, false, "no-available-region-with-a-whole-frame")
			return
		}
		fail, rs := pmRun(c, "C03")
		labels := pmLabels(c, where)
		boundary := false
		for _, l := range labels {
			if strings.HasPrefix(l, "pool%64==") {
				boundary = true
			}
		}
		if rs.initFailed {
			labels = append(labels, "init-reported-oom")
		}
		if rs.rejected > 0 {
			labels = append(labels, "rejected-free")
		}
		if rs.retried {
			labels = append(labels, "hand-over-failed-half-way-then-repeated-with-a-fresh-allocator")
		}
		st.Case(c, (boundary && rs.drainedWhole) || rs.rejected > 0, labels...)
		vlib.Report(t, "C03", c, fail)
	})
}

func TestVerifC03Replay(t *testing.T) {
	var c pmCase
	ok, err := vlib.LoadReplay(&c)
	if !ok {
		t.Skip("no replay requested")
	}
	if err != nil {
		t.Fatalf("VERIF-HARNESS cannot load replay: %v", err)
	}
	fail, _ := pmRun(c, "C03")
	vlib.Report(t, "C03", c, fail)
}


// ---------------------------------------------------------------------------
// C07, seen from the physical allocator: pmm.Init reserves a virtual region for
// its own state and maps it page by page. "Mapping ... through such a
// reservation maps exactly the pages needed to cover the requested size" is
// checked on the mappings Init makes (every page of the reserved size once,
// nothing outside). Half of the cases aim the size of that state at a page
// boundary: n pools need n*sizeof(framePool) + 8 bytes per 64 frames.

func c07pGenRegions(t *rapid.T) []pmRegion {
	hdr := uint64(unsafe.Sizeof(framePool{}))
	n := rapid.IntRange(1, 4).Draw(t, "pools")
	pages := uint64(rapid.IntRange(1, 2).Draw(t, "statepages"))
	words := (pages*4096 - uint64(n)*hdr) / 8
	// -1 / 0 / +1 words around the exact fit
	words = uint64(int64(words) + int64(rapid.IntRange(-1, 1).Draw(t, "slack")))
	var regs []pmRegion
	cur := rapid.SampledFrom([]uint64{0, 0x100000, 1 << 32}).Draw(t, "base")
	left := words
	for i := 0; i < n; i++ {
		w := left
		if i < n-1 {
			w = uint64(rapid.IntRange(1, int(left)-(n-1-i)).Draw(t, "poolwords"))
		}
		left -= w
		frames := w*64 - uint64(rapid.IntRange(0, 63).Draw(t, "partialword"))
		regs = append(regs, pmRegion{cur, frames * 4096, 1})
		cur += frames*4096 + rapid.SampledFrom([]uint64{0x1000, 0x100000}).Draw(t, "gap")
	}
	return regs
}

func TestVerifC07Pmm(t *testing.T) {
	st := vlib.For("C07")
	defer vlib.Flush()
	rapid.Check(t, func(t *rapid.T) {
		var c pmCase
		aimed := rapid.Bool().Draw(t, "aimed")
		if aimed {
			c.Regions = c07pGenRegions(t)
		} else {
			c.Regions = pmGenRegions(t, 6, false)
			c.EntrySize = pmGenEntrySize(t)
		}
		ks, ke, _, ok := pmGenKernel(t, c.Regions)
		if !ok {
			st.Case(c, false, "pmm-no-available-region-with-a-whole-frame")
			return
		}
		c.KStart, c.KEnd = ks, ke
		c.Tables = rapid.IntRange(0, 3).Draw(t, "tables")
		if rapid.IntRange(0, 3).Draw(t, "again") == 0 {
			c.Grow = rapid.SampledFrom([]uint64{1, 64, 4096, 32768, 40000, 300000}).Draw(t, "grow")
		}
		fail, rs := pmRun(c, "C07")
		labels := []string{"pmm-init-reservation"}
		if rs.secondSetup {
			labels = append(labels, "pmm-set-up-a-second-time-from-a-larger-map")
		}
		if aimed {
			labels = append(labels, "pmm-state-size-aimed-at-a-page-boundary")
		}
		if rs.initFailed {
			labels = append(labels, "pmm-init-failed")
		}
		st.Case(c, aimed && !rs.initFailed, labels...)
		vlib.Report(t, "C07", c, fail)
	})
}

func TestVerifC07PmmReplay(t *testing.T) {
	var c pmCase
	ok, err := vlib.LoadReplay(&c)
	if !ok {
		t.Skip("no replay requested")
	}
	if err != nil {
		t.Fatalf("VERIF-HARNESS cannot load replay: %v", err)
	}
	fail, _ := pmRun(c, "C07")
	vlib.Report(t, "C07", c, fail)
}
