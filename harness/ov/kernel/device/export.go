//go:build verif

package device

// VerifSetDrivers replaces the list of registered drivers and returns the
// previous list (export shim for the C16 harness in package hal; only compiled
// with the verif tag through the overlay).
func VerifSetDrivers(l DriverInfoList) DriverInfoList {
	old := registeredDrivers
	registeredDrivers = l
	return old
}
