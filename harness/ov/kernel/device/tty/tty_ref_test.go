//go:build verif && go1.21

package tty

// Shared pieces of the C17 and C18 checks: the JSON case types, the reference
// terminal (written from the statement of C17, not from vt.go), the reference
// text-grid console and the history generators.

import (
	"fmt"
	"image/color"

	"github.com/ProjectSerenity/firefly/kernel/device/video/console"
	"pgregory.net/rapid"
	"verifharness/vlib"
)

// ---------------------------------------------------------------------------
// case types (plain JSON data)

// ttyCons describes a console. Kind "grid" is the harness' reference text
// grid; "vga" the real VgaTextConsole; "fb" the real VesaFbConsole.
type ttyCons struct {
	Kind string `json:"kind"`
	W    uint32 `json:"w"` // size of the cell grid
	H    uint32 `json:"h"`

	// framebuffer consoles only
	Bpp        uint8  `json:"bpp,omitempty"`
	Font       int    `json:"font,omitempty"`   // index into ttyFontNames
	RemW       uint32 `json:"remw,omitempty"`   // pixels right of the last column (< glyph width)
	RemH       uint32 `json:"remh,omitempty"`   // scanlines below the last row (< glyph height)
	Pad        uint32 `json:"pad,omitempty"`    // pitch - width*bytesPerPixel
	Layout     int    `json:"layout,omitempty"` // index into the colour layouts of the depth
	LogoH      uint32 `json:"logoh,omitempty"`  // 0: no logo
	LogoW      uint32 `json:"logow,omitempty"`
	LogoAlign  uint8  `json:"logoalign,omitempty"`
	LogoColors int    `json:"logocolors,omitempty"`
	LogoTransp uint8  `json:"logotransp,omitempty"`
	LogoSeed   uint32 `json:"logoseed,omitempty"`

	// grid consoles (kinds "grid" and "fbsize"): the default colours the console reports,
	// (7, 0) unless Colors is set
	Colors bool  `json:"colors,omitempty"`
	Fg     uint8 `json:"fg,omitempty"`
	Bg     uint8 `json:"bg,omitempty"`
}

// ttyOp is one step of a history.
//
//	"b"      WriteByte(B[0])
//	"w"      Write(B)
//	"cur"    SetCursorPosition(X, Y)
//	"state"  SetState(active if On)
//	"attach" AttachTo(a new console described by Cons)
//	"other"  another terminal comes into being: NewVT with the same settings, attached to its own
//	         cell-grid console (Cons), made active when On is set, B written to it. It shares
//	         nothing with the terminal under test, which must not notice.
type ttyOp struct {
	K    string   `json:"k"`
	B    []int    `json:"b,omitempty"` // byte values 0..255 (ints keep the replay file readable)
	X    uint32   `json:"x,omitempty"`
	Y    uint32   `json:"y,omitempty"`
	On   bool     `json:"on,omitempty"`
	Cons *ttyCons `json:"cons,omitempty"`
}

type ttyCase struct {
	Cons       ttyCons `json:"cons"`
	Scrollback uint32  `json:"scrollback"`
	Tab        uint8   `json:"tab"`
	Ops        []ttyOp `json:"ops"`
	// Pre (C18): states the terminal is put into before it is attached to its first console
	// (true = active); it is inactive again when the console is attached, as in the kernel
	Pre []bool `json:"pre,omitempty"`
}

func (op ttyOp) bytes() []byte {
	b := make([]byte, len(op.B))
	for i, v := range op.B {
		b[i] = byte(v)
	}
	return b
}

func (op ttyOp) String() string {
	switch op.K {
	case "b":
		if len(op.B) == 1 {
			return fmt.Sprintf("WriteByte(%q)", byte(op.B[0]))
		}
		return "WriteByte(?)"
	case "w":
		s := string(op.bytes())
		if len(s) > 24 {
			return fmt.Sprintf("Write(%q... %d bytes)", s[:24], len(s))
		}
		return fmt.Sprintf("Write(%q)", s)
	case "cur":
		return fmt.Sprintf("SetCursorPosition(%d,%d)", op.X, op.Y)
	case "state":
		if op.On {
			return "SetState(active)"
		}
		return "SetState(inactive)"
	case "attach":
		if op.Cons != nil {
			return fmt.Sprintf("AttachTo(%s %dx%d)", op.Cons.Kind, op.Cons.W, op.Cons.H)
		}
		return "AttachTo(?)"
	case "other":
		if op.Cons != nil {
			return fmt.Sprintf("[another terminal is created on its own %dx%d console and gets %d bytes]", op.Cons.W, op.Cons.H, len(op.B))
		}
		return "[another terminal]"
	}
	return "?" + op.K
}

// ---------------------------------------------------------------------------
// reference terminal — written from the statement of C17:
//
//   carriage return moves to column one, line feed to the start of the next
//   line, backspace moves one column left and blanks that cell (nothing in
//   column one), tab writes tab-width spaces, and every other byte is stored at
//   the cursor in the default colours and advances it, wrapping to the next
//   line after the last column. A line feed on the last viewport line first
//   moves the viewport down through the scrollback and, once that is used up,
//   scrolls the viewport's lines up by one and blanks the last line; the cursor
//   always stays inside the viewport.

type ttyCell struct{ Ch, Fg, Bg uint8 }

func (c ttyCell) String() string { return fmt.Sprintf("(%q fg %d bg %d)", c.Ch, c.Fg, c.Bg) }

type refTerm struct {
	w, h, sb, tab int
	fg, bg        uint8     // default colours
	buf           []ttyCell // (h+sb) lines of w cells; the viewport shows lines vy .. vy+h-1
	vy            int
	cx, cy        int // cursor, 1-based, relative to the viewport

	// what the history exercised
	wraps      int // automatic wraps after the last column
	viewMoves  int // line feeds that moved the viewport through the scrollback
	bufScrolls int // line feeds that scrolled the viewport's lines
	bsCol1     int // backspaces in column one
	bsOther    int
	tabs       int
}

func newRefTerm(w, h, sb, tab int, fg, bg uint8) *refTerm {
	r := &refTerm{w: w, h: h, sb: sb, tab: tab, fg: fg, bg: bg, cx: 1, cy: 1}
	r.buf = make([]ttyCell, w*(h+sb))
	for i := range r.buf {
		r.buf[i] = r.blank()
	}
	return r
}

func (r *refTerm) blank() ttyCell { return ttyCell{' ', r.fg, r.bg} }

// at returns the buffer index of viewport position (x, y), 1-based.
func (r *refTerm) at(x, y int) int { return (r.vy+y-1)*r.w + (x - 1) }

func (r *refTerm) lineFeed() {
	r.cx = 1
	if r.cy < r.h {
		r.cy++
		return
	}
	// on the last viewport line
	if r.vy+r.h < r.h+r.sb {
		r.vy++
		r.viewMoves++
		return
	}
	first, last := r.vy, r.vy+r.h-1
	copy(r.buf[first*r.w:last*r.w], r.buf[(first+1)*r.w:(last+1)*r.w])
	for i := last * r.w; i < (last+1)*r.w; i++ {
		r.buf[i] = r.blank()
	}
	r.bufScrolls++
}

func (r *refTerm) store(b byte) {
	r.buf[r.at(r.cx, r.cy)] = ttyCell{b, r.fg, r.bg}
	r.cx++
	if r.cx > r.w {
		r.wraps++
		r.lineFeed()
	}
}

func (r *refTerm) writeByte(b byte) {
	switch b {
	case '\r':
		r.cx = 1
	case '\n':
		r.lineFeed()
	case '\b':
		if r.cx > 1 {
			r.cx--
			r.buf[r.at(r.cx, r.cy)] = r.blank()
			r.bsOther++
		} else {
			r.bsCol1++
		}
	case '\t':
		r.tabs++
		for i := 0; i < r.tab; i++ {
			r.store(' ')
		}
	default:
		r.store(b)
	}
}

func (r *refTerm) setCursor(x, y uint32) {
	cx, cy := int64(x), int64(y)
	if cx < 1 {
		cx = 1
	}
	if cx > int64(r.w) {
		cx = int64(r.w)
	}
	if cy < 1 {
		cy = 1
	}
	if cy > int64(r.h) {
		cy = int64(r.h)
	}
	r.cx, r.cy = int(cx), int(cy)
}

func (r *refTerm) scrollEvents() int { return r.viewMoves + r.bufScrolls }

// ---------------------------------------------------------------------------
// reference text-grid console

// gridCons is a console.Device that is nothing but a grid of (char, fg, bg)
// cells. It records every drawing call (touches), marks the lines vacated by
// Scroll as undefined (the interface makes the caller responsible for them) and
// remembers the first call that would draw outside the grid.
type gridCons struct {
	// sizer, when set, answers Dimensions: the geometry a real console driver
	// reports for the pixel size the case describes (the drawing calls still go
	// to the cell grid below)
	sizer     console.Device
	w, h      uint32
	cells     []ttyCell
	undefined []bool
	touches   int    // Fill / Scroll / Write / SetPaletteColor calls
	outside   string // first drawing call addressing a cell outside the grid
	fg, bg    uint8  // DefaultColors
}

func newGridCons(w, h uint32) *gridCons {
	g := &gridCons{w: w, h: h, cells: make([]ttyCell, w*h), undefined: make([]bool, w*h), fg: 7, bg: 0}
	for i := range g.cells {
		g.cells[i] = ttyCell{'?', 0x5a, 0xa5} // "never drawn"
	}
	return g
}

func (g *gridCons) Dimensions(d console.Dimension) (uint32, uint32) {
	if g.sizer != nil {
		return g.sizer.Dimensions(d)
	}
	return g.w, g.h
}
func (g *gridCons) DefaultColors() (uint8, uint8)                 { return g.fg, g.bg }

// newGridConsFor builds the cell-grid console a case describes.
func newGridConsFor(spec ttyCons) *gridCons {
	g := newGridCons(spec.W, spec.H)
	if spec.Colors {
		g.fg, g.bg = spec.Fg, spec.Bg
	}
	return g
}

// ttyGenColors draws the default colours of a grid console: mostly the usual light grey on
// black, otherwise any pair.
func ttyGenColors(t *rapid.T, c *ttyCons) {
	if rapid.IntRange(0, 3).Draw(t, "colors") == 0 {
		c.Colors = true
		c.Fg = rapid.SampledFrom([]uint8{0, 1, 7, 15, 16, 255, 0x20, 7}).Draw(t, "deffg")
		c.Bg = rapid.SampledFrom([]uint8{0, 1, 7, 15, 16, 255, 0x20, 4}).Draw(t, "defbg")
	}
}
func (g *gridCons) Palette() color.Palette                        { return nil }
func (g *gridCons) SetPaletteColor(uint8, color.RGBA)             { g.touches++ }

// Fill draws the part of the rectangle that lies inside the grid (a console
// clips; what counts is what ends up drawn). 64-bit arithmetic: no wrap.
func (g *gridCons) Fill(x, y, width, height uint32, fg, bg uint8) {
	g.touches++
	for yy := uint64(y); yy < uint64(y)+uint64(height); yy++ {
		if yy < 1 || yy > uint64(g.h) {
			continue
		}
		for xx := uint64(x); xx < uint64(x)+uint64(width); xx++ {
			if xx < 1 || xx > uint64(g.w) {
				if xx > uint64(g.w) {
					break
				}
				continue
			}
			i := (yy-1)*uint64(g.w) + xx - 1
			g.cells[i] = ttyCell{' ', fg, bg}
			g.undefined[i] = false
		}
	}
}

func (g *gridCons) Scroll(dir console.ScrollDir, lines uint32) {
	g.touches++
	if lines == 0 {
		return
	}
	n := int(g.w) * int(g.h)
	k := n
	if lines < g.h {
		k = int(lines) * int(g.w)
	}
	switch dir {
	case console.ScrollDirUp:
		copy(g.cells, g.cells[k:])
		copy(g.undefined, g.undefined[k:])
		for i := n - k; i < n; i++ {
			g.undefined[i] = true
		}
	case console.ScrollDirDown:
		copy(g.cells[k:], g.cells[:n-k])
		copy(g.undefined[k:], g.undefined[:n-k])
		for i := 0; i < k; i++ {
			g.undefined[i] = true
		}
	}
}

func (g *gridCons) Write(ch byte, fg, bg uint8, x, y uint32) {
	g.touches++
	if x < 1 || x > g.w || y < 1 || y > g.h {
		if g.outside == "" {
			g.outside = fmt.Sprintf("Write(%q, fg %d, bg %d) at cell (%d,%d) of a %dx%d grid", ch, fg, bg, x, y, g.w, g.h)
		}
		return
	}
	i := (y-1)*g.w + x - 1
	g.cells[i] = ttyCell{ch, fg, bg}
	g.undefined[i] = false
}

// ---------------------------------------------------------------------------
// applying an op to the real terminal

// ttyApply performs a write / cursor / state op on the real terminal. Attach
// ops are handled by the callers (they own the consoles).
func ttyApply(vt *VT, op ttyOp) string {
	switch op.K {
	case "b":
		if len(op.B) != 1 {
			return ""
		}
		if err := vt.WriteByte(byte(op.B[0])); err != nil {
			return fmt.Sprintf("WriteByte returned the error %v", err)
		}
	case "w":
		b := op.bytes()
		n, err := vt.Write(b)
		if err != nil || n != len(b) {
			return fmt.Sprintf("Write of %d bytes returned (%d, %v)", len(b), n, err)
		}
	case "cur":
		vt.SetCursorPosition(op.X, op.Y)
	case "state":
		if op.On {
			vt.SetState(StateActive)
		} else {
			vt.SetState(StateInactive)
		}
	case "other":
		if op.Cons == nil || ttyValidCons(*op.Cons) != nil || (op.Cons.Kind != "grid") {
			return ""
		}
		o := NewVT(vt.tabWidth, vt.scrollback)
		o.AttachTo(newGridConsFor(*op.Cons))
		if op.On {
			o.SetState(StateActive)
		}
		o.Write(op.bytes())
		ttyOthers = append(ttyOthers, o)
	}
	return ""
}

// ttyOthers keeps the other terminals of the running case alive.
var ttyOthers []*VT

// ttyApplyRef performs the same op on the reference terminal.
func ttyApplyRef(r *refTerm, op ttyOp) {
	switch op.K {
	case "b":
		if len(op.B) == 1 {
			r.writeByte(byte(op.B[0]))
		}
	case "w":
		for _, b := range op.bytes() {
			r.writeByte(b)
		}
	case "cur":
		r.setCursor(op.X, op.Y)
	}
}

// ttyValidCons rejects console descriptions outside the generated domain
// (hand-edited replay files).
func ttyValidCons(c ttyCons) error {
	if c.W < 1 || c.H < 1 || c.W > 640 || c.H > 300 {
		return fmt.Errorf("console grid %dx%d outside the generated domain", c.W, c.H)
	}
	switch c.Kind {
	case "grid", "vga":
		return nil
	case "fb":
		return nil // checked in detail by c18NewFb
	case "fbsize":
		if c.Font < 0 || c.Font >= len(ttyFontNames) || c.RemW > 7 || c.RemH > 15 || c.Pad > 256 {
			return fmt.Errorf("fbsize console outside the generated domain")
		}
		return nil
	}
	return fmt.Errorf("unknown console kind %q", c.Kind)
}

// ---------------------------------------------------------------------------
// generators
//
// rapid's integer generators are deliberately biased towards small values (for
// IntRange(0,99): 0 and 1 about 10% each, 2..3 5% each, 4..7 2.4% each, 8..15
// 1.3% each, 16..31 0.9% each, 32..63 0.6% each, 64..98 0.5% each, 99 3%). The
// class selectors below are laid out for that distribution (the percentages in
// the comments are the resulting class frequencies) and so that shrinking, which
// lowers the drawn value, moves towards the simplest class.

func ttyGenByte(t *rapid.T) int {
	k := rapid.IntRange(0, 99).Draw(t, "byteclass")
	switch {
	case k < 16: // ~50%: printable, not the blank
		return 0x21 + rapid.IntRange(0, 0x7e-0x21).Draw(t, "printable")
	case k < 32: // ~14%
		return '\n'
	case k < 48: // ~10%
		return '\b'
	case k < 64: // ~10%
		return '\t'
	case k < 78: // ~7%
		return '\r'
	case k < 84: // ~3%
		return ' '
	case k < 90: // ~3%
		return 0x00
	case k < 96: // ~3%
		return 0xff
	}
	return rapid.IntRange(0, 255).Draw(t, "anybyte") // ~4%
}

func ttyGenChunk(t *rapid.T) []int {
	maxLen := 40
	switch rapid.IntRange(0, 9).Draw(t, "chunkstyle") {
	case 8: // ~7%: a run of printable bytes: wraps
		n := rapid.IntRange(1, 60).Draw(t, "run")
		ch := rapid.IntRange(0x21, 0x7e).Draw(t, "runch")
		out := make([]int, n)
		for i := range out {
			out[i] = ch + i%3
			if out[i] > 0x7e {
				out[i] = 0x21
			}
		}
		return out
	case 7, 6: // ~16%: short lines: line feeds on the last line
		n := 25 - rapid.IntRange(1, 24).Draw(t, "lines") // biased towards many
		if vlib.Thorough() && rapid.Bool().Draw(t, "manylines") {
			n *= 3
		}
		ch := rapid.IntRange(0x21, 0x7e).Draw(t, "linech")
		var out []int
		for i := 0; i < n; i++ {
			out = append(out, ch, '\n')
		}
		return out
	case 9: // ~10%
		if vlib.Thorough() {
			maxLen = 300
		}
	}
	return rapid.SliceOfN(rapid.Custom(ttyGenByte), 1, maxLen).Draw(t, "chunk")
}

func ttyGenCoord(t *rapid.T, label string) uint32 {
	switch rapid.IntRange(0, 9).Draw(t, label+"class") {
	case 9: // ~10%
		if rapid.Bool().Draw(t, label+"wrap") {
			// far outside the viewport, but its 32-bit product with a stride the terminal may
			// multiply coordinates by (3 bytes per cell, 3*width bytes per line) wraps to a
			// small number: v = ceil(k*2^32/m) + d
			m := uint64(3 * rapid.IntRange(1, 14).Draw(t, label+"stride"))
			k := uint64(rapid.IntRange(1, int(m)-1).Draw(t, label+"wrapk"))
			return uint32((k<<32+m-1)/m + uint64(rapid.IntRange(0, 15).Draw(t, label+"wrapd")))
		}
		return rapid.SampledFrom([]uint32{1<<32 - 1, 1 << 31, 1 << 16, 256, 255}).Draw(t, label+"huge")
	case 8: // ~7%
		return rapid.Uint32Range(0, 210).Draw(t, label+"wide")
	case 7, 6: // ~16%
		return 0
	case 5, 4: // ~16%: towards the far edge of a small grid
		return 14 - rapid.Uint32Range(0, 14).Draw(t, label+"far")
	}
	return 1 + rapid.Uint32Range(0, 13).Draw(t, label) // ~50%
}

// ttyGenOp returns the op generator of a history. consGen (nil: no re-attach)
// generates the consoles of re-attach ops; manyStates raises the share of
// SetState ops (C18).
func ttyGenOp(consGen func(*rapid.T) ttyCons, manyStates bool) func(*rapid.T) ttyOp {
	stateFrom := 90 // ~4.5%
	if manyStates {
		stateFrom = 80 // ~9%
	}
	return func(t *rapid.T) ttyOp {
		k := rapid.IntRange(0, 99).Draw(t, "opkind")
		switch {
		case k == 0: // ~10%: dropped by ttyGenOps; lets the shrinker delete any op
			return ttyOp{K: "nop"}
		case k < 16: // ~40%
			return ttyOp{K: "b", B: []int{ttyGenByte(t)}}
		case k < 58: // ~30%
			return ttyOp{K: "w", B: ttyGenChunk(t)}
		case k < stateFrom || k == 99: // ~14% (~9%)
			return ttyOp{K: "cur", X: ttyGenCoord(t, "x"), Y: ttyGenCoord(t, "y")}
		case k == 96 && consGen != nil: // ~0.5%
			oc := ttyCons{Kind: "grid", W: ttyGenDim(t, "ow", 12), H: ttyGenDim(t, "oh", 6)}
			ttyGenColors(t, &oc)
			return ttyOp{K: "other", Cons: &oc, On: rapid.Bool().Draw(t, "otheractive"), B: ttyGenChunk(t)}
		case k < 97 || consGen == nil:
			return ttyOp{K: "state", On: rapid.IntRange(0, 2).Draw(t, "on") != 2}
		}
		c := consGen(t) // k = 97, 98: ~1%
		return ttyOp{K: "attach", Cons: &c}
	}
}

// ttyGenOps draws a history of at most 400 ops. rapid's slice length is
// geometric around min+max(min,5), so a minimum length is drawn first; "nop"
// elements are dropped, so that the shrinker can remove any op although the raw
// slice has a minimum length.
func ttyGenOps(t *rapid.T, gen func(*rapid.T) ttyOp) []ttyOp {
	minLen := []int{0, 0, 12, 12, 40, 40, 40, 100, 100, 200}[rapid.IntRange(0, 9).Draw(t, "lenclass")]
	raw := rapid.SliceOfN(rapid.Custom(gen), minLen, 400).Draw(t, "ops")
	ops := make([]ttyOp, 0, len(raw))
	for _, op := range raw {
		if op.K != "nop" {
			ops = append(ops, op)
		}
	}
	return ops
}

// ttyGenDim draws a grid dimension in 1..max: the edge value 1 over-represented,
// otherwise spread over the whole range (small ranges: half of the draws biased
// towards max; large ranges: a tenth of the range is chosen first).
func ttyGenDim(t *rapid.T, label string, max int) uint32 {
	if max > 20 {
		if rapid.IntRange(0, 9).Draw(t, label+"edge") == 0 { // ~16%
			return 1
		}
		step := max / 10
		v := 1 + rapid.IntRange(0, 9).Draw(t, label+"tenth")*step + rapid.IntRange(0, step-1).Draw(t, label)
		if v > max {
			v = max
		}
		return uint32(v)
	}
	v := rapid.IntRange(1, max).Draw(t, label)
	if rapid.Bool().Draw(t, label+"flip") {
		v = max + 1 - v
		if v == 1 && max > 1 {
			v = 2
		}
	}
	return uint32(v)
}

func ttyGenScrollback(t *rapid.T) uint32 {
	return uint32(rapid.IntRange(0, 6).Draw(t, "scrollback")) // 0: ~20%
}

func ttyGenTab(t *rapid.T) uint8 {
	v := rapid.IntRange(0, 9).Draw(t, "tab") // 0: ~16%
	if v > 1 && rapid.Bool().Draw(t, "tabflip") {
		v = 11 - v
	}
	return uint8(v)
}
