//go:build verif && go1.21

package tty

// C17 — terminal emulator state always matches the reference terminal model.
//
// Oracle: the reference terminal of tty_ref_test.go (written from the
// statement). After every op of a generated history the real terminal's
// CursorPosition(), viewport origin and every (char, fg, bg) triple of its
// buffer equal the model, the cursor is inside the viewport and nothing
// panicked (the buffer is a bounds-checked slice: a write outside it panics).

import (
	"github.com/ProjectSerenity/firefly/kernel/device/video/console/font"
	"github.com/ProjectSerenity/firefly/kernel/device/video/console"
	"fmt"
	"testing"

	"pgregory.net/rapid"
	"verifharness/vlib"
)

type c17Stats struct {
	wraps, viewMoves, bufScrolls int
	bsCol1, tabs                 int
	attaches                     int
	oneCol, oneRow               bool
	large                        bool
	curOut                       int // SetCursorPosition with an out-of-range coordinate
	stateChanges                 int
}

func (s *c17Stats) absorb(r *refTerm) {
	s.wraps += r.wraps
	s.viewMoves += r.viewMoves
	s.bufScrolls += r.bufScrolls
	s.bsCol1 += r.bsCol1
	s.tabs += r.tabs
	if r.w == 1 {
		s.oneCol = true
	}
	if r.h == 1 {
		s.oneRow = true
	}
	if r.w > 12 || r.h > 12 {
		s.large = true
	}
}

// c17Compare compares the real terminal with the model.
func c17Compare(vt *VT, r *refTerm, wantState State) string {
	x, y := vt.CursorPosition()
	if x < 1 || uint64(x) > uint64(r.w) || y < 1 || uint64(y) > uint64(r.h) {
		return fmt.Sprintf("the cursor (%d,%d) is outside the %dx%d viewport", x, y, r.w, r.h)
	}
	if int(x) != r.cx || int(y) != r.cy {
		return fmt.Sprintf("cursor is (%d,%d), reference terminal (%d,%d)", x, y, r.cx, r.cy)
	}
	if int64(vt.viewportY) != int64(r.vy) {
		return fmt.Sprintf("viewport starts at buffer line %d, reference terminal %d", vt.viewportY, r.vy)
	}
	if vt.State() != wantState {
		return fmt.Sprintf("State() is %d, want %d", vt.State(), wantState)
	}
	// (what the terminal keeps behind its last line - a spare line, say - is its own business)
	if len(vt.data) < len(r.buf)*3 {
		return fmt.Sprintf("buffer holds %d bytes, the %d lines x %d columns x 3 of the terminal need %d", len(vt.data), r.h+r.sb, r.w, len(r.buf)*3)
	}
	for i, want := range r.buf {
		got := ttyCell{vt.data[3*i], vt.data[3*i+1], vt.data[3*i+2]}
		if got != want {
			return fmt.Sprintf("buffer line %d column %d holds %v, reference terminal %v (viewport starts at line %d, cursor (%d,%d))",
				i/r.w, i%r.w+1, got, want, r.vy, r.cx, r.cy)
		}
	}
	return ""
}

func c17Run(c ttyCase) (*vlib.Failure, c17Stats) {
	defer vlib.Guard("C17", c, nil)()
	var st c17Stats
	if err := ttyValidCons(c.Cons); err != nil {
		return vlib.Failf("invalid case: %v", err), st
	}
	cons := c17NewCons(c.Cons)
	ttyOthers = nil
	vt := NewVT(c.Tab, c.Scrollback)
	var ref *refTerm
	state := StateInactive

	attach := func(g *gridCons) vlib.Caught {
		pc := vlib.Catch(func() { vt.AttachTo(g) })
		fg, bg := g.DefaultColors()
		// the reference terminal has the size of the console: for "fbsize" consoles
		// the cells that fit into the pixels, whatever the driver reports
		ref = newRefTerm(int(g.w), int(g.h), int(c.Scrollback), int(c.Tab), fg, bg)
		return pc
	}
	if pc := attach(cons); pc.Panicked {
		return vlib.Failf("AttachTo(%dx%d console) %v", cons.w, cons.h, pc), st
	}
	if msg := c17Compare(vt, ref, state); msg != "" {
		return vlib.Failf("after attaching to a %dx%d console (scrollback %d): %s", cons.w, cons.h, c.Scrollback, msg), st
	}

	for i, op := range c.Ops {
		when := fmt.Sprintf("op %d %s on a %dx%d terminal (scrollback %d, tab %d)", i, op, ref.w, ref.h, c.Scrollback, c.Tab)
		switch op.K {
		case "attach":
			if op.Cons == nil || ttyValidCons(*op.Cons) != nil {
				return vlib.Failf("invalid case: %s", when), st
			}
			st.absorb(ref)
			st.attaches++
			g := c17NewCons(*op.Cons)
			if pc := attach(g); pc.Panicked {
				return vlib.Failf("%s: %v", when, pc), st
			}
		case "b", "w", "cur", "state", "other":
			if op.K == "cur" && (op.X < 1 || op.Y < 1 || int64(op.X) > int64(ref.w) || int64(op.Y) > int64(ref.h)) {
				st.curOut++
			}
			if op.K == "state" {
				want := StateInactive
				if op.On {
					want = StateActive
				}
				if want != state {
					st.stateChanges++
				}
				state = want
			}
			var msg string
			pc := vlib.Catch(func() { msg = ttyApply(vt, op) })
			if pc.Panicked {
				st.absorb(ref)
				return vlib.Failf("%s: %v", when, pc), st
			}
			if msg != "" {
				st.absorb(ref)
				return vlib.Failf("%s: %s", when, msg), st
			}
			ttyApplyRef(ref, op)
		default:
			return vlib.Failf("invalid case: unknown op kind %q", op.K), st
		}
		if msg := c17Compare(vt, ref, state); msg != "" {
			st.absorb(ref)
			return vlib.Failf("after %s: %s", when, msg), st
		}
	}
	st.absorb(ref)
	return nil, st
}

func c17Classify(c ttyCase, s c17Stats) (bool, []string) {
	var l []string
	if s.oneCol {
		l = append(l, "1-column")
	}
	if s.oneRow {
		l = append(l, "1-row")
	}
	if c.Scrollback == 0 {
		l = append(l, "scrollback-0")
	}
	if c.Tab == 0 && s.tabs > 0 {
		l = append(l, "tab-0")
	}
	if s.bsCol1 > 0 {
		l = append(l, "backspace-at-column-1")
	}
	if s.attaches > 0 {
		l = append(l, "re-attach")
	}
	if s.large {
		l = append(l, "geometry>12")
	}
	if s.curOut > 0 {
		l = append(l, "cursor-move-out-of-range")
	}
	if s.stateChanges > 0 {
		l = append(l, "state-change")
	}
	if s.wraps > 0 {
		l = append(l, "wrapped")
	}
	if s.viewMoves > 0 {
		l = append(l, "viewport-moved")
	}
	if s.bufScrolls > 0 {
		l = append(l, "buffer-scrolled")
	}
	if s.bufScrolls >= 3 {
		l = append(l, "buffer-scrolled>=3")
	}
	nt := s.wraps >= 1 && s.bufScrolls >= 1
	if nt {
		l = append(l, "nontrivial")
	}
	return nt, l
}

// c17NewCons returns the console mock for a case. Kind "fbsize": the size the
// terminal is told comes from the shipped framebuffer driver, set up for a
// screen of W x H glyph cells plus RemW/RemH spare pixels and Pad spare bytes
// per scanline; the reference terminal is W x H.
func c17NewCons(spec ttyCons) *gridCons {
	g := newGridConsFor(spec)
	if spec.Kind != "fbsize" {
		return g
	}
	f := font.FindByName(ttyFontNames[spec.Font])
	if f == nil {
		panic("VERIF-HARNESS shipped font not found")
	}
	bpp := spec.Bpp
	if bpp == 0 {
		bpp = 32
	}
	width, height := spec.W*f.GlyphWidth+spec.RemW, spec.H*f.GlyphHeight+spec.RemH
	fb := console.NewVesaFbConsole(width, height, bpp, width*uint32((bpp+7)/8)+spec.Pad, nil, 0xfd000000)
	fb.SetFont(f)
	g.sizer = fb
	return g
}

func c17GenCons(t *rapid.T) ttyCons {
	c := c17GenConsShape(t)
	ttyGenColors(t, &c)
	return c
}

func c17GenConsShape(t *rapid.T) ttyCons {
	if rapid.IntRange(0, 5).Draw(t, "fbsize") == 0 {
		return ttyCons{Kind: "fbsize", W: ttyGenDim(t, "w", 12), H: ttyGenDim(t, "h", 12),
			Bpp:  rapid.SampledFrom([]uint8{8, 16, 24, 32}).Draw(t, "bpp"),
			Font: rapid.IntRange(0, len(ttyFontNames)-1).Draw(t, "font"),
			RemW: uint32(rapid.IntRange(0, 7).Draw(t, "remw")), RemH: uint32(rapid.IntRange(0, 15).Draw(t, "remh")),
			Pad: uint32(rapid.SampledFrom([]int{0, 0, 1, 8, 40, 64, 200}).Draw(t, "pad"))}
	}
	if vlib.Thorough() && rapid.IntRange(0, 19).Draw(t, "large") == 0 {
		return ttyCons{Kind: "grid", W: uint32(rapid.IntRange(13, 200).Draw(t, "bigw")), H: uint32(rapid.IntRange(1, 60).Draw(t, "bigh"))}
	}
	return ttyCons{Kind: "grid", W: ttyGenDim(t, "w", 12), H: ttyGenDim(t, "h", 12)}
}

func c17GenCase(t *rapid.T) ttyCase {
	c := ttyCase{Cons: c17GenCons(t), Scrollback: ttyGenScrollback(t), Tab: ttyGenTab(t)}
	reattach := func(t *rapid.T) ttyCons {
		if rapid.IntRange(0, 2).Draw(t, "sameshape") == 0 {
			// the same geometry again, with other default colours
			cc := c.Cons
			cc.Colors, cc.Fg, cc.Bg = true, uint8(rapid.IntRange(0, 15).Draw(t, "newfg")), uint8(rapid.IntRange(0, 15).Draw(t, "newbg"))
			return cc
		}
		return c17GenCons(t)
	}
	if vlib.OpenFinding("F-C17") {
		// known finding: a re-attached terminal writes at a stale offset
		reattach = nil
	}
	c.Ops = ttyGenOps(t, ttyGenOp(reattach, false))
	return c
}

func TestVerifC17(t *testing.T) {
	st := vlib.For("C17")
	defer vlib.Flush()
	if vlib.OpenFinding("F-C17") {
		st.Exclude("re-attach ops (F-C17)")
	}
	rapid.Check(t, func(t *rapid.T) {
		c := c17GenCase(t)
		fail, rs := c17Run(c)
		nt, labels := c17Classify(c, rs)
		st.Case(c, nt, labels...)
		vlib.Report(t, "C17", c, fail)
	})
}

func TestVerifC17Replay(t *testing.T) {
	var c ttyCase
	ok, err := vlib.LoadReplay(&c)
	if !ok {
		t.Skip("no replay requested")
	}
	if err != nil {
		t.Fatalf("VERIF-HARNESS cannot load replay: %v", err)
	}
	fail, _ := c17Run(c)
	vlib.Report(t, "C17", c, fail)
}
