//go:build verif && go1.21

package tty

// C18 — an active terminal and its console always show the same thing.
//
// The C17 histories with activate/deactivate interleaved run against three
// console kinds: the reference text grid (tty_ref_test.go), the real
// VgaTextConsole and the real VesaFbConsole, both brought up through their real
// DriverInit with the framebuffer mapping seam pointed at guarded host memory
// that is pre-filled with a pattern.
//
// Oracle, after every op:
//   - terminal active: every cell of the console grid shows the (char, fg, bg) of
//     the corresponding cell of the terminal's own viewport (read from the
//     terminal's buffer). Text mode: the little-endian 16-bit cell value is
//     (bg<<4|fg)<<8|ch. Framebuffer: the pixels of the cell equal the harness'
//     own rendering of the font glyph (bit 1 -> fg, 0 -> bg, colours packed for
//     the depth / colour masks; the 4th byte of a 32-bpp pixel is not asserted).
//   - nothing is drawn outside the cell grid: logo scanlines, the scanlines
//     below the last text row and the memory behind the framebuffer are
//     byte-identical to their state after set-up; a byte right of the last
//     column (remainder strip, row padding) on a text scanline holds the value a
//     byte at the same offset of a scanline a whole number (<= number of
//     scrolls requested so far) of glyph rows further down held after set-up —
//     see c18Fb.verify for why that, and nothing stronger, is sound.
//   - terminal inactive: the console is not touched (reference grid: no drawing
//     call at all; real consoles: every byte of the mapped memory unchanged).

import (
	"bytes"
	"fmt"
	"image/color"
	"io"
	"testing"
	"unsafe"

	"github.com/ProjectSerenity/firefly/kernel"
	"github.com/ProjectSerenity/firefly/kernel/device/video/console"
	"github.com/ProjectSerenity/firefly/kernel/device/video/console/font"
	"github.com/ProjectSerenity/firefly/kernel/device/video/console/logo"
	"github.com/ProjectSerenity/firefly/kernel/mm"
	"github.com/ProjectSerenity/firefly/kernel/mm/vmm"
	"github.com/ProjectSerenity/firefly/kernel/multiboot"
	"pgregory.net/rapid"
	"verifharness/vlib"
)

// c18Dev is a console under observation.
type c18Dev interface {
	device() console.Device
	dims() (w, h int)
	// verify compares what the console shows with the viewport (w*h cells, row
	// major). scrolls is the number of one-line scrolls the terminal had reason to
	// request from this console so far.
	verify(view []ttyCell, scrolls int) string
	freeze()            // remember the complete observable state
	frozenDiff() string // "" when nothing changed since freeze
	misuse() string     // a drawing call that addressed a cell outside the grid
	free()
}

// ---------------------------------------------------------------------------
// reference text grid

type c18Grid struct {
	g      *gridCons
	frozen int
}

func (d *c18Grid) device() console.Device { return d.g }
func (d *c18Grid) dims() (int, int)       { return int(d.g.w), int(d.g.h) }
func (d *c18Grid) freeze()                { d.frozen = d.g.touches }
func (d *c18Grid) misuse() string         { return d.g.outside }
func (d *c18Grid) free()                  {}

func (d *c18Grid) frozenDiff() string {
	if d.g.touches != d.frozen {
		return fmt.Sprintf("%d drawing call(s) reached the console", d.g.touches-d.frozen)
	}
	return ""
}

func (d *c18Grid) verify(view []ttyCell, _ int) string {
	for i, want := range view {
		x, y := i%int(d.g.w)+1, i/int(d.g.w)+1
		if d.g.undefined[i] {
			return fmt.Sprintf("console cell (%d,%d) was vacated by Scroll and never redrawn; the viewport holds %v there", x, y, want)
		}
		if d.g.cells[i] != want {
			return fmt.Sprintf("console cell (%d,%d) shows %v, the viewport holds %v", x, y, d.g.cells[i], want)
		}
	}
	return ""
}

// ---------------------------------------------------------------------------
// seams of the console package

func c18MapTo(g *vlib.Guarded, wantSize uintptr, seen *uintptr) func(mm.Frame, uintptr, vmm.PageTableEntryFlag) (mm.Page, *kernel.Error) {
	return func(_ mm.Frame, size uintptr, _ vmm.PageTableEntryFlag) (mm.Page, *kernel.Error) {
		*seen = size
		return mm.PageFromAddress(g.Addr()), nil
	}
}

func c18FirstDiff(a, b []byte) int {
	for i := range a {
		if a[i] != b[i] {
			return i
		}
	}
	return -1
}

// ---------------------------------------------------------------------------
// real text-mode console

type c18Vga struct {
	w, h   int
	g      *vlib.Guarded
	cons   *console.VgaTextConsole
	base   []byte
	frozen []byte
}

func c18NewVga(spec ttyCons) (*c18Vga, error) {
	if spec.W < 1 || spec.H < 1 || spec.W > 400 || spec.H > 200 {
		return nil, fmt.Errorf("text console %dx%d outside the generated domain", spec.W, spec.H)
	}
	d := &c18Vga{w: int(spec.W), h: int(spec.H)}
	size := d.w * d.h * 2
	g, err := vlib.NewGuarded(size, false)
	if err != nil {
		return nil, err
	}
	d.g = g
	// pattern: every byte >= 0x80, so no untouched cell has the attribute 0x07
	for i := range g.Data {
		g.Data[i] = 0x80 | byte((i*37+i>>7)&0x7f)
	}
	var mapped uintptr
	oldMap := console.VerifSetMapRegionFn(c18MapTo(g, uintptr(size), &mapped))
	defer console.VerifSetMapRegionFn(oldMap)
	d.cons = console.NewVgaTextConsole(spec.W, spec.H, 0xb8000)
	var kerr *kernel.Error
	if pc := vlib.CatchFault(func() { kerr = d.cons.DriverInit(io.Discard) }); pc.Panicked {
		g.Free()
		return nil, fmt.Errorf("VgaTextConsole.DriverInit: %v", pc)
	}
	fb := d.cons.VerifFramebuffer()
	if kerr != nil || int(mapped) != size || len(fb) != d.w*d.h || uintptr(unsafe.Pointer(&fb[0])) != g.Addr() {
		g.Free()
		return nil, fmt.Errorf("VgaTextConsole.DriverInit: err %v, mapped %d bytes (want %d), framebuffer of %d cells", kerr, mapped, size, len(fb))
	}
	if cw, ch := d.cons.Dimensions(console.Characters); int(cw) != d.w || int(ch) != d.h {
		g.Free()
		return nil, fmt.Errorf("VgaTextConsole reports %dx%d characters, built as %dx%d", cw, ch, d.w, d.h)
	}
	d.base = append([]byte(nil), g.Data...)
	return d, nil
}

func (d *c18Vga) device() console.Device { return d.cons }
func (d *c18Vga) dims() (int, int)       { return d.w, d.h }
func (d *c18Vga) misuse() string         { return "" }
func (d *c18Vga) freeze()                { d.frozen = append(d.frozen[:0], d.g.Data...) }
func (d *c18Vga) free()                  { d.g.Free() }

func (d *c18Vga) frozenDiff() string {
	if i := c18FirstDiff(d.g.Data, d.frozen); i >= 0 {
		if i < d.w*d.h*2 {
			return fmt.Sprintf("framebuffer byte %d (cell (%d,%d)) changed from %#02x to %#02x", i, i/2%d.w+1, i/2/d.w+1, d.frozen[i], d.g.Data[i])
		}
		return fmt.Sprintf("byte %d behind the %d-byte framebuffer changed", i, d.w*d.h*2)
	}
	return ""
}

func (d *c18Vga) verify(view []ttyCell, _ int) string {
	mem := d.g.Data
	for i, want := range view {
		got := uint16(mem[2*i]) | uint16(mem[2*i+1])<<8
		exp := (uint16(want.Bg)<<4|uint16(want.Fg))<<8 | uint16(want.Ch)
		if got != exp {
			return fmt.Sprintf("text cell (%d,%d) holds %#04x, the viewport holds %v = %#04x", i%d.w+1, i/d.w+1, got, want, exp)
		}
	}
	n := 2 * d.w * d.h
	if !bytes.Equal(mem[n:], d.base[n:]) {
		return fmt.Sprintf("byte %d behind the %d-byte framebuffer changed", n+c18FirstDiff(mem[n:], d.base[n:]), n)
	}
	return ""
}

// ---------------------------------------------------------------------------
// real framebuffer console

var ttyFontNames = []string{"terminus8x16", "terminus10x18", "terminus14x28"}

type c18Layout struct{ rp, rs, gp, gs, bp, bs uint8 }

// c18Layouts lists the colour layouts generated for a depth. Every component
// lies inside the bytes the driver writes (2 for 15/16 bpp, 3 for 24/32 bpp).
func c18Layouts(bpp uint8) []c18Layout {
	switch bpp {
	case 15:
		return []c18Layout{{10, 5, 5, 5, 0, 5}, {0, 5, 5, 5, 10, 5}, {5, 5, 10, 5, 0, 5}}
	case 16:
		return []c18Layout{{11, 5, 5, 6, 0, 5}, {0, 5, 5, 6, 11, 5}, {10, 5, 5, 5, 0, 5}}
	case 24, 32:
		return []c18Layout{{16, 8, 8, 8, 0, 8}, {0, 8, 8, 8, 16, 8}, {8, 8, 16, 8, 0, 8}, {18, 6, 10, 6, 2, 6}}
	}
	return []c18Layout{{}}
}

func c18BytesPerPixel(bpp uint8) int {
	switch bpp {
	case 8:
		return 1
	case 15, 16:
		return 2
	case 24:
		return 3
	case 32:
		return 4
	}
	return 0
}

// c18FontCheck verifies what the oracle assumes about the shipped fonts: 256
// glyphs each, and a blank space glyph (so that Fill and a written space look
// the same).
func c18FontCheck() error {
	for _, name := range ttyFontNames {
		f := font.FindByName(name)
		if f == nil {
			return fmt.Errorf("shipped font %s not found", name)
		}
		per := int(f.BytesPerRow * f.GlyphHeight)
		if len(f.Data) != 256*per || f.BytesPerRow*8 < f.GlyphWidth {
			return fmt.Errorf("font %s: %d data bytes for 256 glyphs of %d bytes (width %d, %d bytes per row)", name, len(f.Data), per, f.GlyphWidth, f.BytesPerRow)
		}
		for i := ' ' * per; i < (' '+1)*per; i++ {
			if f.Data[i] != 0 {
				return fmt.Errorf("font %s: the space glyph is not blank (the C18 oracle assumes Fill == written space)", name)
			}
		}
	}
	return nil
}

type c18Fb struct {
	spec                 ttyCons
	fnt                  *font.Font
	g                    *vlib.Guarded
	cons                 *console.VesaFbConsole
	mem, base, frozen    []byte
	bpx, pitch           int // bytes per pixel, bytes per scanline
	width, height, offY  int
	gw, gh, w, h         int
	lay                  c18Layout
	pal                  color.Palette
	glyphs               map[ttyCell][]byte
	rowGlyphs            [][]byte
	portWrites, drawnLog int
}

func c18NewFb(spec ttyCons) (*c18Fb, error) {
	d := &c18Fb{spec: spec, w: int(spec.W), h: int(spec.H), glyphs: map[ttyCell][]byte{}}
	d.bpx = c18BytesPerPixel(spec.Bpp)
	if d.bpx == 0 || spec.Font < 0 || spec.Font >= len(ttyFontNames) || spec.W < 1 || spec.H < 1 || spec.W > 640 || spec.H > 300 || (spec.W > 100 && spec.H > 3) || (spec.H > 60 && spec.W > 3) {
		return nil, fmt.Errorf("framebuffer description outside the generated domain: %+v", spec)
	}
	d.fnt = font.FindByName(ttyFontNames[spec.Font])
	if d.fnt == nil {
		return nil, fmt.Errorf("shipped font %s not found", ttyFontNames[spec.Font])
	}
	d.gw, d.gh = int(d.fnt.GlyphWidth), int(d.fnt.GlyphHeight)
	lays := c18Layouts(spec.Bpp)
	if spec.Layout < 0 || spec.Layout >= len(lays) || int(spec.RemW) >= d.gw || int(spec.RemH) >= d.gh || spec.Pad > 64 || spec.LogoH > 40 {
		return nil, fmt.Errorf("framebuffer description outside the generated domain: %+v", spec)
	}
	d.lay = lays[spec.Layout]
	d.width = d.w*d.gw + int(spec.RemW)
	d.height = int(spec.LogoH) + d.h*d.gh + int(spec.RemH)
	d.pitch = d.width*d.bpx + int(spec.Pad)
	if spec.LogoH > 0 && (spec.LogoW < 1 || int(spec.LogoW) > d.width || spec.LogoAlign > 2 || spec.LogoColors < 1 || spec.LogoColors > 16) {
		return nil, fmt.Errorf("logo description outside the generated domain: %+v", spec)
	}
	size := d.height * d.pitch
	g, err := vlib.NewGuarded(size, false)
	if err != nil {
		return nil, err
	}
	d.g, d.mem = g, g.Data

	// Pattern: position dependent, and never a byte value that occurs in a
	// default-colour pixel (light grey 128,128,128 on black), so that a stray
	// glyph or fill pixel can never pass for untouched memory.
	var forbidden [256]bool
	forbidden[0], forbidden[7] = true, true
	if d.bpx > 1 {
		v := uint32(128>>(8-d.lay.rs))<<d.lay.rp | uint32(128>>(8-d.lay.gs))<<d.lay.gp | uint32(128>>(8-d.lay.bs))<<d.lay.bp
		for k := 0; k < 4; k++ {
			forbidden[byte(v>>(8*k))] = true
		}
	}
	for i := range d.mem {
		b := byte(0x21 + (i*7+(i/d.pitch)*29+(i>>11))%0xd0)
		for forbidden[b] {
			b++
		}
		d.mem[i] = b
	}
	pattern := append([]byte(nil), d.mem...)

	var mapped uintptr
	oldMap := console.VerifSetMapRegionFn(c18MapTo(g, uintptr(size), &mapped))
	oldPort := console.VerifSetPortWriteByteFn(func(uint16, uint8) { d.portWrites++ })
	defer console.VerifSetMapRegionFn(oldMap)
	defer console.VerifSetPortWriteByteFn(oldPort)

	var ci *multiboot.FramebufferRGBColorInfo
	if spec.Bpp != 8 {
		ci = &multiboot.FramebufferRGBColorInfo{RedPosition: d.lay.rp, RedMaskSize: d.lay.rs, GreenPosition: d.lay.gp, GreenMaskSize: d.lay.gs, BluePosition: d.lay.bp, BlueMaskSize: d.lay.bs}
	}
	d.cons = console.NewVesaFbConsole(uint32(d.width), uint32(d.height), spec.Bpp, uint32(d.pitch), ci, 0xfd000000)
	var kerr *kernel.Error
	pc := vlib.CatchFault(func() {
		// the order hal.onConsoleInit uses: DriverInit, SetLogo, SetFont
		kerr = d.cons.DriverInit(io.Discard)
		if kerr != nil {
			return
		}
		if spec.LogoH > 0 {
			d.cons.SetLogo(c18Logo(spec))
		}
		d.cons.SetFont(d.fnt)
	})
	if pc.Panicked {
		g.Free()
		return nil, fmt.Errorf("bringing up the VesaFbConsole %+v: %v", spec, pc)
	}
	fb := d.cons.VerifFramebuffer()
	if kerr != nil || int(mapped) != size || len(fb) != size || (size > 0 && vlib.AddrOf(fb) != g.Addr()) {
		g.Free()
		return nil, fmt.Errorf("VesaFbConsole.DriverInit: err %v, mapped %d bytes (want %d), framebuffer of %d bytes", kerr, mapped, size, len(fb))
	}
	d.offY = int(spec.LogoH)
	if cw, ch := d.cons.Dimensions(console.Characters); int(cw) != d.w || int(ch) != d.h || int(d.cons.VerifOffsetY()) != d.offY {
		g.Free()
		if (int(cw) > d.w || int(ch) > d.h) && int(d.cons.VerifOffsetY()) == d.offY {
			// more cells than fit into the pixels: not a harness matter, the terminal
			// would be told to draw where the screen has no cells
			return nil, c18GridError(fmt.Sprintf("the framebuffer console (%dx%d px, pitch %d, font %dx%d, logo %d scanlines) reports a grid of %dx%d cells, but only %dx%d cells fit: a terminal attached to it draws outside the grid",
				d.width, d.height, d.pitch, d.gw, d.gh, d.offY, cw, ch, d.w, d.h))
		}
		return nil, fmt.Errorf("VesaFbConsole %+v reports %dx%d characters below scanline %d, built as %dx%d below %d", spec, cw, ch, d.cons.VerifOffsetY(), d.w, d.h, d.offY)
	}
	// set-up may only have drawn the logo
	if i := c18FirstDiff(d.mem[d.offY*d.pitch:], pattern[d.offY*d.pitch:]); i >= 0 {
		g.Free()
		return nil, fmt.Errorf("VesaFbConsole %+v: set-up changed byte %d below the logo", spec, d.offY*d.pitch+i)
	}
	d.pal = d.cons.Palette()
	d.base = append([]byte(nil), d.mem...)
	d.rowGlyphs = make([][]byte, d.w)
	return d, nil
}

// c18Logo builds the logo described by the case (pixel data derived from the
// generated seed).
func c18Logo(spec ttyCons) *logo.Image {
	l := &logo.Image{Width: spec.LogoW, Height: spec.LogoH, Align: logo.Alignment(spec.LogoAlign), TransparentIndex: spec.LogoTransp}
	x := spec.LogoSeed*2654435761 + 12345
	next := func() uint32 {
		x = x*1664525 + 1013904223
		return x >> 8
	}
	for i := 0; i < spec.LogoColors; i++ {
		v := next()
		l.Palette = append(l.Palette, color.RGBA{R: uint8(v), G: uint8(v >> 8), B: uint8(v >> 16)})
	}
	l.Data = make([]uint8, spec.LogoW*spec.LogoH)
	for i := range l.Data {
		l.Data[i] = uint8(next() % uint32(spec.LogoColors))
	}
	return l
}

func (d *c18Fb) device() console.Device { return d.cons }
func (d *c18Fb) dims() (int, int)       { return d.w, d.h }
func (d *c18Fb) misuse() string         { return "" }
func (d *c18Fb) freeze()                { d.frozen = append(d.frozen[:0], d.mem...) }
func (d *c18Fb) free()                  { d.g.Free() }

func (d *c18Fb) where(i int) string {
	s, col := i/d.pitch, i%d.pitch
	switch {
	case i >= d.height*d.pitch:
		return fmt.Sprintf("byte %d behind the framebuffer", i-d.height*d.pitch)
	case s < d.offY:
		return fmt.Sprintf("logo scanline %d byte %d", s, col)
	case s >= d.offY+d.h*d.gh:
		return fmt.Sprintf("scanline %d byte %d (below the last text row)", s, col)
	case col >= d.width*d.bpx:
		return fmt.Sprintf("scanline %d byte %d (row padding)", s, col)
	case col >= d.w*d.gw*d.bpx:
		return fmt.Sprintf("scanline %d byte %d (right of the last column)", s, col)
	}
	px := col / d.bpx
	return fmt.Sprintf("scanline %d byte %d (cell (%d,%d), glyph row %d, pixel %d)", s, col, px/d.gw+1, (s-d.offY)/d.gh+1, (s-d.offY)%d.gh, px%d.gw)
}

func (d *c18Fb) frozenDiff() string {
	if i := c18FirstDiff(d.mem, d.frozen); i >= 0 {
		return fmt.Sprintf("%s changed from %#02x to %#02x", d.where(i), d.frozen[i], d.mem[i])
	}
	return ""
}

// pack returns the bytes of one pixel of palette colour idx (independent of the
// driver: component >> (8 - mask size) << position, little endian).
func (d *c18Fb) pack(idx uint8) []byte {
	if d.bpx == 1 {
		return []byte{idx}
	}
	c, ok := d.pal[idx].(color.RGBA)
	if !ok {
		return make([]byte, d.bpx)
	}
	v := uint32(c.R>>(8-d.lay.rs))<<d.lay.rp | uint32(c.G>>(8-d.lay.gs))<<d.lay.gp | uint32(c.B>>(8-d.lay.bs))<<d.lay.bp
	out := make([]byte, d.bpx)
	for k := range out {
		out[k] = byte(v >> (8 * k))
	}
	return out
}

// glyph renders a cell: gh rows of gw pixels.
func (d *c18Fb) glyph(c ttyCell) []byte {
	if g, ok := d.glyphs[c]; ok {
		return g
	}
	fg, bg := d.pack(c.Fg), d.pack(c.Bg)
	bpr := int(d.fnt.BytesPerRow)
	out := make([]byte, d.gh*d.gw*d.bpx)
	for r := 0; r < d.gh; r++ {
		for x := 0; x < d.gw; x++ {
			bits := d.fnt.Data[(int(c.Ch)*d.gh+r)*bpr+x/8]
			px := bg
			if bits&(0x80>>(uint(x)%8)) != 0 {
				px = fg
			}
			copy(out[(r*d.gw+x)*d.bpx:], px)
		}
	}
	d.glyphs[c] = out
	return out
}

// verify. What may happen outside the cell grid:
//
// The statement says "nothing is drawn outside the console's cell grid". Logo
// scanlines, the scanlines below the last text row and the memory behind the
// framebuffer are therefore required to be byte-identical to their state after
// set-up, always. For the bytes right of the last column of a text scanline
// (remainder strip and row padding) the same holds for Write and Fill; a
// console may however implement Scroll by moving whole scanlines (the shipped
// one does), which carries those bytes along with their scanline: that is not
// drawing — no cell content ever reaches them, the strip only ever holds
// values the strip held before — and it cannot be told apart from "untouched"
// on a real display whose border is uniform. So after k requested one-line
// scrolls such a byte must equal the set-up value of the byte at the same
// offset of a scanline j glyph rows further down, for some 0 <= j <= k (the
// source may be a scanline of the bottom strip). The pattern has no byte value
// in common with default-colour pixels, so anything drawn there is caught.
func (d *c18Fb) verify(view []ttyCell, scrolls int) string {
	mem, base := d.mem, d.base
	if n := d.offY * d.pitch; !bytes.Equal(mem[:n], base[:n]) {
		i := c18FirstDiff(mem[:n], base[:n])
		return fmt.Sprintf("%s changed from %#02x to %#02x", d.where(i), base[i], mem[i])
	}
	cellBytes := d.gw * d.bpx
	gridBytes := d.w * cellBytes
	for cy := 0; cy < d.h; cy++ {
		for cx := 0; cx < d.w; cx++ {
			d.rowGlyphs[cx] = d.glyph(view[cy*d.w+cx])
		}
		for r := 0; r < d.gh; r++ {
			s := d.offY + cy*d.gh + r
			line := mem[s*d.pitch : (s+1)*d.pitch]
			for cx := 0; cx < d.w; cx++ {
				want := d.rowGlyphs[cx][r*cellBytes : (r+1)*cellBytes]
				got := line[cx*cellBytes : (cx+1)*cellBytes]
				if d.bpx != 4 {
					if bytes.Equal(got, want) {
						continue
					}
				} else {
					same := true
					for k := 0; k < cellBytes; k += 4 {
						if got[k] != want[k] || got[k+1] != want[k+1] || got[k+2] != want[k+2] {
							same = false
							break
						}
					}
					if same {
						continue
					}
				}
				for px := 0; px < d.gw; px++ {
					n := d.bpx
					if n == 4 {
						n = 3
					}
					if !bytes.Equal(got[px*d.bpx:px*d.bpx+n], want[px*d.bpx:px*d.bpx+n]) {
						return fmt.Sprintf("cell (%d,%d) holds %v in the viewport; pixel (%d,%d) of the cell (scanline %d) is % x on the console, the glyph rendered in the cell's colours has % x there",
							cx+1, cy+1, view[cy*d.w+cx], px, r, s, got[px*d.bpx:px*d.bpx+n], want[px*d.bpx:px*d.bpx+n])
					}
				}
			}
			if out := line[gridBytes:]; !bytes.Equal(out, base[s*d.pitch+gridBytes:(s+1)*d.pitch]) {
				for col := gridBytes; col < d.pitch; col++ {
					ok := false
					for j := 0; j <= scrolls && s+j*d.gh < d.height; j++ {
						if base[(s+j*d.gh)*d.pitch+col] == line[col] {
							ok = true
							break
						}
					}
					if !ok {
						return fmt.Sprintf("%s holds %#02x: neither its value after set-up (%#02x) nor that of a scanline 1..%d glyph rows below", d.where(s*d.pitch+col), line[col], base[s*d.pitch+col], scrolls)
					}
				}
			}
		}
	}
	if n := (d.offY + d.h*d.gh) * d.pitch; !bytes.Equal(mem[n:], base[n:]) {
		i := n + c18FirstDiff(mem[n:], base[n:])
		return fmt.Sprintf("%s changed from %#02x to %#02x", d.where(i), base[i], mem[i])
	}
	return ""
}

// ---------------------------------------------------------------------------
// run

func c18NewDev(spec ttyCons) (c18Dev, error) {
	if err := ttyValidCons(spec); err != nil {
		return nil, err
	}
	switch spec.Kind {
	case "grid":
		return &c18Grid{g: newGridConsFor(spec)}, nil
	case "vga":
		return c18NewVga(spec)
	case "fb":
		return c18NewFb(spec)
	}
	return nil, fmt.Errorf("unknown console kind %q", spec.Kind)
}

type c18Stats struct {
	activations, deactivations int
	bufScrollsActive           int // buffer scrolls while active
	scrollsActive              int // all line feeds on the last line while active
	redrawAfterScroll          int // deactivate -> writes that scroll -> activate
	attaches                   int
	wraps                      int
	opsActive, opsInactive     int
}

// c18Run returns the violated oracle (if any), what the history exercised, and
// a harness error (set-up trouble, not a property violation).
// c18GridError: the console under test claims more cells than its pixels hold.
type c18GridError string

func (e c18GridError) Error() string { return string(e) }

func c18Run(c ttyCase) (fail *vlib.Failure, st c18Stats, herr error) {
	defer vlib.Guard("C18", c, nil)()
	var devs []c18Dev
	defer func() {
		for _, d := range devs {
			d.free()
		}
	}()
	dev, err := c18NewDev(c.Cons)
	if ge, ok := err.(c18GridError); ok {
		return vlib.Failf("%s", string(ge)), st, nil
	}
	if err != nil {
		return nil, st, err
	}
	devs = append(devs, dev)
	ttyOthers = nil
	vt := NewVT(c.Tab, c.Scrollback)
	var ref *refTerm
	active := false
	consScrolls := 0          // one-line scrolls requested from the current console
	deactivated := false      // the current console has been deactivated before
	scrolledInactive := false // ... and the terminal scrolled since

	attach := func(d c18Dev) vlib.Caught {
		d.freeze() // attaching must not touch the console either
		pc := vlib.CatchFault(func() { vt.AttachTo(d.device()) })
		w, h := d.dims()
		fg, bg := d.device().DefaultColors()
		ref = newRefTerm(w, h, int(c.Scrollback), int(c.Tab), fg, bg)
		consScrolls, deactivated, scrolledInactive = 0, false, false
		return pc
	}
	// a terminal may be switched on and off before it has a console: there is nothing to show yet
	pre := c.Pre
	if len(pre) > 0 && pre[len(pre)-1] {
		pre = append(append([]bool(nil), pre...), false)
	}
	for k, on := range pre {
		state := StateInactive
		if on {
			state = StateActive
		}
		if pc := vlib.CatchFault(func() { vt.SetState(state) }); pc.Panicked {
			return vlib.Failf("SetState #%d (active=%v) on a terminal that has no console yet: %v", k, on, pc), st, nil
		}
	}
	if pc := attach(dev); pc.Panicked {
		return vlib.Failf("AttachTo: %v", pc), st, nil
	}

	// check evaluates the oracle for the current state.
	check := func() string {
		if m := dev.misuse(); m != "" {
			return "a drawing call addressed a cell outside the console's grid: " + m
		}
		if !active {
			if diff := dev.frozenDiff(); diff != "" {
				return "the terminal is inactive but its console was touched: " + diff
			}
			return ""
		}
		w, h := dev.dims()
		if int64(vt.viewportWidth) != int64(w) || int64(vt.viewportHeight) != int64(h) {
			return fmt.Sprintf("the terminal's viewport is %dx%d, the console grid %dx%d", vt.viewportWidth, vt.viewportHeight, w, h)
		}
		first := int64(vt.viewportY) * int64(w) * 3
		if first+int64(w)*int64(h)*3 > int64(len(vt.data)) {
			return fmt.Sprintf("the terminal's viewport (from buffer line %d) reaches beyond its %d-byte buffer", vt.viewportY, len(vt.data))
		}
		view := make([]ttyCell, w*h)
		for i := range view {
			o := int(first) + 3*i
			view[i] = ttyCell{vt.data[o], vt.data[o+1], vt.data[o+2]}
		}
		if msg := dev.verify(view, consScrolls); msg != "" {
			return msg
		}
		dev.freeze()
		return ""
	}
	if msg := check(); msg != "" {
		return vlib.Failf("after attaching: %s", msg), st, nil
	}

	spec := c.Cons
	for i, op := range c.Ops {
		w, h := dev.dims()
		opSpec := spec
		when := func() string {
			return fmt.Sprintf("op %d %s (terminal %dx%d, scrollback %d, tab %d, %s console)", i, op, w, h, c.Scrollback, c.Tab, c18Describe(opSpec))
		}
		steps := []ttyOp{op}
		if op.K == "attach" {
			if op.Cons == nil {
				return vlib.Failf("invalid case: %s", when()), st, nil
			}
			// the kernel attaches a console only to an inactive terminal
			steps = []ttyOp{{K: "state", On: false}, op}
		}
		for _, s := range steps {
			wasActive := active
			switch s.K {
			case "attach":
				nd, err := c18NewDev(*s.Cons)
				if err != nil {
					return nil, st, err
				}
				devs = append(devs, nd)
				st.wraps += ref.wraps
				st.attaches++
				dev, spec = nd, *s.Cons
				if pc := attach(dev); pc.Panicked {
					return vlib.Failf("%s: %v", when(), pc), st, nil
				}
			case "b", "w", "cur", "state", "other":
				if s.K == "state" {
					if s.On && !active {
						st.activations++
						if deactivated && scrolledInactive {
							st.redrawAfterScroll++
						}
						scrolledInactive = false
					}
					if !s.On && active {
						st.deactivations++
						deactivated = true
					}
					active = s.On
				}
				before, beforeBuf := ref.scrollEvents(), ref.bufScrolls
				var msg string
				pc := vlib.CatchFault(func() { msg = ttyApply(vt, s) })
				if pc.Panicked {
					return vlib.Failf("%s: %v", when(), pc), st, nil
				}
				if msg != "" {
					return vlib.Failf("%s: %s", when(), msg), st, nil
				}
				ttyApplyRef(ref, s)
				if n := ref.scrollEvents() - before; n > 0 {
					if active {
						consScrolls += n
						st.scrollsActive += n
						st.bufScrollsActive += ref.bufScrolls - beforeBuf
					} else {
						scrolledInactive = true
					}
				}
			default:
				return vlib.Failf("invalid case: unknown op kind %q", s.K), st, nil
			}
			var msg string
			if pc := vlib.CatchFault(func() { msg = check() }); pc.Panicked {
				return nil, st, fmt.Errorf("the oracle panicked after %s: %v", when(), pc)
			}
			if msg != "" {
				state := "active"
				if !active {
					state = "inactive"
					if wasActive {
						state = "just deactivated"
					}
				} else if !wasActive {
					state = "just activated"
				}
				return vlib.Failf("after %s, terminal %s: %s", when(), state, msg), st, nil
			}
		}
		if active {
			st.opsActive++
		} else {
			st.opsInactive++
		}
	}
	st.wraps += ref.wraps
	return nil, st, nil
}

func c18Describe(s ttyCons) string {
	if s.Kind != "fb" {
		return s.Kind
	}
	fn := "?"
	if s.Font >= 0 && s.Font < len(ttyFontNames) {
		fn = ttyFontNames[s.Font]
	}
	return fmt.Sprintf("fb %d bpp layout %d font %s, +%d px right, +%d scanlines below, pitch +%d, logo %dx%d", s.Bpp, s.Layout, fn, s.RemW, s.RemH, s.Pad, s.LogoW, s.LogoH)
}

func c18Classify(c ttyCase, s c18Stats) (bool, []string) {
	var l []string
	specs := []ttyCons{c.Cons}
	for _, op := range c.Ops {
		if op.K == "attach" && op.Cons != nil {
			specs = append(specs, *op.Cons)
		}
	}
	seen := map[string]bool{}
	add := func(x string) {
		if !seen[x] {
			seen[x] = true
			l = append(l, x)
		}
	}
	for _, on := range c.Pre {
		if on {
			add("terminal-switched-on-and-off-before-its-first-console")
		}
	}
	for _, sp := range specs {
		add("console-" + sp.Kind)
		if sp.W == 1 {
			add("1-column")
		}
		if sp.H == 1 {
			add("1-row")
		}
		if sp.Kind == "vga" && (sp.W > 12 || sp.H > 12) {
			add("vga-grid>12")
			if s.attaches == 0 && s.bufScrollsActive > 0 {
				add("vga-grid>12-buffer-scrolled-while-active")
			}
		}
		if sp.Kind == "fb" && (sp.W > 9 || sp.H > 7) {
			add("fb-grid>9x7")
		}
		if sp.Kind == "fb" {
			add(fmt.Sprintf("fb-%dbpp", sp.Bpp))
			add(fmt.Sprintf("fb-%dbpp-layout-%d", sp.Bpp, sp.Layout))
			add("fb-font-" + ttyFontNames[sp.Font])
			if sp.LogoH > 0 {
				add("fb-logo")
				if int(sp.LogoH)%int(font.FindByName(ttyFontNames[sp.Font]).GlyphHeight) != 0 {
					add("fb-logo-height-not-multiple-of-glyph")
				}
			}
			if sp.Pad > 0 {
				add("fb-row-padding")
			}
			if sp.RemW > 0 {
				add("fb-right-remainder")
			}
			if sp.RemH > 0 {
				add("fb-bottom-remainder")
			}
		}
	}
	if c.Scrollback == 0 {
		add("scrollback-0")
	}
	if s.attaches > 0 {
		add("re-attach")
	}
	if s.activations > 0 {
		add("activated")
	}
	if s.activations > 1 {
		add("re-activated")
	}
	if s.scrollsActive > 0 {
		add("scrolled-while-active")
	}
	if s.bufScrollsActive >= 3 {
		add("buffer-scrolled>=3-while-active")
	}
	if s.redrawAfterScroll > 0 {
		add("deactivate-scroll-activate")
	}
	if s.wraps > 0 {
		add("wrapped")
	}
	nt := s.redrawAfterScroll > 0 || s.bufScrollsActive >= 3
	if nt {
		add("nontrivial-" + c.Cons.Kind)
	}
	return nt, l
}

// ---------------------------------------------------------------------------
// generators

func c18GenGrid(t *rapid.T) ttyCons {
	if vlib.Thorough() && rapid.IntRange(0, 19).Draw(t, "large") == 19 {
		return ttyCons{Kind: "grid", W: uint32(rapid.IntRange(13, 200).Draw(t, "bigw")), H: uint32(rapid.IntRange(1, 60).Draw(t, "bigh"))}
	}
	return ttyCons{Kind: "grid", W: ttyGenDim(t, "w", 12), H: ttyGenDim(t, "h", 12)}
}

func c18GenVga(t *rapid.T) ttyCons {
	switch rapid.IntRange(0, 9).Draw(t, "vgasize") {
	case 9: // ~10%: the standard mode
		return ttyCons{Kind: "vga", W: 80, H: 25}
	case 8, 7, 6: // ~23%
		return ttyCons{Kind: "vga", W: ttyGenDim(t, "w", 100), H: ttyGenDim(t, "h", 50)}
	}
	return ttyCons{Kind: "vga", W: ttyGenDim(t, "w", 12), H: ttyGenDim(t, "h", 10)}
}

func c18GenFb(t *rapid.T) ttyCons {
	c := ttyCons{Kind: "fb"}
	maxW, maxH := 9, 7
	if vlib.Thorough() && rapid.IntRange(0, 19).Draw(t, "large") == 19 {
		maxW, maxH = 40, 20
	}
	c.W, c.H = ttyGenDim(t, "w", maxW), ttyGenDim(t, "h", maxH)
	wide := rapid.IntRange(0, 39).Draw(t, "widescreen") == 0
	if wide {
		// a real screen's worth of columns (scanlines of more than 4 KiB), few lines
		c.W = uint32(rapid.SampledFrom([]int{128, 170, 171, 180, 240, 256, 257, 320, 512, 513}).Draw(t, "widecols"))
		c.H = uint32(rapid.IntRange(1, 3).Draw(t, "widerows"))
	}
	if !wide && rapid.IntRange(0, 39).Draw(t, "tallscreen") == 0 {
		// a portrait screen's worth of text rows, few columns
		c.H = uint32(rapid.SampledFrom([]int{127, 128, 129, 130, 200, 256, 257}).Draw(t, "tallrows"))
		c.W = uint32(rapid.IntRange(1, 3).Draw(t, "tallcols"))
	}
	// rapid favours small indices: rotate so that every depth / font gets its share
	depths := []uint8{8, 15, 16, 24, 32}
	c.Bpp = depths[(rapid.IntRange(0, 4).Draw(t, "depth")+rapid.IntRange(0, 4).Draw(t, "depthrot"))%5]
	c.Font = (rapid.IntRange(0, 2).Draw(t, "font") + rapid.IntRange(0, 2).Draw(t, "fontrot")) % 3
	f := font.FindByName(ttyFontNames[c.Font])
	c.Layout = rapid.IntRange(0, len(c18Layouts(c.Bpp))-1).Draw(t, "layout")
	c.RemW = uint32(rapid.IntRange(0, int(f.GlyphWidth)-1).Draw(t, "remw"))
	c.RemH = uint32(rapid.IntRange(0, int(f.GlyphHeight)-1).Draw(t, "remh"))
	c.Pad = uint32(rapid.IntRange(0, 64).Draw(t, "pad"))
	if rapid.Bool().Draw(t, "logo") {
		c.LogoH = uint32(rapid.IntRange(1, 40).Draw(t, "logoh"))
		if rapid.Bool().Draw(t, "logohflip") {
			c.LogoH = 41 - c.LogoH
		}
		width := int(c.W*f.GlyphWidth + c.RemW)
		c.LogoW = uint32(width + 1 - rapid.IntRange(1, width).Draw(t, "logow"))
		c.LogoAlign = uint8(rapid.IntRange(0, 2).Draw(t, "logoalign"))
		c.LogoColors = rapid.IntRange(1, 16).Draw(t, "logocolors")
		c.LogoTransp = uint8(rapid.IntRange(0, 16).Draw(t, "logotransp"))
		c.LogoSeed = rapid.Uint32().Draw(t, "logoseed")
	}
	return c
}

func c18GenCase(t *rapid.T, consGen func(*rapid.T) ttyCons) ttyCase {
	c := ttyCase{Cons: consGen(t), Scrollback: ttyGenScrollback(t), Tab: ttyGenTab(t)}
	reattach := consGen
	if vlib.OpenFinding("F-C17") {
		reattach = nil // known finding: a re-attached terminal writes at a stale offset
	}
	c.Ops = ttyGenOps(t, ttyGenOp(reattach, true))
	if rapid.IntRange(0, 5).Draw(t, "switchedbeforeattach") == 0 {
		c.Pre = rapid.SliceOfN(rapid.Bool(), 1, 3).Draw(t, "pre")
	}
	if c.Cons.W > 100 {
		// lines that reach the right-hand columns of a wide screen
		for k := rapid.IntRange(1, 3).Draw(t, "longlines"); k > 0; k-- {
			n := int(c.Cons.W) - rapid.IntRange(0, 12).Draw(t, "shortby")
			line := make([]int, n)
			for i := range line {
				line[i] = 0x21 + (i*7+k)%0x5e
			}
			at := rapid.IntRange(0, len(c.Ops)).Draw(t, "longlineat")
			c.Ops = append(c.Ops[:at], append([]ttyOp{{K: "w", B: line}}, c.Ops[at:]...)...)
		}
	}
	return c
}

func c18Check(t *testing.T, consGen func(*rapid.T) ttyCons) {
	st := vlib.For("C18")
	defer vlib.Flush()
	if err := c18FontCheck(); err != nil {
		t.Fatalf("VERIF-HARNESS C18: %v", err)
	}
	if vlib.OpenFinding("F-C17") {
		st.Exclude("re-attach ops (F-C17)")
	}
	rapid.Check(t, func(t *rapid.T) {
		c := c18GenCase(t, consGen)
		fail, rs, herr := c18Run(c)
		if herr != nil {
			t.Fatalf("VERIF-HARNESS C18: %v", herr)
		}
		nt, labels := c18Classify(c, rs)
		st.Case(c, nt, labels...)
		vlib.Report(t, "C18", c, fail)
	})
}

func TestVerifC18(t *testing.T)    { c18Check(t, c18GenGrid) }
func TestVerifC18Vga(t *testing.T) { c18Check(t, c18GenVga) }
func TestVerifC18Fb(t *testing.T)  { c18Check(t, c18GenFb) }

func c18Replay(t *testing.T) {
	var c ttyCase
	ok, err := vlib.LoadReplay(&c)
	if !ok {
		t.Skip("no replay requested")
	}
	if err != nil {
		t.Fatalf("VERIF-HARNESS cannot load replay: %v", err)
	}
	if err := c18FontCheck(); err != nil {
		t.Fatalf("VERIF-HARNESS C18: %v", err)
	}
	fail, _, herr := c18Run(c)
	if herr != nil {
		t.Fatalf("VERIF-HARNESS C18: %v", herr)
	}
	vlib.Report(t, "C18", c, fail)
}

func TestVerifC18Replay(t *testing.T)    { c18Replay(t) }
func TestVerifC18VgaReplay(t *testing.T) { c18Replay(t) }
func TestVerifC18FbReplay(t *testing.T)  { c18Replay(t) }
