//go:build verif && go1.21

package acpi

// C14 — only checksum-valid ACPI tables are registered, found via the right
// root pointer.
//
// rapid generates a firmware image *model* (c14Case). The harness lays it out in
// guarded host memory below 4 GiB (so that 32-bit RSDT entries and the 32-bit
// DSDT pointer hold real addresses), points the package seams at identity
// stubs, runs the real probe function and DriverInit and compares the outcome
// with the model. Nothing of the code under test is used to compute the
// expectation.
//
// The stubs do not merely record: image memory is PROT_NONE until the code
// under test maps a page through mapFn / identityMapFn (and becomes PROT_NONE
// again on unmapFn), exactly like physical memory in the kernel. A byte that
// is read before it was mapped is therefore a fault, which the harness turns
// into a failure that names the table and the identity-map requests made for it.

import (
	"bytes"
	"encoding/binary"
	"fmt"
	"sort"
	"strings"
	"syscall"
	"testing"
	"unsafe"

	"github.com/ProjectSerenity/firefly/kernel"
	"github.com/ProjectSerenity/firefly/kernel/device"
	"github.com/ProjectSerenity/firefly/kernel/kfmt"
	"github.com/ProjectSerenity/firefly/kernel/mm"
	"github.com/ProjectSerenity/firefly/kernel/mm/vmm"
	"pgregory.net/rapid"
	"verifharness/vlib"
)

// ---------------------------------------------------------------------------
// case model

// c14Item is one root-pointer-like structure in the search area.
type c14Item struct {
	Slot  int    `json:"slot"`            // 16-byte slot of the search area
	Off   int    `json:"off,omitempty"`   // 0: on the boundary; 1..15: misplaced copy (not a root pointer)
	Rev   uint8  `json:"rev"`             // revision byte: 0 = 20-byte structure, otherwise 36-byte structure
	NoSig int    `json:"nosig,omitempty"` // 1..8: that byte of the signature is wrong (not a root pointer at all)
	Valid bool   `json:"valid,omitempty"` // all checksums of the structure are right
	Bad20 uint8  `json:"bad20,omitempty"` // decoy: error of the 20-byte checksum (non-zero)
	Bad36 uint8  `json:"bad36,omitempty"` // decoy, rev != 0: error of the 36-byte checksum (non-zero)
	Len   uint32 `json:"len,omitempty"`   // rev != 0: Length field (36 in a valid structure)
	Junk  uint64 `json:"junk,omitempty"`  // decoy: root addresses; valid, rev != 0: the unused 32-bit root address
	OEM   []byte `json:"oem,omitempty"`   // OEMID (6 bytes)
	Tail  []byte `json:"tail,omitempty"`  // bytes that follow the structure in memory
	// Cut (16 or 32, decoys on a boundary only): only the first Cut bytes belong to the decoy;
	// what follows - and takes part in its checksums - is the next structure, which starts in the
	// very next slot
	Cut int `json:"cut,omitempty"`
}

// own is the number of bytes the item writes itself.
func (it c14Item) own() int {
	if it.Cut != 0 {
		return it.Cut
	}
	return it.size()
}

func (it c14Item) size() int {
	if it.Rev == 0 {
		return 20
	}
	return 36
}

// c14Ptrs says what the DSDT pointer candidates of an FADT hold:
// "dsdt", "alt", "zero" or "" (body bytes left alone).
type c14Ptrs struct {
	P40  string `json:"p40"`            // DSDT, 32 bit, byte 40
	P140 string `json:"p140,omitempty"` // X_DSDT, 64 bit, byte 140 (ACPI)
	P152 string `json:"p152,omitempty"` // byte 152: where Go lays out table.FADT.Ext.Dsdt
}

type c14Table struct {
	Sig     string   `json:"sig"`
	Rev     uint8    `json:"rev,omitempty"`
	Body    []byte   `json:"body,omitempty"`    // bytes after the 36-byte header
	Ext     int      `json:"ext,omitempty"`     // that many further pseudo-random body bytes ...
	Seed    uint32   `json:"seed,omitempty"`    // ... expanded from this seed
	Gap     int      `json:"gap,omitempty"`     // bytes between the previous structure and this one
	Corrupt int      `json:"corrupt,omitempty"` // 0: intact; else offset (>= 8) of the byte that gets Delta added
	Delta   uint8    `json:"delta,omitempty"`
	Fadt    *c14Ptrs `json:"fadt,omitempty"` // set for the FADT ("FACP")
}

func (tb *c14Table) length() int { return 36 + len(tb.Body) + tb.Ext }

type c14Case struct {
	Win     int        `json:"win"`            // size of the search area in bytes (multiple of 16)
	High    bool       `json:"high,omitempty"` // the tables live above 4 GiB (needs 8-byte entries and no 32-bit DSDT pointer)
	Fill    uint32     `json:"fill,omitempty"` // seed of the bytes that fill the search area (0: zeroes)
	Items   []c14Item  `json:"items,omitempty"`
	RootRev uint8      `json:"rootrev"`           // revision byte in the header of the root table
	RootGap int        `json:"rootgap,omitempty"` // like c14Table.Gap
	RootPos int        `json:"rootpos,omitempty"` // number of tables that precede the root table in memory
	Order   []int      `json:"order,omitempty"`   // entry i of the root table refers to Tables[Order[i]]
	Tables  []c14Table `json:"tables,omitempty"`  // in memory order
	Dsdt    *c14Table  `json:"dsdt,omitempty"`
	Alt     *c14Table  `json:"alt,omitempty"` // a second, unlisted table an FADT pointer may refer to
	// Again: after the first DriverInit the firmware image changes - the tables with these
	// indices get a byte damaged (intact ones) or repaired (damaged ones) - and DriverInit runs a
	// second time on the same driver: what is registered must follow the image as it is then
	Again []int `json:"again,omitempty"`
	// Reprobe (non-zero): after the first probe the firmware image changes - that value is added
	// to a byte of the root pointer that won, which turns it into a decoy (right signature, bad
	// checksum) - and the probe runs again: it must follow the image as it is then. The byte is
	// put back before the tables are enumerated.
	Reprobe uint8 `json:"reprobe,omitempty"`
}

// winner returns the index of the first valid structure on a 16-byte boundary
// in address order, or -1.
func (c *c14Case) winner() int {
	best := -1
	for i, it := range c.Items {
		if it.Valid && it.Off == 0 && it.NoSig == 0 && (best < 0 || it.Slot < c.Items[best].Slot) {
			best = i
		}
	}
	return best
}

func (c *c14Case) fadt() *c14Table {
	for i := range c.Tables {
		if c.Tables[i].Fadt != nil {
			return &c.Tables[i]
		}
	}
	return nil
}

// c14EffectivePtr applies the ACPI rule: X_DSDT (byte 140) when the table is
// long enough to have one and it is non-zero, otherwise DSDT (byte 40).
func c14EffectivePtr(tb *c14Table) string {
	if tb.length() >= 148 && tb.Fadt.P140 != "zero" {
		return tb.Fadt.P140
	}
	return tb.Fadt.P40
}

// c14PtrsAgree reports whether every pointer candidate that the table is long
// enough to hold refers to the same table, and which.
func c14PtrsAgree(tb *c14Table) bool {
	p := tb.Fadt
	if tb.length() >= 148 && p.P140 != p.P40 {
		return false
	}
	if tb.length() >= 160 && p.P152 != p.P40 {
		return false
	}
	return p.P40 == "dsdt" || p.P40 == "alt"
}

// c14Expand returns n pseudo-random bytes determined by seed (xorshift32;
// seed 0 gives zeroes). It is a pure function of the case.
func c14Expand(seed uint32, n int) []byte {
	out := make([]byte, n)
	x := seed
	for i := range out {
		x ^= x << 13
		x ^= x >> 17
		x ^= x << 5
		out[i] = byte(x >> 11)
	}
	return out
}

// ---------------------------------------------------------------------------
// image memory

const (
	c14Page       = 4096
	c14WinMax     = 128 << 10 // the size of the real BIOS search area (0xe0000-0xfffff)
	c14ArenaPages = 64
	c14RootAddrs  = 64 // spacing of the root addresses of valid structures that must not win
)

type c14Region struct {
	g      *vlib.Guarded
	base   uintptr
	mapped []bool
}

func (r *c14Region) contains(a uintptr) bool {
	return a >= r.base && a < r.base+uintptr(len(r.g.Data))
}

func (r *c14Region) protectAll(prot int) {
	if err := syscall.Mprotect(r.g.Data, prot); err != nil {
		panic("VERIF-HARNESS mprotect: " + err.Error())
	}
	for i := range r.mapped {
		r.mapped[i] = prot != syscall.PROT_NONE
	}
}

func (r *c14Region) protectPage(idx int, prot int) {
	if err := syscall.Mprotect(r.g.Data[idx*c14Page:(idx+1)*c14Page], prot); err != nil {
		panic("VERIF-HARNESS mprotect: " + err.Error())
	}
	r.mapped[idx] = prot != syscall.PROT_NONE
}

var c14Win, c14ArenaLow, c14ArenaHigh *c14Region

func c14Regions() error {
	if c14Win != nil {
		return nil
	}
	mk := func(n int, low bool) (*c14Region, error) {
		g, err := vlib.NewGuarded(n, low)
		if err != nil {
			return nil, err
		}
		if low && uint64(g.Addr())+uint64(len(g.Data)) > 1<<32 {
			return nil, fmt.Errorf("MAP_32BIT mapping is not below 4 GiB")
		}
		if !low && uint64(g.Addr()) < 1<<32 {
			return nil, fmt.Errorf("ordinary mapping is not above 4 GiB")
		}
		return &c14Region{g: g, base: g.Addr(), mapped: make([]bool, len(g.Data)/c14Page)}, nil
	}
	w, err := mk(c14WinMax, true)
	if err != nil {
		return err
	}
	a, err := mk(c14ArenaPages*c14Page, true)
	if err != nil {
		return err
	}
	h, err := mk(c14ArenaPages*c14Page, false)
	if err != nil {
		return err
	}
	c14Win, c14ArenaLow, c14ArenaHigh = w, a, h
	return nil
}

// the search area as shipped, captured before any harness override
var c14ShippedLow, c14ShippedHi = rsdpLocationLow, rsdpLocationHi

// c14Blob is one structure placed in the arena.
type c14Blob struct {
	name string // signature, or "root"
	off  int    // offset in the arena
	n    int
	tb   *c14Table
}

type c14Call struct {
	frame uintptr
	size  uintptr
}

type c14Env struct {
	c       *c14Case
	arena   *c14Region
	winLow  uintptr
	blobs   []c14Blob
	root    *c14Blob
	tables  []*c14Blob // parallel to c.Tables
	dsdt    *c14Blob
	alt     *c14Blob
	idCalls []c14Call
	badMap  string // first non-identity or failed mapping request
	log     bytes.Buffer
	sink    bytes.Buffer
}

func (e *c14Env) addr(b *c14Blob) uintptr { return e.arena.base + uintptr(b.off) }

type c14Sink struct{ b *bytes.Buffer }

func (s c14Sink) Write(p []byte) (int, error) { return s.b.Write(p) }

func c14Sum(b []byte) (s uint8) {
	for _, x := range b {
		s += x
	}
	return
}

// c14EncodeTable returns the bytes of a table with a correct checksum and then
// applies the corruption of the model.
func c14EncodeTable(tb *c14Table, patch func(b []byte)) []byte {
	b := make([]byte, 36, tb.length())
	copy(b[0:4], tb.Sig)
	binary.LittleEndian.PutUint32(b[4:], uint32(tb.length()))
	b[8] = tb.Rev
	copy(b[10:16], "VERIF ")
	copy(b[16:24], tb.Sig+"TBL ")
	binary.LittleEndian.PutUint32(b[24:], 1)
	copy(b[28:32], "VRFY")
	binary.LittleEndian.PutUint32(b[32:], 0x20260925)
	b = append(b, tb.Body...)
	b = append(b, c14Expand(tb.Seed, tb.Ext)...)
	if patch != nil {
		patch(b)
	}
	b[9] = 0
	b[9] = -c14Sum(b)
	if tb.Corrupt != 0 {
		b[tb.Corrupt] += tb.Delta
	}
	return b
}

func c14ValidSig(s string) bool {
	if len(s) != 4 {
		return false
	}
	upper, odd := 0, 0
	for i := 0; i < 4; i++ {
		ch := s[i]
		switch {
		case ch >= 'G' && ch <= 'Z':
			upper++
		case ch >= 'A' && ch <= 'F', ch >= '0' && ch <= '9', ch == '_':
		case strings.IndexByte(c14SigOdd, ch) >= 0:
			odd++
		default:
			return false
		}
	}
	if odd > 0 {
		return upper >= 2 // two letters anchor the name when the log prints the odd bytes its own way
	}
	return upper >= 1 // cannot be mistaken for lower-case hex digits in the log
}

// c14SigOdd are signature bytes outside the printable range (a signature is four bytes; nothing
// makes the firmware stick to letters). Line breaks are left out - the report is read line by
// line - and so are bytes above 0x7f, which the JSON form of a case cannot carry.
const c14SigOdd = "\x00\x01\x09\x1f\x7f"

// c14SigSkeleton is the signature with every odd byte replaced by '?': how a log that refuses to
// print such bytes raw may show it. Skeletons are unique within a case.
func c14SigSkeleton(s string) string {
	b := []byte(s)
	for i, ch := range b {
		if ch < 0x20 || ch > 0x7e {
			b[i] = '?'
		}
	}
	return string(b)
}

// c14Confusable reports whether a log line that prints the name other - with anything at all before
// and after it - could be taken for a mention of the odd signature: some alignment of the two in
// which every printable byte of the odd signature that falls on a byte of other agrees with it.
func c14Confusable(other, odd string) bool {
	for d := -3; d <= 3; d++ {
		ok := true
		for k := 0; k < 4 && ok; k++ {
			if printable := odd[k] >= 0x20 && odd[k] <= 0x7e; printable && k+d >= 0 && k+d < len(other) {
				ok = other[k+d] == odd[k]
			}
		}
		if ok {
			return true
		}
	}
	return false
}

// c14Mentions reports whether a log line names the signature: its four bytes as they are, or - for
// a signature with odd bytes - with anything at all printed in place of an odd byte.
func c14Mentions(line, sig string) bool {
	if strings.Contains(line, sig) {
		return true
	}
	if c14SigSkeleton(sig) == sig {
		return false
	}
	for i := 0; i+4 <= len(line); i++ {
		ok := true
		for k := 0; k < 4 && ok; k++ {
			ok = sig[k] < 0x20 || sig[k] > 0x7e || line[i+k] == sig[k]
		}
		if ok {
			return true
		}
	}
	return false
}

// c14Build validates the case (a malformed replay file is a harness error),
// writes the image and returns the environment.
func c14Build(c *c14Case) (*c14Env, error) {
	if err := c14Regions(); err != nil {
		return nil, err
	}
	e := &c14Env{c: c}
	if c.Win < 48 || c.Win > c14WinMax || c.Win%16 != 0 {
		return nil, fmt.Errorf("window size %d", c.Win)
	}
	e.arena = c14ArenaLow
	if c.High {
		e.arena = c14ArenaHigh
	}
	c14Win.protectAll(syscall.PROT_READ | syscall.PROT_WRITE)
	e.arena.protectAll(syscall.PROT_READ | syscall.PROT_WRITE)

	// ---- arena: tables -------------------------------------------------------
	arena := e.arena.g.Data
	for i := range arena {
		arena[i] = 0
	}
	sigs := map[string]bool{"RSD ": true, "PTR ": true}
	checkTable := func(tb *c14Table, what string) error {
		if !c14ValidSig(tb.Sig) {
			return fmt.Errorf("%s: signature %q", what, tb.Sig)
		}
		if sigs[tb.Sig] {
			return fmt.Errorf("%s: signature %q is not distinct", what, tb.Sig)
		}
		for other := range sigs {
			// (a signature with an odd byte must not be confusable with another name of the image,
			// however the log prints that byte: the generator sees to that, a replay file must too)
			if (c14SigSkeleton(tb.Sig) != tb.Sig && c14Confusable(other, tb.Sig)) || (c14SigSkeleton(other) != other && c14Confusable(tb.Sig, other)) {
				return fmt.Errorf("%s: signature %q can be confused with %q on the log", what, tb.Sig, other)
			}
		}
		sigs[tb.Sig] = true
		if tb.Corrupt != 0 && (tb.Corrupt < 8 || tb.Corrupt >= tb.length() || tb.Delta == 0) {
			return fmt.Errorf("%s: corruption offset %d delta %d (length %d)", what, tb.Corrupt, tb.Delta, tb.length())
		}
		if tb.Gap < 0 || tb.Ext < 0 {
			return fmt.Errorf("%s: negative gap/ext", what)
		}
		return nil
	}
	sigs["RSDT"], sigs["XSDT"] = true, true
	nfadt := 0
	for i := range c.Tables {
		tb := &c.Tables[i]
		if err := checkTable(tb, fmt.Sprintf("table %d", i)); err != nil {
			return nil, err
		}
		if (tb.Sig == fadtSignature) != (tb.Fadt != nil) {
			return nil, fmt.Errorf("table %d: FACP signature and pointer description do not go together", i)
		}
		if tb.Fadt != nil {
			nfadt++
			if tb.length() < 44 {
				return nil, fmt.Errorf("FADT too short for a DSDT pointer")
			}
		}
	}
	if nfadt > 1 {
		return nil, fmt.Errorf("more than one FADT")
	}
	if c.Dsdt != nil {
		if err := checkTable(c.Dsdt, "dsdt"); err != nil {
			return nil, err
		}
	}
	if c.Alt != nil {
		if err := checkTable(c.Alt, "alt"); err != nil {
			return nil, err
		}
	}
	if len(c.Order) != len(c.Tables) || c.RootPos < 0 || c.RootPos > len(c.Tables) || c.RootGap < 0 {
		return nil, fmt.Errorf("root table order/position")
	}
	seen := make([]bool, len(c.Tables))
	for _, k := range c.Order {
		if k < 0 || k >= len(c.Tables) || seen[k] {
			return nil, fmt.Errorf("root table order is not a permutation")
		}
		seen[k] = true
	}

	win := c.winner()
	entry := 8
	if win >= 0 && c.Items[win].Rev == 0 {
		entry = 4
	}
	if c.High {
		if entry == 4 {
			return nil, fmt.Errorf("tables above 4 GiB need a root table with 8-byte entries")
		}
		if f := c.fadt(); f != nil && f.Fadt.P40 != "zero" {
			return nil, fmt.Errorf("tables above 4 GiB cannot be referred to by the 32-bit DSDT pointer")
		}
	}
	cur := 0
	place := func(name string, gap, n int, tb *c14Table) (*c14Blob, error) {
		cur += gap
		if cur+n > len(arena) {
			return nil, fmt.Errorf("image does not fit the arena (%d bytes)", cur+n)
		}
		e.blobs = append(e.blobs, c14Blob{name: name, off: cur, n: n, tb: tb})
		cur += n
		return &e.blobs[len(e.blobs)-1], nil
	}
	e.blobs = make([]c14Blob, 0, len(c.Tables)+3)
	e.tables = make([]*c14Blob, len(c.Tables))
	var err error
	for i := 0; i <= len(c.Tables); i++ {
		if i == c.RootPos {
			if e.root, err = place("root", c.RootGap, 36+entry*len(c.Tables), nil); err != nil {
				return nil, err
			}
		}
		if i < len(c.Tables) {
			tb := &c.Tables[i]
			if e.tables[i], err = place(tb.Sig, tb.Gap, tb.length(), tb); err != nil {
				return nil, err
			}
		}
	}
	if c.Dsdt != nil {
		if e.dsdt, err = place(c.Dsdt.Sig, c.Dsdt.Gap, c.Dsdt.length(), c.Dsdt); err != nil {
			return nil, err
		}
	}
	if c.Alt != nil {
		if e.alt, err = place(c.Alt.Sig, c.Alt.Gap, c.Alt.length(), c.Alt); err != nil {
			return nil, err
		}
	}
	target := func(name string) (uint64, error) {
		switch name {
		case "dsdt":
			if e.dsdt == nil {
				return 0, fmt.Errorf("FADT refers to a DSDT the case does not have")
			}
			return uint64(e.addr(e.dsdt)), nil
		case "alt":
			if e.alt == nil {
				return 0, fmt.Errorf("FADT refers to an alternative table the case does not have")
			}
			return uint64(e.addr(e.alt)), nil
		case "zero":
			return 0, nil
		}
		return 0, fmt.Errorf("pointer kind %q", name)
	}
	for i := range c.Tables {
		tb := &c.Tables[i]
		var perr error
		var patch func(b []byte)
		if p := tb.Fadt; p != nil {
			if eff := c14EffectivePtr(tb); eff != "dsdt" && eff != "alt" {
				return nil, fmt.Errorf("FADT points to no DSDT (effective pointer %q)", eff)
			}
			patch = func(b []byte) {
				put := func(off, size int, name string, must bool) {
					if len(b) < off+size {
						return
					}
					if name == "" {
						if must {
							perr = fmt.Errorf("FADT of %d bytes needs a value at byte %d", len(b), off)
						}
						return
					}
					v, err := target(name)
					if err != nil {
						perr = err
						return
					}
					if size == 4 {
						binary.LittleEndian.PutUint32(b[off:], uint32(v))
					} else {
						binary.LittleEndian.PutUint64(b[off:], v)
					}
				}
				put(40, 4, p.P40, true)
				put(140, 8, p.P140, true)
				put(152, 8, p.P152, false)
			}
		}
		copy(arena[e.tables[i].off:], c14EncodeTable(tb, patch))
		if perr != nil {
			return nil, perr
		}
	}
	if c.Dsdt != nil {
		copy(arena[e.dsdt.off:], c14EncodeTable(c.Dsdt, nil))
	}
	if c.Alt != nil {
		copy(arena[e.alt.off:], c14EncodeTable(c.Alt, nil))
	}
	rootSig := "XSDT"
	if entry == 4 {
		rootSig = "RSDT"
	}
	rt := c14Table{Sig: rootSig, Rev: c.RootRev, Body: make([]byte, entry*len(c.Tables))}
	for i, k := range c.Order {
		a := uint64(e.addr(e.tables[k]))
		if entry == 4 {
			binary.LittleEndian.PutUint32(rt.Body[4*i:], uint32(a))
		} else {
			binary.LittleEndian.PutUint64(rt.Body[8*i:], a)
		}
	}
	copy(arena[e.root.off:], c14EncodeTable(&rt, nil))

	// ---- search area ------------------------------------------------------------
	wdata := c14Win.g.Data
	w := wdata[len(wdata)-c.Win:]
	e.winLow = vlib.AddrOf(w)
	copy(w, c14Expand(c.Fill, c.Win))
	type span struct {
		lo, hi int
		cut    bool
	}
	var used []span
	rootAddr := uint64(e.addr(e.root))
	for i := range c.Items {
		it := &c.Items[i]
		pos := it.Slot*16 + it.Off
		if it.Slot < 0 || it.Off < 0 || it.Off > 15 || pos+it.size() > c.Win {
			return nil, fmt.Errorf("item %d does not lie wholly inside the search area", i)
		}
		end := pos + it.own() + len(it.Tail)
		if it.Cut != 0 {
			if (it.Cut != 16 && it.Cut != 32) || it.Cut >= it.size() || it.Valid || it.Off != 0 || it.NoSig != 0 || len(it.Tail) != 0 ||
				i+1 >= len(c.Items) || c.Items[i+1].Slot != it.Slot+it.Cut/16 || c.Items[i+1].Off != 0 || c.Items[i+1].Cut != 0 {
				return nil, fmt.Errorf("item %d: a cut decoy must be directly followed by a whole structure in the next slot", i)
			}
		}
		for _, u := range used {
			gap := 8
			if u.cut && u.hi == pos {
				gap = 0 // the structure that follows a cut decoy
			}
			if pos < u.hi+gap && u.lo < end+gap {
				return nil, fmt.Errorf("item %d overlaps another one", i)
			}
		}
		used = append(used, span{pos, end, it.Cut != 0})
		// a decoy has an invalid checksum: for revision 0 the 20-byte sum, for later revisions the
		// extended 36-byte sum (its 20-byte sum may be right - the structure is still invalid); the
		// combination "20 bytes wrong, 36 bytes right" is left out as unspecified
		if !it.Valid && ((it.Rev == 0 && it.Bad20 == 0) || (it.Rev != 0 && it.Bad36 == 0)) {
			return nil, fmt.Errorf("item %d: a decoy needs its deciding checksum broken", i)
		}
		b := make([]byte, it.size())
		copy(b, rsdpSignature[:])
		if it.NoSig < 0 || it.NoSig > 8 {
			return nil, fmt.Errorf("item %d: signature byte %d", i, it.NoSig)
		}
		if it.NoSig != 0 {
			b[it.NoSig-1] ^= 0x20 // the other letter case, or '\x00' for a space
		}
		oem := append(append([]byte(nil), it.OEM...), "      "...)[:6]
		copy(b[9:15], oem)
		b[15] = it.Rev
		ra := rootAddr
		if i != win {
			ra = rootAddr + uint64(c14RootAddrs*(i+1))
		}
		switch {
		case !it.Valid:
			binary.LittleEndian.PutUint32(b[16:], uint32(it.Junk))
			if it.Rev != 0 {
				binary.LittleEndian.PutUint32(b[20:], it.Len)
				binary.LittleEndian.PutUint64(b[24:], it.Junk)
			}
		case it.Rev == 0:
			binary.LittleEndian.PutUint32(b[16:], uint32(ra))
		default:
			binary.LittleEndian.PutUint32(b[16:], uint32(it.Junk))
			binary.LittleEndian.PutUint32(b[20:], it.Len)
			binary.LittleEndian.PutUint64(b[24:], ra)
		}
		b[8] = -c14Sum(b[:20])
		if !it.Valid {
			b[8] += it.Bad20
		}
		if it.Rev != 0 {
			b[32] = -c14Sum(b)
			if !it.Valid {
				b[32] += it.Bad36
			}
		}
		if it.Cut != 0 {
			// written after the structure that follows it (see below)
			continue
		}
		copy(w[pos:], b)
		copy(w[pos+len(b):], it.Tail) // cut off where the search area ends
		// self-check of the builder: the flags of the model are what the bytes say
		s20 := c14Sum(w[pos:pos+20]) == 0
		s36 := it.Rev == 0 || (c14Sum(w[pos:pos+36]) == 0 && it.Len == 36)
		if it.Valid != (s20 && s36) || (!it.Valid && ((it.Rev == 0 && s20) || (it.Rev != 0 && c14Sum(w[pos:pos+36]) == 0))) {
			return nil, fmt.Errorf("item %d: model says valid=%v, bytes say sum20ok=%v sum36ok=%v", i, it.Valid, s20, s36)
		}
	}
	// cut decoys: their own bytes go in front of the structure that follows; both checksums are
	// then broken as seen over the final bytes (never "20 wrong, 36 right", which is unspecified)
	for i := range c.Items {
		it := &c.Items[i]
		if it.Cut == 0 {
			continue
		}
		pos := it.Slot * 16
		if pos+it.size() > c.Win {
			return nil, fmt.Errorf("item %d does not lie wholly inside the search area", i)
		}
		b := make([]byte, it.Cut)
		copy(b, rsdpSignature[:])
		copy(b[9:15], append(append([]byte(nil), it.OEM...), "      "...)[:6])
		b[15] = it.Rev
		if it.Cut == 32 {
			binary.LittleEndian.PutUint32(b[16:], uint32(it.Junk))
			binary.LittleEndian.PutUint32(b[20:], it.Len)
			binary.LittleEndian.PutUint64(b[24:], it.Junk)
		}
		copy(w[pos:], b)
		bad := it.Bad20
		if bad == 0 {
			bad = 0x5a
		}
		for tries := 0; ; tries++ {
			w[pos+8] = 0
			w[pos+8] = bad - c14Sum(w[pos:pos+20])
			if it.Rev == 0 || c14Sum(w[pos:pos+36]) != 0 {
				break
			}
			bad = bad*3 + 1 // another non-zero error of the 20-byte sum
			if bad == 0 {
				bad = 1
			}
			if tries > 8 {
				return nil, fmt.Errorf("item %d: cannot break both checksums of the cut decoy", i)
			}
		}
		if c14Sum(w[pos:pos+20]) == 0 || (it.Rev != 0 && c14Sum(w[pos:pos+36]) == 0) {
			return nil, fmt.Errorf("item %d: cut decoy ended up with a valid checksum", i)
		}
	}
	// the filler must not contain the signature on a boundary by accident
	for s := 0; s+8 <= c.Win; s += 16 {
		if bytes.Equal(w[s:s+8], rsdpSignature[:]) {
			own := false
			for _, it := range c.Items {
				if it.Off == 0 && it.Slot*16 == s && it.NoSig == 0 {
					own = true
				}
			}
			if !own {
				return nil, fmt.Errorf("stray signature in slot %d", s/16)
			}
		}
	}
	return e, nil
}

// ---------------------------------------------------------------------------
// seams

func (e *c14Env) setPage(p uintptr, prot int) bool {
	a := p << 12
	for _, r := range []*c14Region{c14Win, e.arena} {
		if r.contains(a) {
			r.protectPage(int(a-r.base)/c14Page, prot)
			return true
		}
	}
	return false
}

func (e *c14Env) install() {
	rsdpLocationLow = e.winLow
	rsdpLocationHi = e.winLow + uintptr(e.c.Win) - 1
	mapFn = func(p mm.Page, f mm.Frame, _ vmm.PageTableEntryFlag) *kernel.Error {
		if uintptr(p) != uintptr(f) && e.badMap == "" {
			e.badMap = "mapFn was asked for a mapping that is not an identity mapping"
		}
		e.setPage(uintptr(f), syscall.PROT_READ)
		return nil
	}
	unmapFn = func(p mm.Page) *kernel.Error {
		e.setPage(uintptr(p), syscall.PROT_NONE)
		return nil
	}
	identityMapFn = func(f mm.Frame, size uintptr, _ vmm.PageTableEntryFlag) (mm.Page, *kernel.Error) {
		e.idCalls = append(e.idCalls, c14Call{uintptr(f), size})
		pages := (size >> 12)
		if size&(c14Page-1) != 0 {
			pages++
		}
		// like vmm.IdentityMapRegion: whole pages starting at the frame; only the
		// pages of the image can be (and need to be) made accessible
		for _, r := range []*c14Region{c14Win, e.arena} {
			lo, hi := r.base>>12, (r.base+uintptr(len(r.g.Data)))>>12
			for p := lo; p < hi; p++ {
				if p >= uintptr(f) && p-uintptr(f) < pages {
					r.protectPage(int(p-lo), syscall.PROT_READ)
				}
			}
		}
		return mm.Page(f), nil
	}
	kfmt.SetOutputSink(c14Sink{&e.sink})
	c14Win.protectAll(syscall.PROT_NONE)
	e.arena.protectAll(syscall.PROT_NONE)
}

func (e *c14Env) release() {
	c14Win.protectAll(syscall.PROT_READ | syscall.PROT_WRITE)
	e.arena.protectAll(syscall.PROT_READ | syscall.PROT_WRITE)
	kfmt.SetOutputSink(nil)
	mapFn, unmapFn, identityMapFn = vmm.Map, vmm.Unmap, vmm.IdentityMapRegion
	rsdpLocationLow, rsdpLocationHi = c14ShippedLow, c14ShippedHi
}

// where describes an address in terms of the model (no absolute addresses, so
// that the text is the same on every run).
func (e *c14Env) where(a uintptr) string {
	lo, hi := e.winLow, e.winLow+uintptr(e.c.Win)
	wbase, wend := c14Win.base-c14Page, c14Win.base+uintptr(len(c14Win.g.Data))+c14Page
	switch {
	case a >= lo && a < hi:
		return fmt.Sprintf("byte %d of the search area while its page is not mapped", a-lo)
	case a >= hi && a < wend:
		return fmt.Sprintf("%d byte(s) past the end of the search area", a-hi+1)
	case a >= wbase && a < lo:
		return fmt.Sprintf("%d byte(s) before the start of the search area", lo-a)
	}
	if a >= e.arena.base-c14Page && a < e.arena.base+uintptr(len(e.arena.g.Data))+c14Page {
		off := int(int64(a) - int64(e.arena.base))
		for i := range e.blobs {
			b := &e.blobs[i]
			if off >= b.off && off < b.off+b.n {
				var sizes []string
				for _, cl := range e.idCalls {
					if cl.frame == e.addr(b)>>12 {
						sizes = append(sizes, fmt.Sprintf("%d", cl.size))
					}
				}
				return fmt.Sprintf("byte %d of table %q (length %d, starting at page offset 0x%x), which lies on a page that is not mapped; "+
					"sizes of the identity mappings requested from the table's first frame: [%s]",
					off-b.off, b.name, b.n, b.off%c14Page, strings.Join(sizes, " "))
			}
		}
		return fmt.Sprintf("offset %d of the table area, which belongs to no table", off)
	}
	if a < 1<<20 {
		return fmt.Sprintf("address 0x%x, which is not part of the image", a)
	}
	return "an address that is not part of the image"
}

func (e *c14Env) explain(pc vlib.Caught) string {
	type addrer interface{ Addr() uintptr }
	if err, ok := pc.Value.(addrer); ok {
		return "memory fault reading " + e.where(err.Addr()) + "\n" + pc.Stack
	}
	if err, ok := pc.Value.(error); ok && strings.Contains(err.Error(), "nil pointer dereference") {
		return "memory fault reading address 0 (nil)\n" + pc.Stack
	}
	return fmt.Sprintf("panic: %v\n%s", pc.Value, pc.Stack)
}

// ---------------------------------------------------------------------------
// run + oracle

func c14Run(c c14Case) (fail *vlib.Failure, herr error) {
	defer vlib.Guard("C14", c, nil)()
	_, fail, herr = c14RunEnv(c)
	return
}

func c14RunEnv(c c14Case) (e *c14Env, fail *vlib.Failure, herr error) {
	e, err := c14Build(&c)
	if err != nil {
		return nil, nil, err
	}
	fail, herr = c14Check(&c, e)
	return e, fail, herr
}

func c14Check(cp *c14Case, e *c14Env) (fail *vlib.Failure, herr error) {
	c := *cp
	if c14ShippedLow != 0xe0000 || c14ShippedHi != 0xfffff {
		return vlib.Failf("the shipped search area is [0x%x, 0x%x], the BIOS area is [0xe0000, 0xfffff]", c14ShippedLow, c14ShippedHi), nil
	}
	defer e.release()
	e.install()

	// ---- probe -----------------------------------------------------------------------
	var drv device.Driver
	pc := vlib.CatchFault(func() { drv = probeForACPI() })
	if pc.Panicked {
		return vlib.Failf("probe: %s", e.explain(pc)), nil
	}
	if e.badMap != "" {
		return vlib.Failf("probe: %s", e.badMap), nil
	}
	win := c.winner()
	desc := func(i int) string {
		it := c.Items[i]
		return fmt.Sprintf("revision-%d root pointer in slot %d of %d", it.Rev, it.Slot, c.Win/16)
	}
	if win < 0 {
		if drv != nil {
			return vlib.Failf("probe returned a driver although the search area holds no valid root pointer on a 16-byte boundary (%s)", c14Found(e, drv)), nil
		}
		return nil, nil
	}
	if drv == nil {
		return vlib.Failf("probe found nothing; the search area holds a valid %s", desc(win)), nil
	}
	ad, ok := drv.(*acpiDriver)
	if !ok {
		return vlib.Failf("probe returned a %T", drv), nil
	}
	wantX := c.Items[win].Rev != 0
	if ad.rsdtAddr != e.addr(e.root) || ad.useXSDT != wantX {
		return vlib.Failf("probe: expected the %s to win with its %s root address; got %s",
			desc(win), map[bool]string{false: "32-bit", true: "64-bit"}[wantX], c14Found(e, drv)), nil
	}

	// ---- the root pointer is damaged in place, the probe runs again ----------------------
	cuts := false
	for _, it := range c.Items {
		cuts = cuts || it.Cut != 0 // a cut decoy's checksums run over its neighbour's bytes
	}
	if c.Reprobe != 0 && !cuts {
		target := (*byte)(unsafe.Pointer(e.winLow + uintptr(c.Items[win].Slot*16+9)))
		c14Win.protectAll(syscall.PROT_READ | syscall.PROT_WRITE)
		*target += c.Reprobe
		c14Win.protectAll(syscall.PROT_NONE)
		e.arena.protectAll(syscall.PROT_NONE)
		next := -1
		for i, it := range c.Items {
			if i != win && it.Valid && it.Off == 0 && it.NoSig == 0 && (next < 0 || it.Slot < c.Items[next].Slot) {
				next = i
			}
		}
		var drv2 device.Driver
		pc := vlib.CatchFault(func() { drv2 = probeForACPI() })
		c14Win.protectAll(syscall.PROT_READ | syscall.PROT_WRITE)
		*target -= c.Reprobe
		c14Win.protectAll(syscall.PROT_NONE)
		e.arena.protectAll(syscall.PROT_NONE)
		when := fmt.Sprintf("second probe, after a byte of the %s was changed (its checksum is wrong now)", desc(win))
		if pc.Panicked {
			return vlib.Failf("%s: %s", when, e.explain(pc)), nil
		}
		switch {
		case next < 0 && drv2 != nil:
			return vlib.Failf("%s: the probe returned a driver although the search area holds no valid root pointer any more (%s)", when, c14Found(e, drv2)), nil
		case next >= 0 && drv2 == nil:
			return vlib.Failf("%s: the probe found nothing; the search area still holds a valid %s", when, desc(next)), nil
		case next >= 0:
			ad2, ok := drv2.(*acpiDriver)
			wantAddr := e.addr(e.root) + uintptr(c14RootAddrs*(next+1))
			if c.Items[next].Rev == 0 {
				wantAddr = uintptr(uint32(wantAddr)) // a revision-0 structure has the 32-bit field only
			}
			if !ok || ad2.rsdtAddr != wantAddr || ad2.useXSDT != (c.Items[next].Rev != 0) {
				return vlib.Failf("%s: expected the %s to win now; got %s", when, desc(next), c14Found(e, drv2)), nil
			}
		}
	}

	// ---- table enumeration ----------------------------------------------------------
	var kerr *kernel.Error
	pc = vlib.CatchFault(func() { kerr = ad.DriverInit(c14Sink{&e.log}) })
	c14Win.protectAll(syscall.PROT_READ | syscall.PROT_WRITE)
	e.arena.protectAll(syscall.PROT_READ | syscall.PROT_WRITE)
	if pc.Panicked {
		return vlib.Failf("DriverInit: %s", e.explain(pc)), nil
	}
	if kerr != nil {
		return vlib.Failf("DriverInit stopped with error %q (every listed table is mappable; bad checksums must be skipped)", kerr.Message), nil
	}

	verify := func(stage string) *vlib.Failure {
	want := map[string]uintptr{}  // signature -> address of every table that must be registered
	report := map[string]bool{}   // signatures that must be reported as corrupted
	known := map[uintptr]string{} // address -> description
	allSigs := map[string]bool{}  // every signature of the image
	for i := range e.blobs {
		b := &e.blobs[i]
		known[e.addr(b)] = fmt.Sprintf("table %q", b.name)
		if b.tb != nil {
			allSigs[b.tb.Sig] = true
		}
	}
	for _, k := range c.Order {
		tb := &c.Tables[k]
		if tb.Corrupt != 0 {
			report[tb.Sig] = true
			continue
		}
		want[tb.Sig] = e.addr(e.tables[k])
		if tb.Fadt != nil {
			d := e.dsdt
			if c14EffectivePtr(tb) == "alt" {
				d = e.alt
			}
			if d.tb.Corrupt != 0 {
				report[d.tb.Sig] = true
			} else {
				want[d.tb.Sig] = e.addr(d)
			}
		}
	}
	var diffs []string
	for sig, a := range want {
		h, ok := ad.tableMap[sig]
		switch {
		case !ok || h == nil:
			diffs = append(diffs, fmt.Sprintf("%q is not registered although its bytes sum to zero", sig))
		case uintptr(unsafe.Pointer(h)) != a:
			at := known[uintptr(unsafe.Pointer(h))]
			if at == "" {
				at = "an address that is no table of the image"
			}
			diffs = append(diffs, fmt.Sprintf("%q is registered at %s instead of its own address", sig, at))
		}
	}
	for sig := range ad.tableMap {
		if _, ok := want[sig]; ok {
			continue
		}
		switch {
		case report[sig]:
			diffs = append(diffs, fmt.Sprintf("%q is registered although its bytes do not sum to zero", sig))
		case allSigs[sig]:
			diffs = append(diffs, fmt.Sprintf("%q is registered although neither the root table nor a valid FADT refers to it", sig))
		default:
			diffs = append(diffs, fmt.Sprintf("%q is registered, which is no table of the image", sig))
		}
	}
	// the report: a line that mentions the checksum and names the table
	out := e.log.String() + "\n" + e.sink.String()
	reported := map[string]bool{}    // named on a line that mentions the checksum
	mentioned := map[string]bool{}   // named on any log line (robust against re-wording of the report)
	for _, line := range strings.Split(out, "\n") {
		for sig := range allSigs {
			if c14Mentions(line, sig) {
				mentioned[sig] = true
				if strings.Contains(strings.ToLower(line), "checksum") {
					reported[sig] = true
				}
			}
		}
	}
	for sig := range report {
		if !mentioned[sig] {
			diffs = append(diffs, fmt.Sprintf("the bad checksum of %q is not reported on the log", sig))
		}
	}
	for sig := range reported {
		if !report[sig] {
			diffs = append(diffs, fmt.Sprintf("%q is reported as having a bad checksum although its bytes sum to zero or it is not part of the enumeration", sig))
		}
	}
	if len(diffs) > 0 {
		sort.Strings(diffs)
		entry := "8-byte"
		if !wantX {
			entry = "4-byte"
		}
		return vlib.Failf("after %sDriverInit (%s entries, root table revision %d, %d listed): %s", stage, entry, c.RootRev, len(c.Tables), strings.Join(diffs, "; "))
	}
	return nil
	}
	if f := verify(""); f != nil {
		return f, nil
	}
	if len(c.Again) == 0 {
		return nil, nil
	}
	// ---- the image changes, the same driver is initialised again -----------------------
	c.Tables = append([]c14Table(nil), c.Tables...)
	changed := 0
	for _, k := range c.Again {
		if k < 0 || k >= len(c.Tables) || c.Tables[k].Fadt != nil {
			continue
		}
		tb := &c.Tables[k]
		p := (*byte)(unsafe.Pointer(e.addr(e.tables[k])))
		if tb.Corrupt != 0 {
			*(*byte)(unsafe.Add(unsafe.Pointer(p), tb.Corrupt)) -= tb.Delta
			tb.Corrupt, tb.Delta = 0, 0
		} else {
			off := 8 + (k*7)%(tb.length()-8)
			tb.Corrupt, tb.Delta = off, uint8(1+k%200)
			*(*byte)(unsafe.Add(unsafe.Pointer(p), off)) += tb.Delta
		}
		changed++
	}
	if changed == 0 {
		return nil, nil
	}
	e.log.Reset()
	e.sink.Reset()
	e.idCalls = nil
	c14Win.protectAll(syscall.PROT_NONE)
	e.arena.protectAll(syscall.PROT_NONE)
	pc = vlib.CatchFault(func() { kerr = ad.DriverInit(c14Sink{&e.log}) })
	c14Win.protectAll(syscall.PROT_READ | syscall.PROT_WRITE)
	e.arena.protectAll(syscall.PROT_READ | syscall.PROT_WRITE)
	if pc.Panicked {
		return vlib.Failf("second DriverInit on the same driver (after %d tables of the image changed): %s", changed, e.explain(pc)), nil
	}
	if kerr != nil {
		return vlib.Failf("second DriverInit on the same driver stopped with error %q", kerr.Message), nil
	}
	return verify(fmt.Sprintf("a second (the image changed in %d tables) ", changed)), nil
}

// c14Found describes what the probe returned in terms of the model.
func c14Found(e *c14Env, drv device.Driver) string {
	ad, ok := drv.(*acpiDriver)
	if !ok {
		return fmt.Sprintf("a %T", drv)
	}
	kind := map[bool]string{false: "32-bit (RSDT)", true: "64-bit (XSDT)"}[ad.useXSDT]
	root := uint64(e.addr(e.root))
	a := uint64(ad.rsdtAddr)
	switch {
	case a == root:
		return fmt.Sprintf("the right root table, treated as %s", kind)
	case a > root && a <= root+uint64(c14RootAddrs*len(e.c.Items)) && (a-root)%c14RootAddrs == 0:
		i := int((a-root)/c14RootAddrs) - 1
		it := e.c.Items[i]
		return fmt.Sprintf("the root address of item %d (slot %d+%d, revision %d, checksums valid=%v, wrong signature byte=%d), treated as %s", i, it.Slot, it.Off, it.Rev, it.Valid, it.NoSig, kind)
	}
	for i, it := range e.c.Items {
		if !it.Valid || it.Rev != 0 {
			if a == it.Junk || a == uint64(uint32(it.Junk)) {
				return fmt.Sprintf("an unused/decoy address field of item %d (slot %d+%d, revision %d, valid=%v), treated as %s", i, it.Slot, it.Off, it.Rev, it.Valid, kind)
			}
		}
	}
	return fmt.Sprintf("an address that no root pointer of the image holds, treated as %s", kind)
}

// ---------------------------------------------------------------------------
// classification

// c14Spill reports whether a structure at arena offset off of n bytes occupies
// more pages than n bytes starting at a page boundary would, or its 36-byte
// header alone crosses a page boundary. For exactly these placements the size
// of the table (resp. of its header) does not tell how many pages starting at
// its first frame have to be mapped (finding F-C14c).
func c14Spill(off, n int) bool {
	return (off%c14Page+n+c14Page-1)/c14Page > (n+c14Page-1)/c14Page || off%c14Page+36 > c14Page
}

func c14Classify(c *c14Case, e *c14Env) (nontrivial bool, labels []string) {
	add := func(l string) { labels = append(labels, l) }
	win := c.winner()
	if c.Reprobe != 0 && win >= 0 {
		add("probed-again-after-the-winning-root-pointer-was-damaged-in-place")
	}
	for _, tb := range c.Tables {
		if c14SigSkeleton(tb.Sig) != tb.Sig {
			add("table-signature-with-a-byte-outside-the-printable-range")
			if tb.Corrupt != 0 {
				add("corrupted-table-whose-signature-has-a-byte-outside-the-printable-range")
			}
			break
		}
	}
	switch {
	case c.Win <= 1024:
		add("win<=1K")
	case c.Win <= 4096:
		add("win<=4K")
	case c.Win < c14WinMax:
		add("win<64K")
	default:
		add("win=64K")
	}
	decoysBefore, lastSlot := 0, false
	if win < 0 {
		add("rsdp-none")
		if len(c.Items) > 0 {
			add("rsdp-none-with-decoys")
		}
	} else {
		it := c.Items[win]
		switch {
		case it.Rev == 0:
			add("rsdp-rev0")
		case it.Rev == 2:
			add("rsdp-rev2")
		default:
			add("rsdp-rev-other")
		}
		last := (c.Win - it.size()) / 16
		if it.Slot == 0 {
			add("rsdp-first-slot")
		}
		if it.Slot == last {
			add("rsdp-last-slot")
			lastSlot = true
		}
		if it.Slot%2 == 1 {
			add("rsdp-odd-slot")
		}
		nonzeroTail := false
		for _, b := range it.Tail {
			if b != 0 {
				nonzeroTail = true
			}
		}
		if nonzeroTail || c.Fill != 0 {
			add("rsdp-followed-by-nonzero")
		}
		for i, o := range c.Items {
			if i == win {
				continue
			}
			switch {
			case o.NoSig != 0:
				if o.Valid && o.Off == 0 && o.Slot < it.Slot {
					add(fmt.Sprintf("wrong-signature-byte-%d-before", o.NoSig))
				}
			case o.Off != 0 && o.Valid:
				add("misplaced-valid-copy")
				if o.Slot < it.Slot {
					add("misplaced-valid-copy-before")
				}
			case o.Off != 0:
			case o.Valid:
				add("second-valid-rsdp")
			case o.Slot < it.Slot:
				decoysBefore++
				if o.Rev == 0 {
					add("decoy-before-rev0")
				} else {
					add("decoy-before-rev2+")
				}
			default:
				add("decoy-after")
			}
		}
		add(fmt.Sprintf("decoys-before=%d", decoysBefore))
	}
	if win >= 0 {
		n := len(c.Tables)
		switch {
		case n == 0:
			add("tables=0")
		case n <= 2:
			add("tables=1-2")
		case n <= 5:
			add("tables=3-5")
		default:
			add("tables=6+")
		}
		add(fmt.Sprintf("root-rev=%d", c.RootRev))
		if c.High && n > 0 {
			add("tables-above-4G")
		}
		corrupt, notLast := 0, false
		for i, k := range c.Order {
			if c.Tables[k].Corrupt != 0 {
				corrupt++
				if i != len(c.Order)-1 {
					notLast = true
				}
				switch c.Tables[k].Corrupt {
				case 9:
					add("corrupt-checksum-byte")
				case c.Tables[k].length() - 1:
					add("corrupt-last-byte")
				}
			}
		}
		if corrupt > 0 {
			add("corrupt>=1")
		}
		if corrupt > 1 {
			add("corrupt>=2")
		}
		if notLast {
			add("corrupt-not-last")
		}
		if corrupt == n && n > 0 {
			add("all-corrupt")
		}
		if f := c.fadt(); f != nil {
			switch {
			case f.length() < 148:
				add("fadt-short(<148)")
			case f.length() < 160:
				add("fadt-148..159")
			default:
				add("fadt-long(>=160)")
			}
			if f.Corrupt != 0 {
				add("fadt-corrupt")
			} else {
				add("fadt-valid")
				d := c.Dsdt
				if c14EffectivePtr(f) == "alt" {
					d = c.Alt
				}
				if d.Corrupt != 0 {
					add("dsdt-corrupt")
				} else {
					add("dsdt-valid")
				}
			}
			if c14PtrsAgree(f) {
				add("fadt-pointers-agree")
			} else {
				add("fadt-pointers-differ")
				if f.Fadt.P40 == "zero" {
					add("fadt-64bit-pointer-only")
				}
				if f.length() >= 148 && f.Fadt.P140 == "zero" {
					add("fadt-32bit-pointer-only")
				}
			}
		} else {
			add("fadt-none")
		}
		if e != nil {
			spill, multi, hdr := false, false, false
			for i := range e.blobs {
				b := &e.blobs[i]
				if c14Spill(b.off, b.n) {
					spill = true
				}
				if b.n > c14Page {
					multi = true
				}
				if b.off%c14Page > c14Page-36 {
					hdr = true
				}
			}
			if spill {
				add("table-spills-into-next-page")
			}
			if multi {
				add("table>1page")
			}
			if hdr {
				add("header-straddles-page")
			}
		}
		nontrivial = (n >= 3 && notLast) || decoysBefore > 0 || lastSlot
	}
	return nontrivial, labels
}

// ---------------------------------------------------------------------------
// generator

var c14SigPool = []string{"APIC", "SSDT", "HPET", "MCFG", "BGRT", "SRAT", "SLIT", "WAET", "TPM2", "UEFI", "ECDT", "SBST", "BERT", "MSCT", "PSDT"}

const c14SigFirst = "GHIJKLMNOPQRSTUVWXYZ"
const c14SigRest = "ABCDEFGHIJKLMNOPQRSTUVWXYZ0123456789_"

func c14GenSig(t *rapid.T) string {
	if rapid.IntRange(0, 2).Draw(t, "sigpool") == 0 {
		return rapid.SampledFrom(c14SigPool).Draw(t, "sig")
	}
	b := []byte{c14SigFirst[rapid.IntRange(0, len(c14SigFirst)-1).Draw(t, "s0")]}
	for i := 1; i < 4; i++ {
		b = append(b, c14SigRest[rapid.IntRange(0, len(c14SigRest)-1).Draw(t, "s")])
	}
	if s := string(b); s == "RSDT" || s == "XSDT" {
		b[3] = '_' // the signatures of the root table itself are not used for listed tables
	}
	if rapid.IntRange(0, 7).Draw(t, "oddsig") == 0 {
		// a byte outside the printable range at one position, letters G-Z at two others
		at := rapid.IntRange(0, 3).Draw(t, "oddat")
		for i := 0; i < 4; i++ {
			if i != at && i != (at+3)%4 {
				b[i] = c14SigFirst[rapid.IntRange(0, len(c14SigFirst)-1).Draw(t, "sl")]
			}
		}
		b[at] = c14SigOdd[rapid.IntRange(0, len(c14SigOdd)-1).Draw(t, "oddbyte")]
	}
	return string(b)
}

func c14GenBody(t *rapid.T, tb *c14Table, min int) {
	n := 0
	switch rapid.IntRange(0, 19).Draw(t, "bodyclass") {
	case 0:
		n = 0
	case 1, 2, 3:
		n = rapid.IntRange(65, 400).Draw(t, "bodymid")
	case 4:
		n = rapid.IntRange(3000, 9000).Draw(t, "bodybig")
	default:
		n = rapid.IntRange(1, 64).Draw(t, "bodysmall")
	}
	if n < min {
		n = min
	}
	explicit := n
	if explicit > 48 {
		explicit = 48
	}
	tb.Body = rapid.SliceOfN(rapid.Byte(), explicit, explicit).Draw(t, "body")
	if n > explicit {
		tb.Ext = n - explicit
		tb.Seed = rapid.Uint32Range(1, 1<<32-1).Draw(t, "bodyseed")
	}
}

func c14GenCorrupt(t *rapid.T, tb *c14Table) {
	// about one in four (rapid draws small ranges almost uniformly, and
	// shrinks towards 0 = intact)
	if rapid.IntRange(0, 3).Draw(t, "corrupt") != 3 {
		return
	}
	l := tb.length()
	switch rapid.IntRange(0, 5).Draw(t, "corruptwhere") {
	case 0:
		tb.Corrupt = 9 // the checksum byte itself
	case 1:
		tb.Corrupt = l - 1
	case 2:
		tb.Corrupt = 8
	default:
		tb.Corrupt = rapid.IntRange(8, l-1).Draw(t, "corruptat")
	}
	tb.Delta = uint8(rapid.IntRange(1, 255).Draw(t, "delta"))
}

// c14GenGap chooses the distance to the previous structure so that the
// structure of n bytes starts at an interesting place relative to the pages.
func c14GenGap(t *rapid.T, st *vlib.Stats, cur, n int, avoidSpill bool) int {
	toPage := (c14Page - cur%c14Page) % c14Page // gap that makes the start page aligned
	gap := 0
	switch rapid.IntRange(0, 11).Draw(t, "gapclass") {
	case 0, 1, 2:
		gap = 0 // packed, as most firmware does
	case 3, 4:
		gap = rapid.IntRange(1, 64).Draw(t, "gapsmall")
	case 5:
		gap = (16 - cur%16) % 16
	case 6:
		gap = toPage
	case 7: // the last byte is the last byte of a page
		gap = ((toPage-n)%c14Page + c14Page) % c14Page
	case 8: // the header straddles a page boundary
		gap = toPage + c14Page - rapid.IntRange(1, 35).Draw(t, "hdrsplit")
	case 9, 10: // the body crosses into the next page
		if n > 1 {
			k := rapid.IntRange(1, n-1).Draw(t, "split")
			gap = toPage + c14Page - (k % c14Page)
		}
	default:
		gap = rapid.IntRange(0, 3000).Draw(t, "gapany")
	}
	gap %= 2 * c14Page
	if avoidSpill && c14Spill(cur+gap, n) {
		// start at the next page boundary instead
		st.Exclude("F-C14c: table placed so that it occupies more pages than its length (or its header) alone would (constructed around)")
		gap = toPage
		if c14Spill(cur+gap, n) {
			panic("unreachable: an aligned structure cannot spill")
		}
	}
	return gap
}

func c14GenItem(t *rapid.T, rev uint8, valid bool) c14Item {
	it := c14Item{Rev: rev, Valid: valid}
	it.OEM = rapid.SliceOfN(rapid.Byte(), 6, 6).Draw(t, "oem")
	it.Junk = uint64(rapid.Uint32().Draw(t, "junk"))
	if rapid.Bool().Draw(t, "junk64") {
		it.Junk |= uint64(rapid.Uint32().Draw(t, "junkhi")) << 32
	}
	if rev != 0 {
		it.Len = 36
	}
	if !valid {
		it.Bad20 = uint8(rapid.IntRange(1, 255).Draw(t, "bad20"))
		if rev != 0 && rapid.IntRange(0, 2).Draw(t, "only36bad") == 0 {
			it.Bad20 = 0 // e.g. a rev-2 descriptor corrupted somewhere in bytes 20..35
		}
		if rev != 0 {
			it.Bad36 = uint8(rapid.IntRange(1, 255).Draw(t, "bad36"))
			if rapid.Bool().Draw(t, "badlen") {
				it.Len = rapid.SampledFrom([]uint32{0, 20, 35, 37, 40, 4096, 1 << 20, 1<<32 - 1}).Draw(t, "len")
			}
		}
	}
	if rapid.IntRange(0, 3).Draw(t, "tail") != 0 {
		it.Tail = rapid.SliceOfN(rapid.Byte(), 1, 8).Draw(t, "tailbytes")
	}
	return it
}

func c14GenRev(t *rapid.T) uint8 {
	return rapid.SampledFrom([]uint8{0, 0, 0, 0, 2, 2, 2, 2, 2, 3, 4, 6, 1, 255}).Draw(t, "rev")
}

func c14Gen(t *rapid.T, st *vlib.Stats) c14Case {
	var c c14Case
	// ---- search area -------------------------------------------------------------
	switch rapid.IntRange(0, 9).Draw(t, "winclass") {
	case 0:
		c.Win = 16 * rapid.IntRange(4, 16).Draw(t, "wintiny")
	case 1, 2, 3, 4:
		c.Win = 16 * rapid.IntRange(64, 256).Draw(t, "winsmall")
	case 5, 6:
		c.Win = 16 * rapid.IntRange(257, 1024).Draw(t, "winmid")
	case 7:
		c.Win = c14Page * rapid.IntRange(1, 16).Draw(t, "winpages")
	case 8:
		c.Win = rapid.SampledFrom([]int{c14WinMax, c14WinMax, 64 << 10, 64<<10 + 16, 64<<10 + 4096, 96 << 10}).Draw(t, "winsegs")
	default:
		c.Win = 16 * rapid.IntRange(1025, 4096).Draw(t, "winbig")
	}
	if rapid.IntRange(0, 9).Draw(t, "zerofill") != 0 {
		c.Fill = rapid.Uint32Range(1, 1<<32-1).Draw(t, "fill")
	}
	nslots := c.Win / 16
	haveReal := rapid.IntRange(0, 9).Draw(t, "havereal") != 0
	where := rapid.SampledFrom([]string{"first", "last", "last", "any", "any", "any", "any"}).Draw(t, "where")
	need := func(it c14Item) int { return (it.Off + it.size() + len(it.Tail) + 8 + 15) / 16 }
	cur := 0
	adjacent := false
	var real c14Item
	if haveReal {
		real = c14GenItem(t, c14GenRev(t), true)
	}
	lastSlot := func(it c14Item) int { return (c.Win - it.Off - it.size()) / 16 }
	// structures before the real one (or anywhere when there is none)
	if !haveReal || where != "first" {
		npre := rapid.SampledFrom([]int{0, 0, 1, 1, 1, 2, 3}).Draw(t, "npre")
		for i := 0; i < npre; i++ {
			var it c14Item
			switch rapid.IntRange(0, 5).Draw(t, "prekind") {
			case 4:
				// a complete, checksum-valid structure that does not sit on a 16-byte boundary
				it = c14GenItem(t, c14GenRev(t), true)
				it.Off = rapid.SampledFrom([]int{8, 8, 8, 4, 12, 1, 15, 2}).Draw(t, "off")
			case 5:
				// a complete, checksum-valid structure on a boundary whose signature is off by one byte
				it = c14GenItem(t, c14GenRev(t), true)
				it.NoSig = rapid.SampledFrom([]int{8, 8, 1, 2, 3, 4, 5, 6, 7}).Draw(t, "nosig")
			default:
				it = c14GenItem(t, c14GenRev(t), false)
			}
			limit := nslots - need(it)
			if haveReal {
				limit = lastSlot(real) - need(it)
			}
			if limit < cur {
				break
			}
			hi := limit
			if hi > cur+12 && rapid.IntRange(0, 2).Draw(t, "near") != 0 {
				hi = cur + 12
			}
			it.Slot = rapid.IntRange(cur, hi).Draw(t, "slot")
			if !haveReal && i == npre-1 && rapid.IntRange(0, 2).Draw(t, "decoylast") == 0 && lastSlot(it) >= cur {
				it.Slot = lastSlot(it) // a decoy in the last slot where it still fits
			}
			cur = it.Slot + need(it)
			if haveReal && i == npre-1 && it.Off == 0 && it.NoSig == 0 && !it.Valid && rapid.IntRange(0, 2).Draw(t, "adjacent") == 0 {
				// the decoy sits in the slot(s) directly in front of the real structure
				it.Cut = 16
				if it.Rev != 0 && rapid.Bool().Draw(t, "cut32") {
					it.Cut = 32
				}
				it.Tail = nil
				if it.Slot+it.Cut/16 <= lastSlot(real) {
					cur = it.Slot + it.Cut/16
					adjacent = true
				} else {
					it.Cut = 0
				}
			}
			c.Items = append(c.Items, it)
		}
	}
	if haveReal {
		last := lastSlot(real)
		switch {
		case adjacent:
			real.Slot = cur
		case where == "first" || last <= cur:
			real.Slot = cur
			if real.Slot > last {
				real.Slot = last
			}
		case nslots > 4096 && cur <= 4093 && last >= 4096 && rapid.IntRange(0, 2).Draw(t, "atsegment") == 0:
			// the structure ends at, or straddles, the 64 KiB line of a larger search area
			real.Slot = 4096 - rapid.IntRange(0, 3).Draw(t, "segslot")
		case where == "last":
			real.Slot = last
		default:
			real.Slot = rapid.IntRange(cur, last).Draw(t, "realslot")
		}
		c.Items = append(c.Items, real)
		cur = real.Slot + need(real)
		// structures after the winner: further valid ones, decoys
		npost := rapid.SampledFrom([]int{0, 0, 0, 1, 1, 2}).Draw(t, "npost")
		for i := 0; i < npost; i++ {
			it := c14GenItem(t, c14GenRev(t), rapid.Bool().Draw(t, "postvalid"))
			limit := nslots - need(it)
			if limit < cur {
				break
			}
			it.Slot = rapid.IntRange(cur, limit).Draw(t, "postslot")
			cur = it.Slot + need(it)
			c.Items = append(c.Items, it)
		}
	}

	// ---- tables -------------------------------------------------------------------
	openB := vlib.OpenFinding("F-C14b")
	openC := vlib.OpenFinding("F-C14c")
	ntab := 0
	if haveReal {
		ntab = rapid.SampledFrom([]int{0, 1, 2, 3, 3, 4, 4, 5, 5, 6, 7, 8, 10}).Draw(t, "ntables")
	} else if rapid.Bool().Draw(t, "tablesanyway") {
		ntab = rapid.IntRange(0, 2).Draw(t, "ntables0")
	}
	sigs := rapid.SliceOfNDistinct(rapid.Custom(c14GenSig), ntab+2, ntab+2, c14SigSkeleton).Draw(t, "sigs")
	// rarely a root table with dozens or hundreds of entries: the extra tables are small, packed
	// and get their contents from their index (no further draws)
	nbulk := 0
	if haveReal && rapid.IntRange(0, 39).Draw(t, "bulktables") == 0 {
		nbulk = rapid.SampledFrom([]int{24, 54, 55, 118, 119, 120, 121, 190, 247, 300}).Draw(t, "nbulk")
	}
	// a signature with an odd byte must not be confusable - however the log prints that byte - with
	// another name of the image; where it is, the odd byte gives way to a digit
	for pass := 0; pass < 8; pass++ { // (a signature that has just become plain may clash with an odd one passed earlier)
	changed := false
	for i := range sigs {
		if c14SigSkeleton(sigs[i]) == sigs[i] {
			continue
		}
		clash := nbulk > 0 || pass == 7
		for _, fixed := range []string{"RSDT", "XSDT", "FACP", "DSDT", "RSD ", "PTR "} {
			clash = clash || c14Confusable(fixed, sigs[i])
		}
		for j := range sigs {
			clash = clash || (j != i && c14Confusable(sigs[j], sigs[i]))
		}
		for d := byte('0'); clash && d <= '9'; d++ {
			b := []byte(sigs[i])
			for k := range b {
				if b[k] < 0x20 || b[k] > 0x7e {
					b[k] = d
				}
			}
			dup := false
			for j := range sigs {
				dup = dup || (j != i && sigs[j] == string(b))
			}
			if !dup {
				sigs[i], clash, changed = string(b), false, true
			}
		}
	}
	if !changed {
		break
	}
	}
	drawn := ntab
	ntab += nbulk
	c.RootRev = rapid.SampledFrom([]uint8{0, 1, 1, 1, 2, 3}).Draw(t, "rootrev")
	// with 8-byte entries the tables may live above 4 GiB
	c.High = haveReal && real.Rev != 0 && rapid.IntRange(0, 2).Draw(t, "high") == 2
	fadtAt := -1
	if drawn > 0 && rapid.IntRange(0, 9).Draw(t, "havefadt") < 6 {
		fadtAt = rapid.IntRange(0, drawn-1).Draw(t, "fadtat")
	}
	if c.High && fadtAt >= 0 && openB {
		// the 32-bit DSDT pointer cannot agree with the others above 4 GiB
		st.Exclude("F-C14b: FADT with tables above 4 GiB (the 32-bit pointer cannot agree with the 64-bit one; constructed around)")
		fadtAt = -1
	}
	c.RootPos = rapid.IntRange(0, ntab).Draw(t, "rootpos")
	c.Order = rapid.Permutation(c14Iota(drawn)).Draw(t, "order")
	if c.Order == nil {
		c.Order = []int{}
	}
	if nbulk > 0 {
		// the drawn tables are listed somewhere among the extra ones
		at := rapid.IntRange(0, nbulk).Draw(t, "drawnat")
		order := make([]int, 0, ntab)
		for k := 0; k < nbulk; k++ {
			if k == at {
				order = append(order, c.Order...)
			}
			order = append(order, drawn+k)
		}
		if at == nbulk {
			order = append(order, c.Order...)
		}
		c.Order = order
	}
	taken := map[string]bool{}
	for _, sg := range sigs {
		taken[sg] = true
	}
	entry := 8
	if haveReal && real.Rev == 0 {
		entry = 4
	}
	acur := 0
	for i := 0; i <= ntab; i++ {
		if i == c.RootPos {
			n := 36 + entry*ntab
			c.RootGap = c14GenGap(t, st, acur, n, openC)
			acur += c.RootGap + n
		}
		if i == ntab {
			break
		}
		if i >= drawn {
			k := i - drawn
			tb := c14Table{Rev: uint8(k % 7)}
			for n := k; ; n += 1000 {
				tb.Sig = fmt.Sprintf("Q%03X", n)
				if !taken[tb.Sig] {
					break
				}
			}
			taken[tb.Sig] = true
			tb.Body = make([]byte, k%9)
			for b := range tb.Body {
				tb.Body[b] = byte(k*31 + b)
			}
			if k%6 == 4 {
				tb.Corrupt, tb.Delta = 8+k%(tb.length()-8), uint8(1+k%255)
			}
			if openC && c14Spill(acur, tb.length()) {
				st.Exclude("F-C14c: table placed so that it occupies more pages than its length (or its header) alone would (constructed around)")
				tb.Gap = (c14Page - acur%c14Page) % c14Page
			}
			acur += tb.Gap + tb.length()
			c.Tables = append(c.Tables, tb)
			continue
		}
		tb := c14Table{Sig: sigs[i], Rev: uint8(rapid.IntRange(0, 6).Draw(t, "tabrev"))}
		if i == fadtAt {
			tb.Sig = fadtSignature
			c14GenFadt(t, st, &c, &tb, openB)
		} else {
			c14GenBody(t, &tb, 0)
		}
		c14GenCorrupt(t, &tb)
		tb.Gap = c14GenGap(t, st, acur, tb.length(), openC)
		acur += tb.Gap + tb.length()
		c.Tables = append(c.Tables, tb)
	}
	if fadtAt >= 0 {
		d := &c14Table{Sig: "DSDT", Rev: uint8(rapid.IntRange(1, 2).Draw(t, "dsdtrev"))}
		if rapid.IntRange(0, 9).Draw(t, "dsdtsig") == 0 {
			d.Sig = sigs[drawn]
		}
		c14GenBody(t, d, 0)
		c14GenCorrupt(t, d)
		d.Gap = c14GenGap(t, st, acur, d.length(), openC)
		acur += d.Gap + d.length()
		c.Dsdt = d
		p := c.Tables[fadtAt].Fadt
		if p.P40 == "alt" || p.P140 == "alt" || p.P152 == "alt" {
			a := &c14Table{Sig: sigs[drawn+1], Rev: 1}
			c14GenBody(t, a, 0)
			c14GenCorrupt(t, a)
			a.Gap = c14GenGap(t, st, acur, a.length(), openC)
			acur += a.Gap + a.length()
			c.Alt = a
		}
	}
	if acur > c14ArenaPages*c14Page {
		t.Fatalf("VERIF-HARNESS C14 generator: image of %d bytes exceeds the arena", acur)
	}
	if len(c.Tables) > 0 && rapid.IntRange(0, 5).Draw(t, "again") == 0 {
		c.Again = rapid.SliceOfN(rapid.IntRange(0, len(c.Tables)-1), 1, 3).Draw(t, "againtables")
	}
	if c.winner() >= 0 && rapid.IntRange(0, 3).Draw(t, "reprobe") == 0 {
		c.Reprobe = uint8(rapid.IntRange(1, 255).Draw(t, "reprobedelta"))
	}
	return c
}

func c14Iota(n int) []int {
	out := make([]int, n)
	for i := range out {
		out[i] = i
	}
	return out
}

// c14GenFadt fills in the FADT. While finding F-C14b is open only FADTs whose
// pointer candidates all agree are generated (and short ones only below a root
// table of revision < 2, where the driver does not look at byte 152 at all).
func c14GenFadt(t *rapid.T, st *vlib.Stats, c *c14Case, tb *c14Table, openB bool) {
	total := 0
	switch rapid.IntRange(0, 9).Draw(t, "fadtlen") {
	case 0:
		total = rapid.IntRange(44, 115).Draw(t, "fadtshort")
	case 1, 2:
		total = 116 // ACPI 1.0
	case 3:
		total = rapid.IntRange(117, 147).Draw(t, "fadtmid")
	case 4:
		total = rapid.IntRange(148, 159).Draw(t, "fadt148")
	case 5:
		total = rapid.SampledFrom([]int{160, 160, 161, 168, 200, 243}).Draw(t, "fadt160")
	case 6, 7:
		total = 244 // ACPI 2.0 - 5.0
	case 8:
		total = 276 // ACPI 6
	default:
		total = rapid.IntRange(160, 400).Draw(t, "fadtlong")
	}
	body := total - 36
	tb.Body = rapid.SliceOfN(rapid.Byte(), body, body).Draw(t, "fadtbody")
	tb.Fadt = &c14Ptrs{}
	p := tb.Fadt
	if c.High && total < 148 {
		total = 148 + total%100 // needs an X_DSDT field
		body = total - 36
		tb.Body = append(tb.Body, make([]byte, body-len(tb.Body))...)
	}
	kind := rapid.SampledFrom([]string{"both", "both", "only32", "only64", "differ"}).Draw(t, "fadtptrs")
	if total < 148 {
		kind = "only32"
	}
	if c.High {
		kind = "only64"
	}
	switch kind {
	case "both":
		p.P40, p.P140 = "dsdt", "dsdt"
	case "only32":
		p.P40, p.P140 = "dsdt", "zero"
	case "only64":
		p.P40, p.P140 = "zero", "dsdt"
	default: // both set, different: ACPI lets the 64-bit one win
		if rapid.Bool().Draw(t, "alt64") {
			p.P40, p.P140 = "dsdt", "alt"
		} else {
			p.P40, p.P140 = "alt", "dsdt"
		}
	}
	if total < 148 {
		p.P140 = ""
	}
	// byte 152 is part of X_PM1a_EVT_BLK in the ACPI layout: unrelated content
	p.P152 = rapid.SampledFrom([]string{"", "", "zero", "dsdt"}).Draw(t, "p152")
	if total < 160 {
		p.P152 = ""
	}
	if !openB {
		return
	}
	// F-C14b is open: keep only FADTs in which every candidate agrees, so that the
	// expectation does not depend on which one the driver reads
	// ... more precisely: FADTs for which the candidate the driver reads today (byte 152 below a
	// root table of revision >= 2, byte 40 otherwise) refers to the table ACPI designates (the
	// 64-bit pointer at byte 140 unless it is zero, else the 32-bit one). A FADT with only a
	// 64-bit pointer below a revision-2 root table passes as long as byte 152 repeats it.
	reads := tb.Fadt.P40
	if c.RootRev >= 2 {
		reads = tb.Fadt.P152
	}
	if eff := c14EffectivePtr(tb); reads != eff || (eff != "dsdt" && eff != "alt") {
		st.Exclude("F-C14b: FADT whose DSDT pointer candidates (bytes 40 / 140 / 152) differ (constructed around: all made equal)")
		p.P40, p.P140, p.P152 = "dsdt", "", ""
		if total >= 148 {
			p.P140 = "dsdt"
		}
		if total >= 160 {
			p.P152 = "dsdt"
		}
	}
	if total < 160 && c.RootRev >= 2 {
		// the driver would read byte 152, which lies beyond the table
		st.Exclude("F-C14b: FADT shorter than 160 bytes below a root table of revision >= 2 (constructed around: revision lowered)")
		c.RootRev = uint8(rapid.IntRange(0, 1).Draw(t, "rootrevlow"))
	}
}

// ---------------------------------------------------------------------------
// tests

func TestVerifC14(t *testing.T) {
	st := vlib.For("C14")
	defer vlib.Flush()
	rapid.Check(t, func(t *rapid.T) {
		c := c14Gen(t, st)
		e, fail, herr := c14RunEnv(c)
		if herr != nil {
			t.Fatalf("VERIF-HARNESS C14: %v", herr)
		}
		nt, labels := c14Classify(&c, e)
		st.Case(c, nt, labels...)
		vlib.Report(t, "C14", c, fail)
	})
}

func TestVerifC14Replay(t *testing.T) {
	var c c14Case
	ok, err := vlib.LoadReplay(&c)
	if !ok {
		t.Skip("no replay requested")
	}
	if err != nil {
		t.Fatalf("VERIF-HARNESS cannot load replay: %v", err)
	}
	fail, herr := c14Run(c)
	if herr != nil {
		t.Fatalf("VERIF-HARNESS C14: %v", herr)
	}
	vlib.Report(t, "C14", c, fail)
}
