//go:build verif && go1.21

package aml

import (
	"bytes"
	"fmt"
	"testing"
)

func TestVerifExplore(t *testing.T) {
	lit := func(v uint64) amlExpr { return amlExpr{K: "data", Data: &amlData{K: "byte", V: v}} }
	loc := func(n int) *amlExpr { return &amlExpr{K: "local", N: n} }
	prog := []amlObj{
		{K: "name", Name: amlSeg("PKG0"), Data: &amlData{K: "package", Elems: []amlData{{K: "byte", V: 7}, {K: "string", S: []byte("hi")}, {K: "package", Elems: []amlData{{K: "one"}}}, {K: "buffer", V: 3, S: []byte{1, 2}}}}},
		{K: "scope", Name: amlName{Root: true, Segs: []string{"_SB_"}}, Body: []amlObj{
			{K: "device", Name: amlSeg("DEV0"), Body: []amlObj{
				{K: "name", Name: amlSeg("NAM0"), Data: &amlData{K: "buffer", V: 4, S: []byte{9, 8}}},
				{K: "method", Name: amlSeg("MTH0"), Argc: 2, Flags: 8, Stmts: []amlStmt{
					{K: "store", E: &amlExpr{K: "binop", Op: "add", Args: []amlExpr{{K: "arg", N: 0}, lit(3)}}, T: loc(0)},
					{K: "if", E: &amlExpr{K: "cmp", Op: "lless", Args: []amlExpr{{K: "local", N: 0}, lit(5)}}, Body: []amlStmt{{K: "inc", T: loc(0)}}, Has: true, Else: []amlStmt{{K: "return", E: &amlExpr{K: "call", Name: "MTH1", Args: []amlExpr{{K: "call", Name: "MTH2", Args: []amlExpr{lit(1)}}, {K: "ref", Name: "NAM0"}}}}}},
					{K: "while", E: &amlExpr{K: "cmp", Op: "lless", Args: []amlExpr{{K: "local", N: 0}, lit(9)}}, Body: []amlStmt{{K: "expr", E: &amlExpr{K: "binop", Op: "add", Args: []amlExpr{{K: "local", N: 0}, {K: "call", Name: "MTH2", Args: []amlExpr{lit(2)}}}, Target: loc(0)}}}},
					{K: "expr", E: &amlExpr{K: "call", Name: "MTH2", Args: []amlExpr{lit(4)}}},
					{K: "return", E: &amlExpr{K: "local", N: 0}},
				}},
				{K: "method", Name: amlSeg("MTH1"), Argc: 2, Stmts: []amlStmt{{K: "return", E: &amlExpr{K: "arg", N: 1}}}},
				{K: "opregion", Name: amlSeg("REG0"), Space: 1, OffK: "word", Offset: 0x3000, LenK: "byte", Len: 4},
				{K: "field", Region: amlSeg("REG0"), Flags: 0x21, Elems: []amlFieldElem{{K: "named", Name: "FLD0", Bits: 8}, {K: "reserved", Bits: 4}, {K: "access", Type: 2, Attrib: 0}, {K: "named", Name: "FLD1", Bits: 300}}},
				{K: "mutex", Name: amlSeg("MTX0"), Flags: 3},
				{K: "event", Name: amlSeg("EVT0")},
				{K: "processor", Name: amlSeg("CPU0"), ProcID: 1, PblkAddr: 0x120, PblkLen: 6},
				{K: "power", Name: amlSeg("PWR0"), SysLevel: 2, ResOrder: 0x1234, Body: []amlObj{{K: "name", Name: amlSeg("PWN0"), Data: &amlData{K: "zero"}}}},
				{K: "indexfield", Region: amlSeg("FLD0"), DataN: amlSeg("FLD1"), Flags: 1, Elems: []amlFieldElem{{K: "named", Name: "IDX0", Bits: 8}}},
			}},
		}},
		{K: "method", Name: amlSeg("MTH2"), Argc: 1, Stmts: []amlStmt{{K: "return", E: &amlExpr{K: "arg", N: 0}}}},
		{K: "thermal", Name: amlName{Root: true, Segs: []string{"_TZ_", "THM0"}}, Body: []amlObj{{K: "name", Name: amlName{Carets: 0, Segs: []string{"TMP0"}}, Data: &amlData{K: "qword", V: 1 << 40}}}},
	}
	buf, hdr := amlTable("DSDT", amlEncodeObjs(prog))
	_ = buf
	tree := NewObjectTree()
	tree.CreateDefaultScopes(42)
	var errs bytes.Buffer
	err := NewParser(&errs, tree).ParseAML(1, "DSDT", hdr)
	fmt.Println("err:", err, errs.String())
	var out bytes.Buffer
	tree.PrettyPrint(&out)
	fmt.Println(out.String())
}
