//go:build verif && go1.21

package aml

import (
	"bytes"
	"fmt"
	"testing"
)

func exploreDump(prog []amlObj) {
	_, hdr := amlTable("DSDT", amlEncodeObjs(prog))
	tree := NewObjectTree()
	tree.CreateDefaultScopes(42)
	var errs bytes.Buffer
	err := NewParser(&errs, tree).ParseAML(1, "DSDT", hdr)
	fmt.Println("err:", err, errs.String())
	var out bytes.Buffer
	tree.PrettyPrint(&out)
	fmt.Println(out.String())
}

func TestVerifExplore(t *testing.T) {
	lit := func(v uint64) amlExpr { return amlExpr{K: "data", Data: &amlData{K: "byte", V: v}} }
	loc := func(n int) *amlExpr { return &amlExpr{K: "local", N: n} }
	_ = loc
	z := amlExpr{K: "data", Data: &amlData{K: "zero"}}
	prog := []amlObj{
		{K: "method", Name: amlSeg("AAAK"), Argc: 3, Stmts: []amlStmt{
			{K: "while", E: &amlExpr{K: "cmp", Op: "lequal", Args: []amlExpr{{K: "local", N: 0}, lit(9)}}, Body: []amlStmt{
				{K: "expr", E: &amlExpr{K: "call", Name: "AAAK", Args: []amlExpr{{K: "call", Name: "AACC", Args: []amlExpr{{K: "local", N: 0}, z}}, {K: "call", Name: "AACC", Args: []amlExpr{z, z}}, z}}},
				{K: "store", E: &z, T: loc(0)},
				{K: "if", E: &amlExpr{K: "cmp", Op: "lequal", Args: []amlExpr{z, z}}, Body: []amlStmt{{K: "inc", T: loc(0)}}},
				{K: "expr", E: &amlExpr{K: "call", Name: "AAAK", Args: []amlExpr{z, z, z}}},
			}},
		}},
		{K: "method", Name: amlSeg("AACC"), Argc: 2},
	}
	exploreDump(prog)
}
