//go:build verif && go1.21

package aml

// Generator of well-formed AML programs for C11 (see c11_test.go).

import (
	"fmt"
	"strings"
	"testing"

	"pgregory.net/rapid"
	"verifharness/vlib"
)

type c11Gen struct {
	t     *rapid.T
	used  map[string]bool
	stats c11Stats
	// feature switches for classes that are recorded findings
	allowOperatorCallArgs bool
	allowEmptyIf          bool
	noHuge                bool // no packages beyond 1 MiB (C12 keeps inputs small)
	allowTermsAfterBlock  bool // inside deferred (While) blocks
	allowRootScope        bool // Scope(\) directives
	allowShadowing        bool // a method named like a method of an enclosing scope
	methodsIn             map[string][]string // scope path -> names of the methods declared there
	allowSplitIndexField  bool // an IndexField outside the Scope(\) that declares its registers
	noDeepChain           bool // no chains of deeply nested devices
	allowHomonyms         bool // an unrelated device named like the target of a nested Scope directive
	// ... also when that target is an object declared elsewhere under a path-prefixed name (F-C11g)
	allowHomonymOfRelocated bool
	allowForeign            bool // absolute-named objects declared inside containers
}

var c11Predefined = []string{"_GPE", "_PR_", "_SB_", "_SI_", "_TZ_"}

func (g *c11Gen) name() string {
	const lead = "ABCDEFGHIJKLMNOPQRSTUVWXYZ_"
	const rest = "ABCDEFGHIJKLMNOPQRSTUVWXYZ0123456789_"
	for {
		b := []byte{
			lead[rapid.IntRange(0, len(lead)-1).Draw(g.t, "n0")],
			rest[rapid.IntRange(0, len(rest)-1).Draw(g.t, "n1")],
			rest[rapid.IntRange(0, len(rest)-1).Draw(g.t, "n2")],
			rest[rapid.IntRange(0, len(rest)-1).Draw(g.t, "n3")],
		}
		s := string(b)
		if g.used[s] {
			continue
		}
		g.used[s] = true
		return s
	}
}

func (g *c11Gen) width() int {
	if rapid.IntRange(0, 5).Draw(g.t, "nonminimal") == 0 {
		g.stats.nonMinimalPkg++
		return rapid.IntRange(2, 4).Draw(g.t, "pkgw")
	}
	return 0
}

func (g *c11Gen) data(depth int) *amlData {
	k := rapid.SampledFrom([]string{"zero", "one", "ones", "byte", "word", "dword", "qword", "string", "buffer", "package"}).Draw(g.t, "datak")
	if depth >= 2 && k == "package" {
		k = "byte"
	}
	d := &amlData{K: k}
	switch k {
	case "byte":
		d.V = uint64(rapid.Uint8().Draw(g.t, "v8"))
	case "word":
		d.V = uint64(rapid.Uint16().Draw(g.t, "v16"))
	case "dword":
		d.V = uint64(rapid.Uint32().Draw(g.t, "v32"))
	case "qword":
		d.V = rapid.Uint64().Draw(g.t, "v64")
	case "string":
		n := rapid.IntRange(0, 12).Draw(g.t, "slen")
		for i := 0; i < n; i++ {
			d.S = append(d.S, byte(rapid.IntRange(1, 0x7f).Draw(g.t, "ch")))
		}
	case "buffer":
		n := rapid.IntRange(0, 10).Draw(g.t, "blen")
		d.S = rapid.SliceOfN(rapid.Byte(), n, n).Draw(g.t, "bbytes")
		if depth == 0 && !g.noHuge && rapid.IntRange(0, 150).Draw(g.t, "hugebuf") == 0 {
			// a package longer than 2^20 bytes: needs all four PkgLength bytes
			d.S = []byte{byte(rapid.IntRange(1, 255).Draw(g.t, "fill")), 0x5a}
			d.Rep = 1<<19 + rapid.IntRange(0, 40).Draw(g.t, "hugerep")
			n = 2 * d.Rep
			g.stats.hugePkg++
		}
		d.V = uint64(n + rapid.SampledFrom([]int{0, 0, 1, 300, 70000}).Draw(g.t, "bextra"))
		d.W = g.width()
		g.stats.deferred++
	case "package":
		n := rapid.IntRange(0, 4).Draw(g.t, "plen")
		for i := 0; i < n; i++ {
			d.Elems = append(d.Elems, *g.data(depth + 1))
		}
		d.W = g.width()
	}
	return d
}

// scalar generates constant or string data (no packages, no buffers).
func (g *c11Gen) scalar() *amlData {
	k := rapid.SampledFrom([]string{"zero", "one", "ones", "byte", "word", "dword", "qword", "string"}).Draw(g.t, "scalark")
	d := &amlData{K: k}
	switch k {
	case "byte":
		d.V = uint64(rapid.Uint8().Draw(g.t, "v8"))
	case "word":
		d.V = uint64(rapid.Uint16().Draw(g.t, "v16"))
	case "dword":
		d.V = uint64(rapid.Uint32().Draw(g.t, "v32"))
	case "qword":
		d.V = rapid.Uint64().Draw(g.t, "v64")
	case "string":
		n := rapid.IntRange(0, 12).Draw(g.t, "slen")
		for i := 0; i < n; i++ {
			d.S = append(d.S, byte(rapid.IntRange(1, 0x7f).Draw(g.t, "ch")))
		}
	}
	return d
}

// body generates the contents of a container whose namespace path is abs.
func (g *c11Gen) body(abs string, depth int) []amlObj {
	n := rapid.IntRange(0, 5).Draw(g.t, "nobjs")
	var out []amlObj
	for i := 0; i < n; i++ {
		k := rapid.SampledFrom([]string{"name", "name", "method", "method", "method", "device", "device", "thermal", "processor", "power", "region", "mutex", "event"}).Draw(g.t, "objk")
		if depth >= 3 && (k == "device" || k == "thermal" || k == "processor" || k == "power") {
			k = "name"
		}
		nm := g.name()
		o := amlObj{K: k, Name: amlSeg(nm), Abs: c11JoinPath(abs, nm)}
		switch k {
		case "name":
			o.Data = g.data(0)
		case "method":
			o.Argc = rapid.IntRange(0, 7).Draw(g.t, "argc")
			o.Flags = uint8(rapid.IntRange(0, 31).Draw(g.t, "mflags")) << 3
			o.W = g.width()
			if g.methodsIn == nil {
				g.methodsIn = map[string][]string{}
			}
			if g.allowShadowing && depth >= 1 && rapid.IntRange(0, 4).Draw(g.t, "shadow") == 0 {
				// the name of a method of an enclosing scope: a simple name used from here
				// inwards designates this method, not the outer one
				var outer []string
				for sc := c11ScopeOfAbs(abs + ".XXXX"); ; sc = c11ScopeOfAbs(sc) {
					if sc != abs {
						outer = append(outer, g.methodsIn[sc]...)
					}
					if sc == "\\" {
						break
					}
				}
				taken := map[string]bool{}
				for _, n := range g.methodsIn[abs] {
					taken[n] = true
				}
				var cand []string
				for _, n := range outer {
					if !taken[n] {
						cand = append(cand, n)
					}
				}
				if len(cand) > 0 {
					nm = cand[rapid.IntRange(0, len(cand)-1).Draw(g.t, "shadowof")]
					o.Name, o.Abs = amlSeg(nm), c11JoinPath(abs, nm)
					g.stats.shadowed++
				}
			}
			g.methodsIn[abs] = append(g.methodsIn[abs], nm)
		case "device", "thermal":
			o.W = g.width()
			o.Body = g.body(o.Abs, depth+1)
		case "processor":
			o.ProcID = rapid.Uint8().Draw(g.t, "procid")
			o.PblkAddr = rapid.Uint32().Draw(g.t, "pblk")
			o.PblkLen = uint8(rapid.SampledFrom([]int{0, 6}).Draw(g.t, "pblklen"))
			o.W = g.width()
			o.Body = g.body(o.Abs, depth+1)
		case "power":
			o.SysLevel = uint8(rapid.IntRange(0, 5).Draw(g.t, "syslevel"))
			o.ResOrder = rapid.Uint16().Draw(g.t, "resorder")
			o.W = g.width()
			o.Body = g.body(o.Abs, depth+1)
		case "mutex":
			o.Flags = uint8(rapid.IntRange(0, 15).Draw(g.t, "sync"))
		case "event":
		case "region":
			o.K = "opregion"
			o.Space = uint8(rapid.IntRange(0, 9).Draw(g.t, "space"))
			o.OffK = rapid.SampledFrom([]string{"zero", "one", "byte", "word", "dword", "qword"}).Draw(g.t, "offk")
			o.LenK = rapid.SampledFrom([]string{"one", "byte", "word", "dword"}).Draw(g.t, "lenk")
			o.Offset = rapid.Uint64().Draw(g.t, "off")
			o.Len = rapid.Uint64().Draw(g.t, "len")
			out = append(out, o)
			// followed by a Field over the region, and sometimes an IndexField over two of its units
			f := amlObj{K: "field", Region: amlSeg(nm), Abs: abs, W: g.width(), Flags: uint8(rapid.IntRange(0, 5).Draw(g.t, "facc")) | uint8(rapid.IntRange(0, 1).Draw(g.t, "flock"))<<4 | uint8(rapid.IntRange(0, 2).Draw(g.t, "fupd"))<<5}
			f.Elems = g.fieldElems()
			out = append(out, f)
			var units []string
			for _, e := range f.Elems {
				if e.K == "named" {
					units = append(units, e.Name)
				}
			}
			if len(units) >= 2 && rapid.Bool().Draw(g.t, "indexfield") {
				x := amlObj{K: "indexfield", Region: amlSeg(units[0]), DataN: amlSeg(units[1]), Abs: abs, W: g.width(), Flags: uint8(rapid.IntRange(0, 5).Draw(g.t, "iacc"))}
				x.Elems = g.fieldElems()
				out = append(out, x)
			}
			continue
		}
		out = append(out, o)
	}
	if depth >= 1 && g.allowForeign && rapid.IntRange(0, 7).Draw(g.t, "foreign") == 0 {
		// an object declared here, inside a container, under an absolute name that places it in
		// the root or in a predefined scope (an absolute name means the same wherever it stands)
		nm := g.name()
		target, segs := "\\", []string{nm}
		if rapid.Bool().Draw(g.t, "foreignpredef") {
			p := rapid.SampledFrom(c11Predefined).Draw(g.t, "foreignscope")
			target, segs = "\\"+p, []string{p, nm}
		}
		out = append(out, amlObj{K: "name", Name: amlName{Root: true, Segs: segs}, Abs: c11JoinPath(target, nm),
			Data: &amlData{K: "word", V: uint64(rapid.IntRange(0, 0xffff).Draw(g.t, "foreignval"))}})
		g.stats.foreign++
	}
	if depth == 0 && !g.noDeepChain && rapid.IntRange(0, 29).Draw(g.t, "deepchain") == 0 {
		// devices nested dozens of levels deep, each level declaring a name before and after
		// the device it contains (what follows a closed block belongs to the enclosing scope)
		levels := rapid.SampledFrom([]int{8, 16, 31, 32, 33, 60, 61, 62, 63, 64, 65, 66, 100}).Draw(g.t, "chainlevels")
		out = append(out, g.chain(abs, levels))
		g.stats.deepChain = levels
	}
	return out
}

func (g *c11Gen) chain(abs string, levels int) amlObj {
	nm := g.name()
	o := amlObj{K: "device", Name: amlSeg(nm), Abs: c11JoinPath(abs, nm)}
	if levels%7 == 3 {
		o.W = 3
	}
	before, after := g.name(), g.name()
	o.Body = append(o.Body, amlObj{K: "name", Name: amlSeg(before), Abs: c11JoinPath(o.Abs, before), Data: &amlData{K: "word", V: uint64(levels)}})
	if levels > 1 {
		o.Body = append(o.Body, g.chain(o.Abs, levels-1))
	}
	o.Body = append(o.Body, amlObj{K: "name", Name: amlSeg(after), Abs: c11JoinPath(o.Abs, after), Data: &amlData{K: "word", V: uint64(levels) + 1000}})
	return o
}

func (g *c11Gen) fieldElems() []amlFieldElem {
	n := rapid.IntRange(0, 5).Draw(g.t, "nelems")
	var out []amlFieldElem
	for i := 0; i < n; i++ {
		switch rapid.IntRange(0, 7).Draw(g.t, "elemk") {
		case 6:
			out = append(out, amlFieldElem{K: "connbuf", Data: rapid.SliceOfN(rapid.Byte(), 0, 30).Draw(g.t, "conndata"), W: g.width()})
		case 7:
			// connection by name: refers to an earlier named field of this list if any
			for _, e := range out {
				if e.K == "named" {
					out = append(out, amlFieldElem{K: "connname", Name: e.Name})
					break
				}
			}
		case 0:
			out = append(out, amlFieldElem{K: "reserved", Bits: uint32(rapid.SampledFrom([]int{1, 7, 8, 63, 64, 0xfff, 0x1000, 0xfffff}).Draw(g.t, "rbits")), W: g.width()})
		case 1:
			out = append(out, amlFieldElem{K: "access", Type: uint8(rapid.IntRange(0, 5).Draw(g.t, "atype")), Attrib: uint8(rapid.SampledFrom([]int{0, 2, 4, 6, 8, 0xa, 0xc, 0xd}).Draw(g.t, "aattr"))})
		default:
			out = append(out, amlFieldElem{K: "named", Name: g.name(), Bits: uint32(rapid.SampledFrom([]int{1, 4, 8, 16, 32, 63, 64, 300, 0x1000}).Draw(g.t, "bits")), W: g.width()})
		}
	}
	return out
}

// ---------------------------------------------------------------------------
// lexical transformations (the namespace, i.e. every Abs, is unchanged)

// pathTo returns name strings that designate the scope abs from a lexical
// position whose scope is root (top level).
func (g *c11Gen) pathTo(abs string, fromTopLevel bool) amlName {
	segs := strings.Split(strings.TrimPrefix(abs, "\\"), ".")
	if abs == "\\" {
		return amlName{Root: true}
	}
	if fromTopLevel && rapid.Bool().Draw(g.t, "relative") {
		return amlName{Segs: segs}
	}
	return amlName{Root: true, Segs: segs}
}

// hoistable reports whether a path expression ending at abs resolves in this
// parser: every segment but the last must be a pure scope (root / predefined).
func c11Hoistable(abs string) bool {
	segs := strings.Split(strings.TrimPrefix(abs, "\\"), ".")
	if abs == "\\" {
		return true
	}
	if len(segs) == 1 {
		return true
	}
	if len(segs) == 2 {
		for _, p := range c11Predefined {
			if segs[0] == p {
				return true
			}
		}
	}
	return false
}

// transform rewrites the top-level list: children of hoistable containers are
// moved into Scope directives or declared with path-prefixed names.
func (g *c11Gen) transform(top []amlObj) []amlObj {
	var out []amlObj
	for _, o := range top {
		out = append(out, g.transformObj(o, &out, true)...)
	}
	return out
}

func (g *c11Gen) transformObj(o amlObj, topOut *[]amlObj, atTop bool) []amlObj {
	isContainer := o.K == "device" || o.K == "thermal" || o.K == "processor" || o.K == "power" || o.K == "scope"
	if !isContainer {
		return []amlObj{o}
	}
	scopeAbs := o.Abs
	var keep, after []amlObj
	for _, ch := range o.Body {
		movable := !ch.pin && ch.K != "field" && ch.K != "indexfield" && ch.K != "opregion" && ch.K != "scope" && ch.Name.Carets == 0 && c11ScopeOfAbs(ch.Abs) == scopeAbs
		choice := rapid.IntRange(0, 9).Draw(g.t, "lexform")
		switch {
		case movable && choice == 0 && c11Hoistable(scopeAbs):
			// Scope(<path>) { ch } placed after the container (at the top level)
			g.stats.scopeDirectives++
			sc := amlObj{K: "scope", Abs: scopeAbs, W: g.width(), Name: g.pathTo(scopeAbs, atTop)}
			sc.Body = g.transformObj(ch, topOut, false)
			after = append(after, sc)
		case movable && choice == 1 && c11Hoistable(scopeAbs) && scopeAbs != "\\":
			// ch declared at the top level with a path-prefixed name
			g.stats.relocated++
			p := g.pathTo(scopeAbs, atTop)
			moved := ch
			moved.Name = amlName{Root: p.Root, Segs: append(append([]string{}, p.Segs...), ch.Name.last())}
			// a moved container may leave part of its contents behind, declared later through
			// Scope(<container>) { Scope(<moved>) { ... } } (needs an extra merge/relocate round)
			var leftover []amlObj
			mvContainer := moved.K == "device" || moved.K == "thermal" || moved.K == "processor" || moved.K == "power"
			if mvContainer && len(moved.Body) > 0 && rapid.Bool().Draw(g.t, "leavebehind") {
				k := rapid.IntRange(1, len(moved.Body)).Draw(g.t, "leftn")
				rest := append([]amlObj{}, moved.Body[len(moved.Body)-k:]...)
				ok := true
				for _, m := range rest {
					if m.K == "field" || m.K == "indexfield" || m.K == "opregion" {
						ok = false
					}
				}
				if ok {
					moved.Body = moved.Body[:len(moved.Body)-k]
					leftover = rest
				}
			}
			var inside []amlObj // Scope(<moved>) { Scope(<child>) { ... } }: part of a child container's contents, declared later
			if g.allowHomonyms && mvContainer && c11Hoistable(moved.Abs) && rapid.IntRange(0, 2).Draw(g.t, "childleft") == 0 {
				for ci := range moved.Body {
					c := &moved.Body[ci]
					if !(c.K == "device" || c.K == "thermal" || c.K == "processor" || c.K == "power") || len(c.Body) == 0 || c.Name.Carets != 0 || len(c.Name.Segs) != 1 {
						continue
					}
					ok := true
					for _, m := range c.Body {
						if m.K == "field" || m.K == "indexfield" || m.K == "opregion" || m.K == "scope" {
							ok = false
						}
					}
					if !ok {
						continue
					}
					k := rapid.IntRange(1, len(c.Body)).Draw(g.t, "childleftn")
					rest := append([]amlObj{}, c.Body[len(c.Body)-k:]...)
					c.Body = c.Body[:len(c.Body)-k]
					c.pin = true // the child is declared inside the moved container itself
					g.stats.scopeDirectives += 2
					if rapid.Bool().Draw(g.t, "childhomonym") {
						// an unrelated, empty device named like the child, in the block the
						// directives are written in
						level := c11ScopeOfAbs(scopeAbs)
						inside = append(inside, amlObj{K: "device", Name: amlSeg(c.Name.last()), Abs: c11JoinPath(level, c.Name.last())})
						g.stats.homonyms++
					}
					in := amlObj{K: "scope", Abs: c.Abs, W: g.width(), Name: amlSeg(c.Name.last()), Body: rest}
					inside = append(inside, amlObj{K: "scope", Abs: moved.Abs, W: g.width(), Name: g.pathTo(moved.Abs, atTop), Body: []amlObj{in}})
					break
				}
			}
			decl := g.transformObj(moved, topOut, false)
			// an absolute name resolves from anywhere: sometimes declare the object inside
			// an unrelated predefined scope block (the parser then meets it in a different order)
			if moved.Name.Root && rapid.IntRange(0, 2).Draw(g.t, "elsewhere") == 0 {
				pre := rapid.SampledFrom(c11Predefined).Draw(g.t, "elsewherescope")
				g.stats.scopeDirectives++
				decl = []amlObj{{K: "scope", Abs: "\\" + pre, W: g.width(), Name: amlName{Root: true, Segs: []string{pre}}, Body: decl}}
			}
			after = append(after, decl...)
			after = append(after, inside...)
			if leftover != nil {
				g.stats.scopeDirectives += 2
				if g.allowHomonymOfRelocated && rapid.Bool().Draw(g.t, "homonym") {
					// an unrelated, empty device of the same name in the block the directives are
					// written in: the inner directive below names the moved container relative to
					// the OUTER directive's target, not this one
					level := c11ScopeOfAbs(scopeAbs)
					after = append(after, amlObj{K: "device", Name: amlSeg(ch.Name.last()), Abs: c11JoinPath(level, ch.Name.last())})
					g.stats.homonyms++
				}
				inner := amlObj{K: "scope", Abs: moved.Abs, W: g.width(), Name: amlSeg(ch.Name.last()), Body: leftover}
				after = append(after, amlObj{K: "scope", Abs: scopeAbs, W: g.width(), Name: g.pathTo(scopeAbs, atTop), Body: []amlObj{inner}})
			}
		case movable && choice == 2 && !atTop && o.K != "scope":
			// Scope(<single segment>) { ch } nested in the container's parent block is
			// expressed by the caller; here: a nested directive inside the container
			// itself that targets a sibling container (single segment, upward search)
			keep = append(keep, g.transformObj(ch, topOut, false)...)
		default:
			if movable && choice <= 1 && !c11Hoistable(scopeAbs) {
				vlib.For("C11").Exclude("F-C11a path through a Device-like scope would be needed; object kept lexically nested")
			}
			keep = append(keep, g.transformObj(ch, topOut, false)...)
		}
	}
	// single-segment Scope directives inside a container: move the contents of a
	// child container behind a Scope(CHLD) directive placed after the child
	var final []amlObj
	for _, ch := range keep {
		chContainer := ch.K == "device" || ch.K == "thermal" || ch.K == "processor" || ch.K == "power"
		if chContainer && len(ch.Body) > 0 && rapid.IntRange(0, 5).Draw(g.t, "nestedscope") == 0 {
			k := rapid.IntRange(1, len(ch.Body)).Draw(g.t, "nsplit")
			moved := append([]amlObj{}, ch.Body[len(ch.Body)-k:]...)
			ok := true
			for _, m := range moved {
				if m.K == "field" || m.K == "indexfield" || m.K == "opregion" {
					ok = false
				}
			}
			if ok {
				g.stats.scopeDirectives++
				ch.Body = ch.Body[:len(ch.Body)-k]
				final = append(final, ch)
				final = append(final, amlObj{K: "scope", Abs: ch.Abs, W: g.width(), Name: amlSeg(ch.Name.last()), Body: moved})
				continue
			}
		}
		final = append(final, ch)
	}
	o.Body = final
	return append([]amlObj{o}, after...)
}

// ---------------------------------------------------------------------------
// method bodies

type c11Sym struct {
	name, scope string // scope = absolute path of the declaring scope
	argc        int
	table       int
	method      bool
}

func c11ScopeOfAbs(abs string) string {
	i := strings.LastIndex(abs, ".")
	if i < 0 {
		return "\\"
	}
	return abs[:i]
}

func c11Visible(symScope, fromScope string) bool {
	return symScope == fromScope || symScope == "\\" || strings.HasPrefix(fromScope, symScope+".")
}

func c11CollectSyms(objs []amlObj, table int, out *[]c11Sym) {
	for i := range objs {
		o := &objs[i]
		switch o.K {
		case "scope":
		case "field", "indexfield":
			for _, e := range o.Elems {
				if e.K == "named" {
					*out = append(*out, c11Sym{name: e.Name, scope: o.Abs, table: table})
				}
			}
		case "method":
			*out = append(*out, c11Sym{name: o.Name.last(), scope: c11ScopeOfAbs(o.Abs), argc: o.Argc, table: table, method: true})
		default:
			*out = append(*out, c11Sym{name: o.Name.last(), scope: c11ScopeOfAbs(o.Abs), table: table})
		}
		c11CollectSyms(o.Body, table, out)
	}
}

// refElems replaces some scalar elements of a package by references to named
// objects (never methods: a method name inside a package is ambiguous in AML)
// that ACPI's search rules find from the package's scope.
func (g *c11Gen) refElems(d *amlData, datas []c11Sym) {
	if d == nil || d.K != "package" || len(datas) == 0 {
		return
	}
	for i := range d.Elems {
		e := &d.Elems[i]
		if e.K == "package" {
			g.refElems(e, datas)
			continue
		}
		if e.K == "buffer" || rapid.IntRange(0, 3).Draw(g.t, "pkgref") != 0 {
			continue
		}
		g.stats.pkgRefs++
		*e = amlData{K: "nameref", S: []byte(datas[rapid.IntRange(0, len(datas)-1).Draw(g.t, "pkgrefto")].name)}
	}
}

func (g *c11Gen) visibleData(scope string, table int, syms []c11Sym) []c11Sym {
	var datas []c11Sym
	for _, s := range syms {
		if s.table <= table && !s.method && c11Visible(s.scope, scope) {
			datas = append(datas, s)
		}
	}
	return datas
}

func (g *c11Gen) fillBodies(objs []amlObj, table int, syms []c11Sym) {
	for i := range objs {
		o := &objs[i]
		if o.K == "name" && o.Data != nil && o.Data.K == "package" {
			g.refElems(o.Data, g.visibleData(c11ScopeOfAbs(o.Abs), table, syms))
		}
		if o.K == "method" {
			scope := c11ScopeOfAbs(o.Abs)
			var methods, datas []c11Sym
			for _, s := range syms {
				if s.table > table || !c11Visible(s.scope, scope) {
					continue
				}
				if s.method {
					methods = append(methods, s)
				} else {
					datas = append(datas, s)
				}
			}
			// of several visible methods with one name the innermost is the one a simple name finds
			nearest := map[string]int{}
			for i, ms := range methods {
				if j, ok := nearest[ms.name]; !ok || len(ms.scope) > len(methods[j].scope) {
					nearest[ms.name] = i
				}
			}
			var uniq []c11Sym
			for i, ms := range methods {
				if nearest[ms.name] == i {
					uniq = append(uniq, ms)
				}
			}
			methods = uniq
			o.Stmts = g.stmts(o, methods, datas, 0, false)
		}
		g.fillBodies(o.Body, table, syms)
	}
}

func (g *c11Gen) stmts(m *amlObj, methods, datas []c11Sym, depth int, inDeferred bool) []amlStmt {
	n := rapid.IntRange(0, 4).Draw(g.t, "nstmts")
	var out []amlStmt
	for i := 0; i < n; i++ {
		k := rapid.SampledFrom([]string{"store", "store", "expr", "expr", "return", "inc", "if", "while", "binop", "misc", "misc", "decl", "decl"}).Draw(g.t, "stmtk")
		if depth >= 2 && (k == "if" || k == "while") {
			k = "store"
		}
		s := amlStmt{K: k}
		switch k {
		case "store":
			s.E = g.expr(m, methods, datas, 0)
			s.T = g.target(false)
		case "expr":
			if len(methods) == 0 {
				s.K = "inc"
				s.T = g.target(false)
				break
			}
			e := g.call(m, methods, datas, 0)
			s.E = &e
		case "binop":
			s.K = "expr"
			e := g.binop(m, methods, datas, 1)
			s.E = &e
		case "return":
			s.E = g.expr(m, methods, datas, 0)
		case "inc":
			s.T = g.target(false)
		case "decl":
			// a named object created by the method: it lives in the method's scope
			g.stats.methodDecls++
			nm := g.name()
			o := amlObj{K: rapid.SampledFrom([]string{"name", "name", "name", "mutex", "event", "opregion"}).Draw(g.t, "declk"), Name: amlSeg(nm), Abs: c11JoinPath(m.Abs, nm)}
			switch o.K {
			case "name":
				compound := rapid.IntRange(0, 2).Draw(g.t, "compound") == 0
				if compound && inDeferred && !g.allowTermsAfterBlock {
					// buffers and packages carry a package length: same class as F-C11e
					vlib.For("C11").Exclude("F-C11e Buffer/Package data inside a While body replaced by a scalar")
					compound = false
				}
				if compound {
					o.Data = g.data(1) // may be a buffer or a package
				} else {
					o.Data = g.scalar()
				}
			case "mutex":
				o.Flags = uint8(rapid.IntRange(0, 15).Draw(g.t, "sync"))
			case "opregion":
				o.Space = uint8(rapid.IntRange(0, 9).Draw(g.t, "space"))
				o.OffK = rapid.SampledFrom([]string{"zero", "one", "byte", "word", "dword", "qword"}).Draw(g.t, "offk")
				o.LenK = rapid.SampledFrom([]string{"one", "byte", "word", "dword"}).Draw(g.t, "lenk")
				o.Offset = rapid.Uint64().Draw(g.t, "off")
				o.Len = rapid.Uint64().Draw(g.t, "len")
			}
			s.Obj = &o
			withField := o.K == "opregion" && rapid.Bool().Draw(g.t, "declfield")
			if withField && inDeferred && !g.allowTermsAfterBlock {
				// a Field carries a package length like If/While: same class as F-C11e
				vlib.For("C11").Exclude("F-C11e Field inside a While body left out")
				withField = false
			}
			if withField {
				out = append(out, s)
				f := amlObj{K: "field", Region: amlSeg(nm), Abs: m.Abs, W: g.width(), Flags: uint8(rapid.IntRange(0, 5).Draw(g.t, "facc")) | uint8(rapid.IntRange(0, 1).Draw(g.t, "flock"))<<4 | uint8(rapid.IntRange(0, 2).Draw(g.t, "fupd"))<<5}
				f.Elems = g.fieldElems()
				s = amlStmt{K: "decl", Obj: &f}
			}
		case "misc":
			g.stats.miscStmts++
			mk := rapid.SampledFrom([]string{"noop", "breakpoint", "sleep", "stall", "decrement", "notify", "acquire", "release", "reset", "signal", "wait", "break", "continue"}).Draw(g.t, "misck")
			super := func() *amlExpr { // a SuperName: local, or a visible named object
				if len(datas) > 0 && rapid.Bool().Draw(g.t, "supername") {
					return &amlExpr{K: "ref", Name: datas[rapid.IntRange(0, len(datas)-1).Draw(g.t, "supern")].name}
				}
				return g.target(false)
			}
			switch mk {
			case "noop", "breakpoint":
				s.K = mk
			case "break", "continue":
				if inDeferred {
					s.K = mk
				} else {
					s.K = "noop"
				}
			case "sleep", "stall":
				s.K, s.Op, s.E = "term1", mk, g.expr(m, methods, datas, 1)
			case "decrement", "release", "reset", "signal":
				s.K, s.Op, s.E = "term1", mk, super()
			case "notify", "wait":
				s.K, s.T, s.E = mk, super(), g.expr(m, methods, datas, 1)
			case "acquire":
				s.K, s.T, s.V = mk, super(), rapid.Uint16().Draw(g.t, "timeout")
			}
		case "if":
			c := g.cmp(m, methods, datas)
			s.E = &c
			s.W = g.width()
			s.Body = g.stmts(m, methods, datas, depth+1, inDeferred)
			real := 0
			for _, b := range s.Body {
				if b.K != "noop" { // the parser drops Noop, so a body of Noops is an empty body
					real++
				}
			}
			if real == 0 && !g.allowEmptyIf {
				vlib.For("C11").Exclude("F-C11c If with an empty body given one statement")
				s.Body = append(s.Body, amlStmt{K: "inc", T: g.target(false)})
			}
			if rapid.Bool().Draw(g.t, "else") {
				s.Has = true
				s.W2 = g.width()
				s.Else = g.stmts(m, methods, datas, depth+1, inDeferred)
			}
		case "while":
			g.stats.deferred++
			c := g.cmp(m, methods, datas)
			s.E = &c
			s.W = g.width()
			s.Body = g.stmts(m, methods, datas, depth+1, true)
		}
		out = append(out, s)
	}
	if inDeferred && !g.allowTermsAfterBlock {
		// F-C11e: inside a deferred block the parser drops whatever follows a nested
		// package-bearing term (including the Else of an If): keep such terms last
		for i := range out {
			blk := out[i].K == "if" || out[i].K == "while"
			if blk && i != len(out)-1 {
				vlib.For("C11").Exclude("F-C11e If/While followed by further terms inside a While body replaced")
				out[i] = amlStmt{K: "inc", T: g.target(false)}
			} else if blk && out[i].Has {
				vlib.For("C11").Exclude("F-C11e Else inside a While body dropped")
				out[i].Has, out[i].Else = false, nil
			}
		}
	}
	return out
}

func (g *c11Gen) target(allowNull bool) *amlExpr {
	if allowNull && rapid.Bool().Draw(g.t, "nulltarget") {
		return nil
	}
	return &amlExpr{K: "local", N: rapid.IntRange(0, 7).Draw(g.t, "local")}
}

func (g *c11Gen) cmp(m *amlObj, methods, datas []c11Sym) amlExpr {
	op := rapid.SampledFrom([]string{"lequal", "lgreater", "lless", "land", "lor"}).Draw(g.t, "cmpop")
	return amlExpr{K: "cmp", Op: op, Args: []amlExpr{*g.expr(m, methods, datas, 1), *g.expr(m, methods, datas, 1)}}
}

func (g *c11Gen) binop(m *amlObj, methods, datas []c11Sym, depth int) amlExpr {
	op := rapid.SampledFrom([]string{"add", "subtract", "multiply", "and", "or", "xor", "shiftleft", "mod"}).Draw(g.t, "binop")
	return amlExpr{K: "binop", Op: op, Args: []amlExpr{*g.expr(m, methods, datas, depth+1), *g.expr(m, methods, datas, depth+1)}, Target: g.target(true)}
}

func (g *c11Gen) call(m *amlObj, methods, datas []c11Sym, depth int) amlExpr {
	callee := methods[rapid.IntRange(0, len(methods)-1).Draw(g.t, "callee")]
	e := amlExpr{K: "call", Name: callee.name}
	if callee.argc > 0 {
		g.stats.callsWithArgs++
	}
	if depth > 0 {
		g.stats.nestedCalls++
	}
	for i := 0; i < callee.argc; i++ {
		e.Args = append(e.Args, *g.argExpr(m, methods, datas, depth+1))
	}
	return e
}

// argExpr generates an argument of a method invocation.
func (g *c11Gen) argExpr(m *amlObj, methods, datas []c11Sym, depth int) *amlExpr {
	e := g.expr(m, methods, datas, depth)
	if (e.K == "binop" || e.K == "unop" || e.K == "term1" || e.K == "index" || e.K == "divide" || e.K == "lnot" || e.K == "cmp") && !g.allowOperatorCallArgs {
		vlib.For("C11").Exclude("F-C11b operator expression as invocation argument replaced by a constant")
		return &amlExpr{K: "data", Data: &amlData{K: "byte", V: 0x5a}}
	}
	return e
}

func (g *c11Gen) expr(m *amlObj, methods, datas []c11Sym, depth int) *amlExpr {
	kinds := []string{"const", "const", "local", "arg", "ref", "call", "call", "binop", "other"}
	k := rapid.SampledFrom(kinds).Draw(g.t, "exprk")
	if depth >= 2 && (k == "call" || k == "binop") {
		k = "const"
	}
	switch k {
	case "local":
		return &amlExpr{K: "local", N: rapid.IntRange(0, 7).Draw(g.t, "localn")}
	case "arg":
		if m.Argc > 0 {
			return &amlExpr{K: "arg", N: rapid.IntRange(0, m.Argc-1).Draw(g.t, "argn")}
		}
	case "ref":
		if len(datas) > 0 {
			return &amlExpr{K: "ref", Name: datas[rapid.IntRange(0, len(datas)-1).Draw(g.t, "refn")].name}
		}
	case "call":
		if len(methods) > 0 {
			e := g.call(m, methods, datas, depth)
			return &e
		}
	case "binop":
		e := g.binop(m, methods, datas, depth)
		return &e
	case "other":
		g.stats.miscExprs++
		switch ok := rapid.SampledFrom([]string{"unop", "term1", "index", "divide", "const0", "lnot"}).Draw(g.t, "otherk"); ok {
		case "unop":
			op := rapid.SampledFrom([]string{"not", "findsetleftbit", "findsetrightbit", "tointeger", "tohexstring", "todecimalstring", "tobuffer", "frombcd", "tobcd"}).Draw(g.t, "unop")
			return &amlExpr{K: "unop", Op: op, Args: []amlExpr{*g.expr(m, methods, datas, depth+1)}, Target: g.target(true)}
		case "term1":
			op := rapid.SampledFrom([]string{"derefof", "sizeof", "objecttype", "refof"}).Draw(g.t, "term1op")
			if op == "derefof" {
				return &amlExpr{K: "term1", Op: op, Args: []amlExpr{*g.expr(m, methods, datas, depth+1)}}
			}
			return &amlExpr{K: "term1", Op: op, Args: []amlExpr{*g.target(false)}}
		case "index":
			return &amlExpr{K: "index", Args: []amlExpr{*g.expr(m, methods, datas, depth+1), *g.expr(m, methods, datas, depth+1)}, Target: g.target(true)}
		case "divide":
			return &amlExpr{K: "divide", Args: []amlExpr{*g.expr(m, methods, datas, depth+1), *g.expr(m, methods, datas, depth+1)}, Target: g.target(true)}
		case "const0":
			return &amlExpr{K: "const0", Op: rapid.SampledFrom([]string{"revision", "timer"}).Draw(g.t, "const0")}
		default:
			return &amlExpr{K: "lnot", Args: []amlExpr{*g.expr(m, methods, datas, depth+1)}}
		}
	}
	d := g.data(2)
	for d.K == "buffer" || d.K == "package" {
		d = g.data(2)
	}
	return &amlExpr{K: "data", Data: d}
}

// ---------------------------------------------------------------------------

func (g *c11Gen) program() c11Case {
	g.used = map[string]bool{}
	for _, p := range c11Predefined {
		g.used[p] = true
	}
	// namespace: objects in root and in predefined scopes
	top := g.body("\\", 0)
	npre := rapid.IntRange(0, 3).Draw(g.t, "npredef")
	for i := 0; i < npre; i++ {
		p := rapid.SampledFrom(c11Predefined).Draw(g.t, "predef")
		abs := "\\" + p
		g.stats.scopeDirectives++
		sc := amlObj{K: "scope", Abs: abs, W: g.width(), Name: g.pathTo(abs, true), Body: g.body(abs, 1)}
		// caret names: an object of the ROOT declared inside this pure scope as ^NAME
		if rapid.IntRange(0, 2).Draw(g.t, "caret") == 0 {
			g.stats.relocated++
			extra := g.body("\\", 2)
			for _, x := range extra {
				if x.K == "field" || x.K == "indexfield" || x.K == "opregion" {
					continue
				}
				if x.Name.Root {
					sc.Body = append(sc.Body, x) // already carries an absolute name
					continue
				}
				x.Name = amlName{Carets: 1, Segs: []string{x.Name.last()}}
				sc.Body = append(sc.Body, x)
			}
		}
		pos := rapid.IntRange(0, len(top)).Draw(g.t, "predefpos")
		top = append(top[:pos], append([]amlObj{sc}, top[pos:]...)...)
	}
	top = g.transform(top)

	// Scope(\) { ... }: runs of top-level terms wrapped in a directive that names
	// the root itself (a name string that consists of its prefix only)
	if g.allowRootScope {
		var wrapped []amlObj
		for i := 0; i < len(top); {
			if rapid.IntRange(0, 7).Draw(g.t, "rootscope") != 0 {
				wrapped = append(wrapped, top[i])
				i++
				continue
			}
			n := rapid.IntRange(1, 3).Draw(g.t, "rootscopelen")
			if n > len(top)-i {
				n = len(top) - i
			}
			if !g.allowSplitIndexField {
				// F-C11f: field units merged into the root later would follow an
				// IndexField over them that sits in the root directly
				for k := 0; k < n; k++ {
					if top[i+k].K == "field" {
						vlib.For("C11").Exclude("F-C11f Field kept out of a Scope(\\) directive")
						n = k
						break
					}
				}
				if n == 0 {
					wrapped = append(wrapped, top[i])
					i++
					continue
				}
			}
			g.stats.scopeDirectives++
			g.stats.rootScopes++
			wrapped = append(wrapped, amlObj{K: "scope", Abs: "\\", W: g.width(), Name: amlName{Root: true}, Body: append([]amlObj{}, top[i:i+n]...)})
			i += n
		}
		top = wrapped
	}

	// split into tables
	nt := rapid.IntRange(1, 3).Draw(g.t, "ntables")
	var c c11Case
	cuts := []int{0}
	for i := 1; i < nt; i++ {
		cuts = append(cuts, rapid.IntRange(cuts[len(cuts)-1], len(top)).Draw(g.t, "cut"))
	}
	cuts = append(cuts, len(top))
	for i := 0; i+1 < len(cuts); i++ {
		c.Tables = append(c.Tables, append([]amlObj{}, top[cuts[i]:cuts[i+1]]...))
	}
	g.stats.tables = len(c.Tables)

	var syms []c11Sym
	for ti := range c.Tables {
		c11CollectSyms(c.Tables[ti], ti, &syms)
	}
	// objects that share their name with an unrelated object (the decoys of nested Scope
	// directives) are not referenced from method bodies or packages: the expected binding of
	// references is looked up by name
	count := map[string]int{}
	for _, sy := range syms {
		if !sy.method {
			count[sy.name]++
		}
	}
	unique := syms[:0:0]
	for _, sy := range syms {
		if sy.method || count[sy.name] == 1 {
			unique = append(unique, sy)
		}
	}
	syms = unique
	for ti := range c.Tables {
		g.fillBodies(c.Tables[ti], ti, syms)
	}
	return c
}

func TestVerifC11(t *testing.T) {
	st := vlib.For("C11")
	defer vlib.Flush()
	rapid.Check(t, func(t *rapid.T) {
		g := &c11Gen{t: t,
			allowOperatorCallArgs: !vlib.OpenFinding("F-C11b"),
			allowEmptyIf:          !vlib.OpenFinding("F-C11c"),
			allowTermsAfterBlock:  !vlib.OpenFinding("F-C11e"),
			allowRootScope:        true,
			allowShadowing:        true,
			allowHomonyms:         true,
			allowForeign:          true,
			allowHomonymOfRelocated: !vlib.OpenFinding("F-C11g"),
			allowSplitIndexField:  !vlib.OpenFinding("F-C11f"),
		}
		c := g.program()
		c.OneParser = rapid.Bool().Draw(t, "oneparser")
		c.Poison = c.OneParser && rapid.IntRange(0, 3).Draw(t, "poison") == 0
		fail, _ := c11Run(c)
		var labels []string
		add := func(on bool, l string) {
			if on {
				labels = append(labels, l)
			}
		}
		add(g.stats.scopeDirectives > 0, "scope-directive")
		add(g.stats.relocated > 0, "path-or-caret-prefixed-name")
		add(g.stats.callsWithArgs > 0, "invocation-with-arguments")
		add(g.stats.nestedCalls > 0, "nested-invocation")
		add(g.stats.tables > 1, "multi-table")
		add(g.stats.nonMinimalPkg > 0, "non-minimal-pkglength")
		add(g.stats.deferred > 0, "deferred-block")
		add(g.stats.miscStmts > 0, "misc-statement(noop/sleep/notify/acquire/...)")
		add(g.stats.miscExprs > 0, "misc-operator(unary/index/divide/sizeof/...)")
		add(g.stats.hugePkg > 0, "package-longer-than-1MiB")
		add(g.stats.methodDecls > 0, "object-declared-in-method-body")
		add(g.stats.rootScopes > 0, "scope-directive-naming-the-root")
		add(g.stats.pkgRefs > 0, "package-element-naming-an-object")
		add(g.stats.shadowed > 0, "method-shadowing-a-method-of-an-enclosing-scope")
		add(g.stats.homonyms > 0, "homonym-of-a-nested-scope-directive's-target")
		add(c.Poison, "loaded-by-a-parser-that-rejected-a-table-before")
		add(g.stats.foreign > 0, "absolute-named-object-declared-inside-a-container")
		add(g.stats.deepChain > 0, "devices-nested-8-or-more-deep")
		add(g.stats.deepChain >= 62, "devices-nested-62-or-more-deep")
		labels = append(labels, fmt.Sprintf("tables=%d", g.stats.tables))
		st.Case(c, (g.stats.scopeDirectives > 0 || g.stats.relocated > 0) && g.stats.callsWithArgs > 0, labels...)
		if fail != nil && strings.HasPrefix(fail.Msg, "VERIF-HARNESS") {
			t.Fatalf("%s", fail.Msg)
		}
		vlib.Report(t, "C11", c, fail)
	})
}
