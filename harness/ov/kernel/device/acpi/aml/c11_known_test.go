//go:build verif && go1.21

package aml

import (
	"encoding/json"
	"os"
	"path/filepath"
	"testing"
)

// c11KnownCases are minimal programs for the recorded C11 findings. They are
// written to /verif/replays/known/C11 by TestVerifC11WriteKnown (maintenance
// helper, run with VERIF_WRITE_KNOWN=<dir>) and replayed by the driver on
// every run.
func c11KnownCases() map[string]c11Case {
	lit := func(v uint64) amlExpr { return amlExpr{K: "data", Data: &amlData{K: "byte", V: v}} }
	z := amlExpr{K: "data", Data: &amlData{K: "zero"}}
	loc := func(n int) *amlExpr { return &amlExpr{K: "local", N: n} }
	ret0 := []amlStmt{{K: "return", E: &amlExpr{K: "arg", N: 0}}}
	return map[string]c11Case{
		// a Scope directive whose path continues THROUGH a Device: rejected
		"F-C11a-path-through-device": {Tables: [][]amlObj{{
			{K: "scope", Name: amlName{Root: true, Segs: []string{"_SB_"}}, Abs: "\\_SB_", Body: []amlObj{
				{K: "device", Name: amlSeg("DEV0"), Abs: "\\_SB_.DEV0", Body: []amlObj{
					{K: "device", Name: amlSeg("SUB0"), Abs: "\\_SB_.DEV0.SUB0"},
				}},
			}},
			{K: "scope", Name: amlName{Root: true, Segs: []string{"_SB_", "DEV0", "SUB0"}}, Abs: "\\_SB_.DEV0.SUB0", Body: []amlObj{
				{K: "name", Name: amlSeg("NAM0"), Abs: "\\_SB_.DEV0.SUB0.NAM0", Data: &amlData{K: "one"}},
			}},
		}}},
		// a '^'-prefixed name inside a Device block must land in the Device's parent scope
		"F-C11a-caret-from-device": {Tables: [][]amlObj{{
			{K: "device", Name: amlSeg("DEV0"), Abs: "\\DEV0", Body: []amlObj{
				{K: "name", Name: amlName{Carets: 1, Segs: []string{"NAM0"}}, Abs: "\\NAM0", Data: &amlData{K: "one"}},
			}},
		}}},
		// an operator expression as invocation argument: the call ends up with too few arguments
		"F-C11b-operator-argument": {Tables: [][]amlObj{{
			{K: "method", Name: amlSeg("MTH0"), Abs: "\\MTH0", Argc: 0, Stmts: []amlStmt{
				{K: "expr", E: &amlExpr{K: "call", Name: "MTH1", Args: []amlExpr{{K: "binop", Op: "add", Args: []amlExpr{lit(1), lit(2)}}, lit(3)}}},
			}},
			{K: "method", Name: amlSeg("MTH1"), Abs: "\\MTH1", Argc: 2, Stmts: ret0},
		}}},
		// If with an empty body as the last term of its block: rejected
		"F-C11c-empty-if": {Tables: [][]amlObj{{
			{K: "method", Name: amlSeg("MTH0"), Abs: "\\MTH0", Argc: 0, Stmts: []amlStmt{
				{K: "if", E: &amlExpr{K: "cmp", Op: "lequal", Args: []amlExpr{z, z}}},
			}},
		}}},
		// inside a While body everything after a nested If is dropped
		"F-C11e-terms-after-if-in-while": {Tables: [][]amlObj{{
			{K: "method", Name: amlSeg("MTH0"), Abs: "\\MTH0", Argc: 0, Stmts: []amlStmt{
				{K: "while", E: &amlExpr{K: "cmp", Op: "lless", Args: []amlExpr{{K: "local", N: 0}, lit(9)}}, Body: []amlStmt{
					{K: "if", E: &amlExpr{K: "cmp", Op: "lequal", Args: []amlExpr{z, z}}, Body: []amlStmt{{K: "inc", T: loc(0)}}},
					{K: "expr", E: &amlExpr{K: "call", Name: "MTH1", Args: []amlExpr{lit(7)}}},
				}},
			}},
			{K: "method", Name: amlSeg("MTH1"), Abs: "\\MTH1", Argc: 1, Stmts: ret0},
		}}},
		// an IndexField object is registered under the name of its index register:
		// when it precedes the field unit of that name in the scope's list (here the
		// unit arrives later, through a Scope(\) merge) references bind to the
		// IndexField object instead of the unit
		"F-C11f-indexfield-shadows-unit": {Tables: [][]amlObj{{
			{K: "scope", Name: amlName{Root: true}, Abs: "\\", Body: []amlObj{
				{K: "opregion", Name: amlSeg("REG0"), Abs: "\\REG0", OffK: "zero", LenK: "byte", Len: 16},
				{K: "field", Region: amlSeg("REG0"), Abs: "\\", Elems: []amlFieldElem{{K: "named", Name: "IDX0", Bits: 8}, {K: "named", Name: "DAT0", Bits: 8}}},
			}},
			{K: "indexfield", Region: amlSeg("IDX0"), DataN: amlSeg("DAT0"), Abs: "\\", Elems: []amlFieldElem{{K: "named", Name: "UNT0", Bits: 8}}},
			{K: "method", Name: amlSeg("MTH0"), Abs: "\\MTH0", Argc: 0, Stmts: []amlStmt{
				{K: "store", E: &amlExpr{K: "ref", Name: "IDX0"}, T: loc(0)},
				{K: "expr", E: &amlExpr{K: "call", Name: "MTH1", Args: []amlExpr{{K: "ref", Name: "IDX0"}}}},
			}},
			{K: "method", Name: amlSeg("MTH1"), Abs: "\\MTH1", Argc: 1, Stmts: ret0},
		}}},
	}
}

func TestVerifC11WriteKnown(t *testing.T) {
	dir := os.Getenv("VERIF_WRITE_KNOWN")
	if dir == "" {
		t.Skip("maintenance helper; set VERIF_WRITE_KNOWN=<dir>")
	}
	for name, c := range c11KnownCases() {
		b, _ := json.Marshal(c)
		if err := os.WriteFile(filepath.Join(dir, name+".json"), append(b, '\n'), 0o644); err != nil {
			t.Fatal(err)
		}
		fail, _ := c11Run(c)
		t.Logf("%s: %v", name, fail)
	}
}
