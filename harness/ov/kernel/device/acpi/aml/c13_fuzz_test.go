//go:build verif && go1.21

package aml

// C13 — native fuzz target for path lookup: bytes -> scope selector + raw
// expression on a fixed medium-sized tree. Oracle: no crash; the result agrees
// with the reference resolver when the expression is well-formed under the
// harness grammar, and is a live object or not-found otherwise.

import (
	"fmt"
	"os"
	"path/filepath"
	"strconv"
	"sync"
	"testing"

	"verifharness/vlib"
)

var (
	c13FuzzOnce sync.Once
	c13FuzzBase *c13Runner
)

// c13FuzzCase is the fixed history that builds the fuzz tree: ~45 nodes in a
// bushy part with colliding names, unnamed and non-named kinds, a few freed
// and reused slots, two detached subtrees, and a 96-deep chain.
func c13FuzzCase() c13Case {
	var ops []c13Op
	for i := 0; i < 40; i++ {
		ops = append(ops, c13Op{K: "add", A: (i * 7) % (i + 1), N: (i * 3) % 5, Op: i % len(c13Kinds)})
	}
	ops = append(ops,
		c13Op{K: "free", A: 3}, c13Op{K: "free", A: 9}, c13Op{K: "free", A: 14},
		c13Op{K: "obj", N: 2, Op: 1}, c13Op{K: "append", A: 0, B: 4},
		c13Op{K: "named", N: 0, Op: 0}, c13Op{K: "after", A: 0, B: 6},
		c13Op{K: "named", N: 1, Op: 3}, c13Op{K: "named", N: 4, Op: 1}, c13Op{K: "append", A: 1, B: 40},
		c13Op{K: "detach", A: 11},
		c13Op{K: "chain", A: 5, B: 96, N: 0, C: 1},
	)
	return c13Case{Ops: ops}
}

func c13FuzzTree() *c13Runner {
	c13FuzzOnce.Do(func() {
		res := &c13Res{cnt: map[string]int{}, excl: map[string]int{}}
		rn := &c13Runner{tree: NewObjectTree(), res: res}
		if _, f := rn.create("setup (root)", pOpIntScopeBlock, 0, 0, true); f != nil {
			panic("VERIF-HARNESS C13 fuzz tree: " + f.Msg)
		}
		rn.tree.ObjectAt(0).name = [amlNameLen]byte{'\\'}
		rn.m.nodes[0].name = [amlNameLen]byte{'\\'}
		for i, op := range c13FuzzCase().Ops {
			if f := rn.step(fmt.Sprintf("fuzz tree op %d", i), i, op); f != nil {
				panic("VERIF-HARNESS C13 fuzz tree: " + f.Msg)
			}
		}
		c13FuzzBase = rn
	})
	return c13FuzzBase
}

// c13FuzzSeeds returns seed inputs (scope selector byte + expression) computed
// on the fuzz tree: every prefix form, and the path to the end of the chain.
func c13FuzzSeeds() map[string][]byte {
	rn := c13FuzzTree()
	m := &rn.m
	att := m.attached()
	sel := func(node int) byte {
		for k, n := range att {
			if n == node {
				return byte(k)
			}
		}
		return 0
	}
	deepest, dd := 0, 0
	for _, n := range att {
		if d := m.depth(n); d > dd {
			deepest, dd = n, d
		}
	}
	path := func(from, to int) (segs []byte, n int) {
		var rev [][amlNameLen]byte
		for x := to; x != from; x = m.nodes[x].parent {
			rev = append(rev, m.nodes[x].name)
		}
		for i := len(rev) - 1; i >= 0; i-- {
			segs = append(segs, rev[i][:]...)
		}
		return segs, len(rev)
	}
	seeds := map[string][]byte{
		"root":             {sel(deepest), '\\'},
		"abs-seg":          append([]byte{sel(deepest), '\\'}, c13Names[0][:]...),
		"carets":           {sel(deepest), '^', '^', '^'},
		"carets-above":     {1, '^', '^', '^', '^', '^', '^', '^', '^', '^'},
		"caret-seg":        append([]byte{sel(deepest), '^'}, c13Names[1][:]...),
		"single-upward":    append([]byte{sel(deepest)}, c13Names[2][:]...),
		"dual":             append(append([]byte{0, 0x2e}, c13Names[0][:]...), c13Names[1][:]...),
		"abs-multi-3":      append(append(append([]byte{7, '\\', 0x2f, 3}, c13Names[0][:]...), c13Names[0][:]...), c13Names[3][:]...),
		"joined":           append(append([]byte{0}, c13Names[0][:]...), c13Names[0][:]...),
		"minus-last":       append([]byte{0, 0x2e}, c13Names[0][:]...),
		"empty":            {0},
		"short":            {0, 'A', 'B'},
		"prefix-only":      {0, '\\', 0x2f, 0x03},
		"garbage":          {3, 0x2f, 0x03, '?', 0xff, 0x00, 'A'},
		"zero-name":        {2, 0, 0, 0, 0},
		"count-mismatch":   append([]byte{0, 0x2f, 0x05}, c13Names[0][:]...),
		"trailing-garbage": append(append([]byte{0}, c13Names[0][:]...), 'Z', '9'),
	}
	// multi-name paths down the chain with every interesting segment count
	for _, n := range []int{2, 3, 47, 48, 57, 58, 64, 65, 66, 90, 91, 92, 94, 95, 96} {
		if n > dd {
			continue
		}
		from := rn.ancestor(deepest, n)
		segs, cnt := path(from, deepest)
		e := append([]byte{sel(from), 0x2f, byte(cnt)}, segs...)
		seeds["chain-multi-"+strconv.Itoa(n)] = e
	}
	if segs, cnt := path(0, deepest); cnt <= 255 {
		seeds["abs-chain-full"] = append([]byte{0, '\\', 0x2f, byte(cnt)}, segs...)
	}
	return seeds
}

func c13FuzzOne(data []byte, avoidSeg bool) *vlib.Failure {
	if len(data) == 0 {
		return nil
	}
	base := c13FuzzTree()
	rn := &c13Runner{tree: base.tree, m: base.m, res: &c13Res{cnt: map[string]int{}, excl: map[string]int{}}}
	att := rn.m.attached()
	scope := att[int(data[0])%len(att)]
	expr := data[1:]
	x := c13Parse(expr)
	if avoidSeg && x.ok && x.segCountLooksLikeName() {
		return nil // F-C13b, constructed around while the finding is open
	}
	return rn.lookup("fuzz tree", scope, expr, x, true)
}

func FuzzVerifC13Find(f *testing.F) {
	seeds := c13FuzzSeeds()
	for _, s := range seeds {
		f.Add(s)
	}
	avoidSeg := vlib.OpenFinding("F-C13b")
	f.Fuzz(func(t *testing.T, data []byte) {
		if len(data) > 1100 {
			return
		}
		if fail := c13FuzzOne(data, avoidSeg); fail != nil {
			t.Fatalf("VERIF-FAIL property=C13 :: %s\nVERIF-END", fail.Msg)
		}
	})
}

// TestVerifC13Corpus runs the fuzz seeds as an ordinary test (so the quick
// tier covers them too) and, when VERIF_C13_CORPUS_DIR is set, writes them in
// the native corpus format.
func TestVerifC13Corpus(t *testing.T) {
	seeds := c13FuzzSeeds()
	avoidSeg := vlib.OpenFinding("F-C13b")
	dir := os.Getenv("VERIF_C13_CORPUS_DIR")
	st := vlib.For("C13")
	defer vlib.Flush()
	for name, s := range seeds {
		if dir != "" {
			body := fmt.Sprintf("go test fuzz v1\n[]byte(%q)\n", s)
			if err := os.WriteFile(filepath.Join(dir, name), []byte(body), 0o644); err != nil {
				t.Fatalf("VERIF-HARNESS cannot write corpus: %v", err)
			}
		}
		st.Label("fuzz-seed-as-test")
		if fail := c13FuzzOne(s, avoidSeg); fail != nil {
			t.Fatalf("VERIF-FAIL property=C13 :: seed %s: %s\nVERIF-END", name, fail.Msg)
		}
	}
}
