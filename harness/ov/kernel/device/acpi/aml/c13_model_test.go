//go:build verif && go1.21

package aml

// C13 — reference model of the namespace tree and reference resolver for path
// lookups. Everything here is written from the statement of the property and
// does not call into the code under test.

import "sort"

// c13Node is one slot of the reference pool.
type c13Node struct {
	live   bool
	named  bool // a name was given explicitly (newNamedObject, or newObject + name written by the caller)
	name   [amlNameLen]byte
	opcode uint16
	handle uint8
	parent int   // -1: none
	kids   []int // ordered child list
	// ptr is the *Object the tree handed out when the node was created; like the
	// parser, the harness keeps using it for as long as the node lives
	ptr *Object
}

// c13Model is the reference tree: slot i mirrors pool index i.
type c13Model struct {
	nodes []c13Node
	nfree int
}

func (m *c13Model) isLive(i int) bool { return i >= 0 && i < len(m.nodes) && m.nodes[i].live }

// subtree returns the set of nodes in the subtree rooted at top (top included).
func (m *c13Model) subtree(top int) map[int]bool {
	set := map[int]bool{}
	stack := []int{top}
	for len(stack) > 0 {
		n := stack[len(stack)-1]
		stack = stack[:len(stack)-1]
		set[n] = true
		stack = append(stack, m.nodes[n].kids...)
	}
	return set
}

// preorder lists the nodes reachable from top in depth-first, list order.
func (m *c13Model) preorder(top int) []int {
	var out []int
	var walk func(n int)
	walk = func(n int) {
		out = append(out, n)
		for _, k := range m.nodes[n].kids {
			walk(k)
		}
	}
	if m.isLive(top) {
		walk(top)
	}
	return out
}

// attached returns the live nodes reachable from the root (index 0), ascending.
func (m *c13Model) attached() []int {
	l := m.preorder(0)
	sort.Ints(l)
	return l
}

// liveNodes returns every live node, ascending.
func (m *c13Model) liveNodes() []int {
	var l []int
	for i := range m.nodes {
		if m.nodes[i].live {
			l = append(l, i)
		}
	}
	return l
}

// detachedTops returns the live nodes without a parent other than the root.
func (m *c13Model) detachedTops() []int {
	var l []int
	for i := 1; i < len(m.nodes); i++ {
		if m.nodes[i].live && m.nodes[i].parent < 0 {
			l = append(l, i)
		}
	}
	return l
}

func (m *c13Model) depth(i int) int {
	d := 0
	for m.nodes[i].parent >= 0 {
		i = m.nodes[i].parent
		d++
	}
	return d
}

func (m *c13Model) pos(parent, child int) int {
	for p, k := range m.nodes[parent].kids {
		if k == child {
			return p
		}
	}
	return -1
}

func (m *c13Model) unlink(child int) {
	p := m.nodes[child].parent
	if p < 0 {
		return
	}
	at := m.pos(p, child)
	kids := m.nodes[p].kids
	m.nodes[p].kids = append(append([]int{}, kids[:at]...), kids[at+1:]...)
	m.nodes[child].parent = -1
}

func (m *c13Model) link(parent, child, at int) {
	kids := m.nodes[parent].kids
	nk := append([]int{}, kids[:at]...)
	nk = append(nk, child)
	nk = append(nk, kids[at:]...)
	m.nodes[parent].kids = nk
	m.nodes[child].parent = parent
}

// namedKids lists the children of n that carry a name.
func (m *c13Model) namedKids(n int) []int {
	var l []int
	for _, k := range m.nodes[n].kids {
		if m.nodes[k].named {
			l = append(l, k)
		}
	}
	return l
}

// child returns the first child of scope, in list order, that carries the name
// seg (-1: none). A node's children are its scope.
func (m *c13Model) child(scope int, seg [amlNameLen]byte) int {
	for _, k := range m.nodes[scope].kids {
		if m.nodes[k].named && m.nodes[k].name == seg {
			return k
		}
	}
	return -1
}

// c13OpNamed reports whether the opcode table flags op as a named object. It
// scans the table by opcode value and does not use the index cached in objects.
func c13OpNamed(op uint16) bool {
	if v, ok := c13NamedCache[op]; ok {
		return v
	}
	v := false
	for i := range pOpcodeTable {
		if pOpcodeTable[i].op == op {
			v = pOpcodeTable[i].flags&pOpFlagNamed != 0
			break
		}
	}
	c13NamedCache[op] = v
	return v
}

var c13NamedCache = map[uint16]bool{}

// closestNamedAncestor: nearest ancestor whose kind is named; -1 when an
// unresolved Scope directive is met first or there is none.
func (m *c13Model) closestNamedAncestor(i int) int {
	for a := m.nodes[i].parent; a >= 0; a = m.nodes[a].parent {
		if m.nodes[a].opcode == pOpScope {
			return -1
		}
		if c13OpNamed(m.nodes[a].opcode) {
			return a
		}
	}
	return -1
}

// ---------------------------------------------------------------------------
// lookup expressions

// c13Expr is a lookup expression parsed under the harness grammar:
//
//	expr     := '\' [namepath] | '^'+ [namepath] | namepath
//	namepath := SEG                      single segment
//	          | SEG SEG+                 segments joined together without prefix bytes
//	          | 0x2e SEG SEG             dual name path as it appears in the AML stream
//	          | 0x2f n SEG{n}   (n>=2)   multi name path as it appears in the AML stream
//	          | 0x2e SEG | 0x2f n SEG{n-1} (n>=2)
//	                                     a dual/multi name path without its last segment
//	                                     (what the parser passes when it relocates an object)
//	SEG      := [A-Z_][A-Z0-9_]{3}
//
// Everything else is malformed.
type c13Expr struct {
	ok     bool
	why    string // class of a malformed expression
	abs    bool
	carets int
	segs   [][amlNameLen]byte
	pfx    byte // 0, 0x2e or 0x2f
	count  int  // declared segment count when pfx != 0
}

func c13LeadChar(b byte) bool { return b == '_' || (b >= 'A' && b <= 'Z') }
func c13NameChar(b byte) bool { return c13LeadChar(b) || (b >= '0' && b <= '9') }

func c13Parse(e []byte) c13Expr {
	var x c13Expr
	if len(e) == 0 {
		x.why = "empty"
		return x
	}
	i := 0
	if e[0] == '\\' {
		x.abs = true
		i = 1
	} else {
		for i < len(e) && e[i] == '^' {
			x.carets++
			i++
		}
	}
	rest := e[i:]
	if len(rest) == 0 {
		x.ok = true
		return x
	}
	switch rest[0] {
	case 0x2e:
		x.pfx, x.count = 0x2e, 2
		rest = rest[1:]
	case 0x2f:
		if len(rest) < 2 {
			x.why = "prefix-bytes-only"
			return x
		}
		x.pfx, x.count = 0x2f, int(rest[1])
		rest = rest[2:]
	}
	if len(rest) == 0 {
		x.why = "prefix-bytes-only"
		return x
	}
	if len(rest) < amlNameLen {
		x.why = "too-short-name"
		return x
	}
	if len(rest)%amlNameLen != 0 {
		x.why = "ragged-length"
		return x
	}
	for o := 0; o < len(rest); o += amlNameLen {
		var seg [amlNameLen]byte
		copy(seg[:], rest[o:o+amlNameLen])
		if !c13LeadChar(seg[0]) || !c13NameChar(seg[1]) || !c13NameChar(seg[2]) || !c13NameChar(seg[3]) {
			x.why = "non-name-bytes"
			return x
		}
		x.segs = append(x.segs, seg)
	}
	if x.pfx != 0 {
		if x.count < 2 {
			x.why = "segment-count<2"
			return x
		}
		if len(x.segs) != x.count && len(x.segs) != x.count-1 {
			x.why = "segment-count-mismatch"
			return x
		}
	}
	x.ok = true
	return x
}

// searchRulesApply: the upward search applies only to a single name segment
// without any prefix.
func (x c13Expr) searchRulesApply() bool {
	return !x.abs && x.carets == 0 && x.pfx == 0 && len(x.segs) == 1
}

// form names the shape of a well-formed expression (class histogram).
func (x c13Expr) form() string {
	p := "rel"
	switch {
	case x.abs:
		p = "abs"
	case x.carets > 0:
		p = "caret"
	}
	switch {
	case len(x.segs) == 0:
		return p + "-only"
	case x.searchRulesApply():
		return "single-seg"
	case x.pfx == 0 && len(x.segs) == 1:
		return p + "+seg"
	case x.pfx == 0:
		return p + "+joined-segs"
	case len(x.segs) == x.count-1:
		return p + "+prefix-byte-path-minus-last-seg"
	case x.pfx == 0x2e:
		return p + "+dual-prefix"
	}
	return p + "+multi-prefix"
}

// c13SegCountLooksLikeName: the multi-name segment count byte has the value of
// a name lead character (65..90, 95).
func (x c13Expr) segCountLooksLikeName() bool {
	return x.pfx == 0x2f && c13LeadChar(byte(x.count))
}

// resolve is the reference resolver, written from the statement:
//   - absolute paths start at the root (index 0);
//   - each '^' moves one level up and fails above the top;
//   - a single segment without prefix is searched in the starting scope and
//     then in each enclosing scope;
//   - anything else is resolved downward only, segment by segment;
//   - a node's children are its scope; the first child in list order carrying
//     the name wins.
//
// It returns -1 for not-found.
func (m *c13Model) resolve(scope int, x c13Expr) int {
	start := scope
	if x.abs {
		start = 0
	}
	for k := 0; k < x.carets; k++ {
		start = m.nodes[start].parent
		if start < 0 {
			return -1
		}
	}
	if len(x.segs) == 0 {
		return start
	}
	if x.searchRulesApply() {
		for s := scope; s >= 0; s = m.nodes[s].parent {
			if c := m.child(s, x.segs[0]); c >= 0 {
				return c
			}
		}
		return -1
	}
	cur := start
	for _, seg := range x.segs {
		if cur = m.child(cur, seg); cur < 0 {
			return -1
		}
	}
	return cur
}
