//go:build verif && go1.21

package aml

// C13 — the namespace tree stays well-formed under object creation, append,
// insert-after, detach and free; path lookup follows the ACPI search rules.
//
// A case is a history of tree-editing operations and lookups in positional
// encoding ("the k-th live attached node mod n"), so the op list is plain
// data and shrinks well. The real ObjectTree is driven next to a reference
// tree (c13_model_test.go); after every primitive operation every link of the
// real pool is compared with the reference, and lookups are compared with a
// reference resolver written from the statement.

import (
	"fmt"
	"sort"
	"strings"
	"testing"

	"pgregory.net/rapid"
	"verifharness/vlib"
)

// c13Names is the 5-name alphabet (collisions and shadowing are common). Some
// names differ in a single byte only (first, second or last position).
var c13Names = [5][amlNameLen]byte{
	{'A', 'A', 'A', 'A'},
	{'A', 'A', 'A', 'B'},
	{'A', '0', 'A', 'A'},
	{'_', 'A', 'A', 'A'},
	{'_', '_', '9', '_'},
}

// c13Kinds are the object kinds used for nodes: named kinds, kinds that are not
// named, and the unresolved Scope directive that stops the ancestor search.
var c13Kinds = []uint16{
	pOpIntScopeBlock, pOpDevice, pOpMethod, pOpName, // flagged named
	pOpIf, pOpAdd, pOpIntNamedField, pOpZero, pOpPackage, // not flagged named
	pOpScope, // stops ClosestNamedAncestor
}

type c13Lookup struct {
	Scope  int    `json:"s,omitempty"`   // k-th attached node (ascending index) mod n
	Mode   string `json:"m"`             // walk, names, up, upmulti, deep, raw
	Abs    bool   `json:"abs,omitempty"` // leading '\'
	Carets int    `json:"c,omitempty"`   // number of leading '^' (walk/names); distance selector (up/upmulti: levels up - 1; deep: segments left out at the top)
	Walk   []int  `json:"w,omitempty"`   // child selectors while walking down / name indices
	Pfx    int    `json:"p,omitempty"`   // 0 canonical AML prefix bytes, 1 none (joined), 2 multi prefix always, 3 path minus its last segment, 4/5 a 0x2e/0x2f byte between segments
	Raw    []byte `json:"raw,omitempty"` // mode raw: the expression; other modes: trailing garbage
	// Dmg > 0: the first 1-4 bytes of one segment are overwritten with a dual/multi-name prefix
	// byte (bits 0-1: count - 1, bit 2: which byte, bits 3..: segment)
	Dmg int `json:"dmg,omitempty"`
}

type c13Op struct {
	K  string     `json:"k"`            // named, obj, add, chain, append, after, detach, free, freebad, find
	A  int        `json:"a,omitempty"`  // first node selector
	B  int        `json:"b,omitempty"`  // second node selector / chain length
	C  int        `json:"c,omitempty"`  // chain: name step
	N  int        `json:"n,omitempty"`  // name index; -1 (obj only): leave the object unnamed
	Op int        `json:"op,omitempty"` // index into c13Kinds
	L  *c13Lookup `json:"l,omitempty"`
}

type c13Case struct {
	Ops []c13Op `json:"ops"`
	// Construct around the classes of known findings (set by the generator
	// while the finding is listed as open; replay files of the findings
	// themselves leave them false).
	AvoidStale bool `json:"avoid_stale_name,omitempty"`
	AvoidSeg   bool `json:"avoid_segcount_65_95,omitempty"`
}

const c13ChainMax = 100

// c13BulkMax bounds the children one bulk op creates.
const c13BulkMax = 9000
const c13MaxOps = 200

// c13Res is what a run observed (statistics only).
type c13Res struct {
	cnt  map[string]int
	excl map[string]int
}

func (r *c13Res) bump(k string) { r.cnt[k]++ }

func (r *c13Res) nontrivial() bool {
	return r.cnt["create:reused-freed-slot"] > 0 && (r.cnt["lookup:needs-upward-search"] > 0 || r.cnt["lookup:has-caret"] > 0)
}

type c13Runner struct {
	tree *ObjectTree
	m    c13Model
	res  *c13Res
	c    c13Case
	// the most recent lookups, newest last: they are repeated straight after the next tree edit
	// (an answer remembered from before the edit must not survive it)
	recent    []c13Recent
	replaying bool
}

type c13Recent struct {
	scope int
	expr  []byte
	x     c13Expr
}

const c13RecentMax = 4

// repeatRecent asks the last few lookups again, newest first.
func (rn *c13Runner) repeatRecent(when string) *vlib.Failure {
	rn.replaying = true
	defer func() { rn.replaying = false }()
	for k := len(rn.recent) - 1; k >= 0; k-- {
		r := rn.recent[k]
		if !rn.m.isLive(r.scope) {
			continue
		}
		rn.res.bump("lookup-repeated-after-an-edit")
		if f := rn.lookup(when+", lookup repeated straight after the edit", r.scope, r.expr, r.x, false); f != nil {
			return f
		}
	}
	return nil
}

func c13Mod(a, n int) int {
	if n <= 0 {
		return 0
	}
	a %= n
	if a < 0 {
		a += n
	}
	return a
}

func c13Idx(i int) uint32 {
	if i < 0 {
		return InvalidIndex
	}
	return uint32(i)
}

func c13ShowIdx(i uint32) string {
	if i == InvalidIndex {
		return "none"
	}
	return fmt.Sprintf("#%d", i)
}

func (rn *c13Runner) show(i int) string {
	if i < 0 {
		return "none"
	}
	n := rn.m.nodes[i]
	if !n.named {
		return fmt.Sprintf("#%d(unnamed)", i)
	}
	return fmt.Sprintf("#%d(%s)", i, string(n.name[:]))
}

// dump renders the reference tree (small trees only) for failure messages.
func (rn *c13Runner) dump() string {
	if len(rn.m.nodes) > 24 {
		return ""
	}
	var b strings.Builder
	var walk func(n, ind int)
	walk = func(n, ind int) {
		fmt.Fprintf(&b, "\n      %s%s", strings.Repeat("  ", ind), rn.show(n))
		for _, k := range rn.m.nodes[n].kids {
			walk(k, ind+1)
		}
	}
	b.WriteString("\n    reference tree:")
	walk(0, 0)
	for _, t := range rn.m.detachedTops() {
		b.WriteString("\n      (detached)")
		walk(t, 1)
	}
	return b.String()
}

// ---------------------------------------------------------------------------
// the invariant: real pool == reference tree, in both directions

func (rn *c13Runner) check(when string) *vlib.Failure {
	var f *vlib.Failure
	if pc := vlib.Catch(func() { f = rn.checkInner(when) }); pc.Panicked {
		return vlib.Failf("%s: inspecting the tree crashed: %v%s", when, pc, rn.dump())
	}
	return f
}

func (rn *c13Runner) checkInner(when string) *vlib.Failure {
	tree, m := rn.tree, &rn.m
	if len(tree.objPool) != len(m.nodes) {
		return vlib.Failf("%s: the pool holds %d slots, the reference %d", when, len(tree.objPool), len(m.nodes))
	}
	if got := tree.ObjectAt(uint32(len(m.nodes))); got != nil {
		return vlib.Failf("%s: ObjectAt(%d) returns an object beyond the pool", when, len(m.nodes))
	}
	if got := tree.ObjectAt(InvalidIndex); got != nil {
		return vlib.Failf("%s: ObjectAt(InvalidIndex) returns an object", when)
	}
	// every slot
	for i := range m.nodes {
		n := &m.nodes[i]
		obj := tree.ObjectAt(uint32(i))
		if !n.live {
			if obj != nil {
				return vlib.Failf("%s: ObjectAt(%d) returns the freed object instead of nil", when, i)
			}
			continue
		}
		if obj == nil {
			return vlib.Failf("%s: ObjectAt(%d) is nil although object #%d is live", when, i, i)
		}
		if obj.index != uint32(i) {
			return vlib.Failf("%s: object #%d carries index %d", when, i, obj.index)
		}
		if obj.opcode != n.opcode || obj.tableHandle != n.handle {
			return vlib.Failf("%s: object #%d has opcode %#x / table %d, created with %#x / %d", when, i, obj.opcode, obj.tableHandle, n.opcode, n.handle)
		}
		if n.named && obj.name != n.name {
			return vlib.Failf("%s: object #%d is named %q, was named %q", when, i, string(obj.name[:]), string(n.name[:]))
		}
		if obj.parentIndex != c13Idx(n.parent) {
			return vlib.Failf("%s: object %s: parentIndex is %s, its parent is %s", when, rn.show(i), c13ShowIdx(obj.parentIndex), rn.show(n.parent))
		}
		first, last := -1, -1
		if len(n.kids) > 0 {
			first, last = n.kids[0], n.kids[len(n.kids)-1]
		}
		if obj.firstArgIndex != c13Idx(first) {
			return vlib.Failf("%s: object %s: firstArgIndex is %s, the child list %v starts with %s", when, rn.show(i), c13ShowIdx(obj.firstArgIndex), n.kids, rn.show(first))
		}
		if obj.lastArgIndex != c13Idx(last) {
			return vlib.Failf("%s: object %s: lastArgIndex is %s, the child list %v ends with %s", when, rn.show(i), c13ShowIdx(obj.lastArgIndex), n.kids, rn.show(last))
		}
		if n.parent < 0 {
			if obj.prevSiblingIndex != InvalidIndex || obj.nextSiblingIndex != InvalidIndex {
				return vlib.Failf("%s: object %s has no parent but sibling links prev=%s next=%s", when, rn.show(i), c13ShowIdx(obj.prevSiblingIndex), c13ShowIdx(obj.nextSiblingIndex))
			}
		}
		for p, k := range n.kids {
			ko := tree.ObjectAt(uint32(k))
			if ko == nil {
				return vlib.Failf("%s: child #%d of %s is not a live object", when, k, rn.show(i))
			}
			prev, next := -1, -1
			if p > 0 {
				prev = n.kids[p-1]
			}
			if p+1 < len(n.kids) {
				next = n.kids[p+1]
			}
			if ko.parentIndex != uint32(i) {
				return vlib.Failf("%s: %s is child %d of %s but its parentIndex is %s", when, rn.show(k), p, rn.show(i), c13ShowIdx(ko.parentIndex))
			}
			if ko.prevSiblingIndex != c13Idx(prev) {
				return vlib.Failf("%s: child list of %s is %v: prevSiblingIndex of %s is %s, want %s", when, rn.show(i), n.kids, rn.show(k), c13ShowIdx(ko.prevSiblingIndex), rn.show(prev))
			}
			if ko.nextSiblingIndex != c13Idx(next) {
				return vlib.Failf("%s: child list of %s is %v: nextSiblingIndex of %s is %s, want %s", when, rn.show(i), n.kids, rn.show(k), c13ShowIdx(ko.nextSiblingIndex), rn.show(next))
			}
		}
	}
	// walking from the root, forwards and backwards, reaches exactly the attached nodes
	want := m.preorder(0)
	for dir := 0; dir < 2; dir++ {
		var got []int
		budget := len(m.nodes) + 1
		var bad *vlib.Failure
		var walk func(i uint32)
		walk = func(i uint32) {
			if bad != nil {
				return
			}
			if budget--; budget < 0 {
				bad = vlib.Failf("%s: walking from the root does not terminate (cycle)", when)
				return
			}
			obj := tree.ObjectAt(i)
			if obj == nil {
				bad = vlib.Failf("%s: walking from the root reaches index %d, which is freed or outside the pool", when, i)
				return
			}
			got = append(got, int(i))
			if dir == 0 {
				for k := obj.firstArgIndex; k != InvalidIndex && bad == nil; k = tree.ObjectAt(k).nextSiblingIndex {
					walk(k)
				}
			} else {
				for k := obj.lastArgIndex; k != InvalidIndex && bad == nil; k = tree.ObjectAt(k).prevSiblingIndex {
					walk(k)
				}
			}
		}
		walk(0)
		if bad != nil {
			return bad
		}
		exp := want
		if dir == 1 {
			exp = c13MirrorOrder(m)
		}
		if !c13SameInts(got, exp) {
			return vlib.Failf("%s: walking from the root (direction %d) visits %v, the attached nodes are %v", when, dir, got, exp)
		}
	}
	// NumArgs / ArgAt / ClosestNamedAncestor
	if tree.NumArgs(nil) != 0 || tree.ArgAt(nil, 0) != nil {
		return vlib.Failf("%s: NumArgs(nil)/ArgAt(nil, 0) are not 0/nil", when)
	}
	if got := tree.ClosestNamedAncestor(nil); got != InvalidIndex {
		return vlib.Failf("%s: ClosestNamedAncestor(nil) = %d", when, got)
	}
	for i := range m.nodes {
		n := &m.nodes[i]
		if !n.live {
			continue
		}
		obj := tree.ObjectAt(uint32(i))
		if got := tree.NumArgs(obj); got != uint32(len(n.kids)) {
			return vlib.Failf("%s: NumArgs(%s) = %d, it has %d children", when, rn.show(i), got, len(n.kids))
		}
		for p, k := range n.kids {
			if len(n.kids) > 200 && p >= 50 && p < len(n.kids)-50 && p%97 != 0 {
				continue // ArgAt walks the list: sample the positions of very long child lists
			}
			if got := tree.ArgAt(obj, uint32(p)); got == nil || got.index != uint32(k) {
				return vlib.Failf("%s: ArgAt(%s, %d) is not child %s", when, rn.show(i), p, rn.show(k))
			}
		}
		if got := tree.ArgAt(obj, uint32(len(n.kids))); got != nil {
			return vlib.Failf("%s: ArgAt(%s, %d) returns an object beyond the %d children", when, rn.show(i), len(n.kids), len(n.kids))
		}
		if got, want := tree.ClosestNamedAncestor(obj), c13Idx(m.closestNamedAncestor(i)); got != want {
			return vlib.Failf("%s: ClosestNamedAncestor(%s) = %s, the nearest named ancestor not hidden by a Scope directive is %s%s", when, rn.show(i), c13ShowIdx(got), c13ShowIdx(want), rn.dump())
		}
	}
	return nil
}

func c13SameInts(a, b []int) bool {
	if len(a) != len(b) {
		return false
	}
	for i := range a {
		if a[i] != b[i] {
			return false
		}
	}
	return true
}

// c13MirrorOrder is the depth-first order with every child list reversed.
func c13MirrorOrder(m *c13Model) []int {
	var out []int
	var walk func(n int)
	walk = func(n int) {
		out = append(out, n)
		kids := m.nodes[n].kids
		for p := len(kids) - 1; p >= 0; p-- {
			walk(kids[p])
		}
	}
	walk(0)
	return out
}

// ---------------------------------------------------------------------------
// primitive operations (each followed by the full invariant check)

// create allocates an object. name < 0: newObject, left unnamed; viaNamed:
// newNamedObject; otherwise newObject and the caller writes the name (the way
// the parser names field elements).
func (rn *c13Runner) create(when string, kind uint16, handle uint8, name int, viaNamed bool) (int, *vlib.Failure) {
	tree, m := rn.tree, &rn.m
	poolBefore := len(tree.objPool)
	hadFree := m.nfree > 0
	var obj *Object
	pc := vlib.Catch(func() {
		if viaNamed {
			obj = tree.newNamedObject(kind, handle, c13Names[name])
		} else {
			obj = tree.newObject(kind, handle)
			if name >= 0 {
				obj.name = c13Names[name]
			}
		}
	})
	if pc.Panicked {
		return -1, vlib.Failf("%s: object creation crashed: %v", when, pc)
	}
	if obj == nil {
		return -1, vlib.Failf("%s: object creation returned nil", when)
	}
	idx := int(obj.index)
	if hadFree {
		if len(tree.objPool) != poolBefore {
			return -1, vlib.Failf("%s: the pool grew from %d to %d slots although %d freed slots were waiting for reuse", when, poolBefore, len(tree.objPool), m.nfree)
		}
		if idx >= len(m.nodes) || m.nodes[idx].live {
			return -1, vlib.Failf("%s: the new object got index %d, which is not one of the %d freed slots", when, idx, m.nfree)
		}
		m.nfree--
		rn.res.bump("create:reused-freed-slot")
	} else {
		if len(tree.objPool) != poolBefore+1 || idx != poolBefore {
			return -1, vlib.Failf("%s: no freed slot exists; expected the pool to grow from %d to %d and the new index to be %d, got %d slots and index %d", when, poolBefore, poolBefore+1, poolBefore, len(tree.objPool), idx)
		}
		m.nodes = append(m.nodes, c13Node{})
		rn.res.bump("create:pool-grew")
	}
	if tree.ObjectAt(uint32(idx)) != obj {
		return -1, vlib.Failf("%s: the new object is not the one stored in pool slot %d", when, idx)
	}
	if obj.value != nil {
		return -1, vlib.Failf("%s: the new object #%d carries a stale value", when, idx)
	}
	nn := c13Node{live: true, opcode: kind, handle: handle, parent: -1, ptr: obj}
	if name >= 0 {
		nn.named, nn.name = true, c13Names[name]
	}
	m.nodes[idx] = nn
	return idx, rn.check(when)
}

// obj returns the pointer the tree handed out for node i (the root: taken once,
// when the tree was set up). Callers of the tree - the parser - keep such
// pointers across later creations; so does the harness.
func (rn *c13Runner) obj(i int) *Object {
	if p := rn.m.nodes[i].ptr; p != nil {
		return p
	}
	return rn.tree.ObjectAt(uint32(i))
}

func (rn *c13Runner) doAppend(when string, parent, child int) *vlib.Failure {
	tree, m := rn.tree, &rn.m
	if pc := vlib.Catch(func() { tree.append(rn.obj(parent), rn.obj(child)) }); pc.Panicked {
		return vlib.Failf("%s: append(%s, %s) crashed: %v", when, rn.show(parent), rn.show(child), pc)
	}
	m.link(parent, child, len(m.nodes[parent].kids))
	return rn.check(fmt.Sprintf("%s: after append(%s, %s)", when, rn.show(parent), rn.show(child)))
}

// ---------------------------------------------------------------------------
// lookups

func (rn *c13Runner) ancestor(n, dist int) int {
	for ; dist > 0 && n >= 0; dist-- {
		n = rn.m.nodes[n].parent
	}
	return n
}

// buildExpr turns a lookup description into (scope, expression bytes) on the
// current reference tree.
func (rn *c13Runner) buildExpr(l *c13Lookup) (int, []byte) {
	m := &rn.m
	att := m.attached()
	scope := att[c13Mod(l.Scope, len(att))]
	if l.Mode == "raw" {
		return scope, append([]byte{}, l.Raw...)
	}
	abs, carets := false, 0
	var segs [][amlNameLen]byte
	alphabet := func(ws []int) {
		for _, w := range ws {
			segs = append(segs, c13Names[c13Mod(w, len(c13Names))])
		}
	}
	// walkDown follows child selectors from cur; where the tree ends it
	// continues with names from the alphabet.
	walkDown := func(cur int, ws []int) {
		for _, w := range ws {
			if cur >= 0 {
				if kids := m.namedKids(cur); len(kids) > 0 {
					cur = kids[c13Mod(w, len(kids))]
					segs = append(segs, m.nodes[cur].name)
					continue
				}
				cur = -1
			}
			segs = append(segs, c13Names[c13Mod(w, len(c13Names))])
		}
	}
	switch l.Mode {
	case "walk":
		start := scope
		if l.Abs {
			abs, start = true, 0
		} else if l.Carets > 0 {
			carets = l.Carets
			start = rn.ancestor(scope, carets)
		}
		walkDown(start, l.Walk)
	case "names":
		if l.Abs {
			abs = true
		} else if l.Carets > 0 {
			carets = l.Carets
		}
		alphabet(l.Walk)
	case "up", "upmulti":
		// aim at something that lives in an enclosing scope
		d := m.depth(scope)
		ws := l.Walk
		if len(ws) == 0 {
			ws = []int{0}
		}
		if l.Mode == "up" {
			ws = ws[:1]
		}
		if d == 0 {
			alphabet(ws)
		} else {
			walkDown(rn.ancestor(scope, 1+c13Mod(l.Carets, d)), ws)
		}
	case "deep":
		// a path that ends at the deepest attached node
		target, td := 0, 0
		for _, n := range att {
			if dd := m.depth(n); dd > td {
				target, td = n, dd
			}
		}
		limit := 0
		for n := target; n > 0 && m.nodes[n].named; n = m.nodes[n].parent {
			limit++
		}
		if limit == 0 {
			alphabet([]int{l.Carets})
			break
		}
		dist := limit - c13Mod(l.Carets, limit) // small selectors give long paths
		scope = rn.ancestor(target, dist)
		abs = l.Abs && scope == 0
		path := make([][amlNameLen]byte, dist)
		for n, p := target, dist-1; p >= 0; n, p = m.nodes[n].parent, p-1 {
			path[p] = m.nodes[n].name
		}
		segs = path
	}
	if len(segs) > 254 {
		segs = segs[:254]
	}
	var e []byte
	if abs {
		e = append(e, '\\')
	}
	for i := 0; i < carets; i++ {
		e = append(e, '^')
	}
	n := len(segs)
	switch {
	case n == 0:
	case l.Pfx == 0 && n == 2:
		e = append(e, 0x2e)
	case l.Pfx == 0 && n > 2, l.Pfx == 2:
		e = append(e, 0x2f, byte(n))
	case l.Pfx == 3 && n == 1:
		e = append(e, 0x2e)
	case l.Pfx == 3:
		e = append(e, 0x2f, byte(n+1))
	}
	base := len(e)
	for i, s := range segs {
		if i > 0 && l.Pfx >= 4 {
			// a name-prefix byte between the segments (0x2e is also how a path is written in ASL
			// source: \_SB_.PCI0); outside the harness grammar, judged by the relations that hold
			// for any expression
			e = append(e, byte(0x2e+l.Pfx-4))
		}
		e = append(e, s[:]...)
	}
	if l.Pfx >= 4 {
		e = append(e, l.Raw...)
		return scope, e
	}
	if l.Dmg > 0 && len(segs) > 0 {
		j := (l.Dmg >> 3) % len(segs)
		if j == 0 && len(segs) > 1 && l.Dmg&0x100 == 0 {
			j = len(segs) - 1 // mostly a segment behind a part of the path that resolves
		}
		b := byte(0x2e)
		if l.Dmg&4 != 0 {
			b = 0x2f
		}
		for i := 0; i <= l.Dmg&3; i++ {
			e[base+amlNameLen*j+i] = b
		}
	}
	e = append(e, l.Raw...)
	return scope, e
}

// lookup runs Find(scope, expr) against the reference resolver.
func (rn *c13Runner) lookup(when string, scope int, expr []byte, x c13Expr, primary bool) *vlib.Failure {
	tree, m := rn.tree, &rn.m
	if !rn.replaying {
		if len(rn.recent) == c13RecentMax {
			rn.recent = append(rn.recent[:0], rn.recent[1:]...)
		}
		rn.recent = append(rn.recent, c13Recent{scope, expr, x})
	}
	var got uint32
	if pc := vlib.Catch(func() { got = tree.Find(uint32(scope), expr) }); pc.Panicked {
		return vlib.Failf("%s: Find(scope %s, %q) crashed: %v%s", when, rn.show(scope), expr, pc, rn.dump())
	}
	// the same question again, at once, with the same buffer: the same answer (whatever the
	// expression looks like; a lookup changes neither the tree nor what it was asked)
	var again uint32
	if pc := vlib.Catch(func() { again = tree.Find(uint32(scope), expr) }); pc.Panicked {
		return vlib.Failf("%s: Find(scope %s, %q), asked a second time, crashed: %v%s", when, rn.show(scope), expr, pc, rn.dump())
	}
	if again != got {
		return vlib.Failf("%s: Find(scope %s, %q) = %s the first time and %s when asked again at once with the same buffer (nothing was edited in between)%s", when, rn.show(scope), expr, c13ShowIdx(got), c13ShowIdx(again), rn.dump())
	}
	pre := "sweep:"
	if primary {
		pre = "lookup:"
	}
	if !x.ok {
		if primary && got != InvalidIndex {
			rn.res.bump("lookup:outside-the-grammar-but-resolved")
		}
		if got != InvalidIndex && !m.isLive(int(got)) {
			return vlib.Failf("%s: Find(scope %s, malformed expression %q [%s]) = %d, which is neither a live object nor not-found%s", when, rn.show(scope), expr, x.why, got, rn.dump())
		}
		rn.res.bump(pre + "malformed")
		if primary {
			rn.res.bump("malformed:" + x.why)
		}
		return nil
	}
	want := m.resolve(scope, x)
	rn.res.bump(pre + "well-formed")
	if want < 0 {
		rn.res.bump(pre + "well-formed-must-fail")
	}
	if primary {
		rn.res.bump("form:" + x.form())
		if x.searchRulesApply() && want >= 0 && m.nodes[want].parent != scope {
			rn.res.bump("lookup:needs-upward-search")
		}
		if x.carets > 0 {
			rn.res.bump("lookup:has-caret")
			if x.carets > m.depth(scope) {
				rn.res.bump("lookup:caret-above-the-root")
			}
		}
		if x.pfx != 0 {
			rn.res.bump("lookup:embedded-prefix-bytes")
		}
		if x.segCountLooksLikeName() {
			rn.res.bump("lookup:segcount-65..90,95")
			if want >= 0 {
				rn.res.bump("lookup:segcount-65..90,95-must-succeed")
			}
		}
		if len(x.segs) >= 2 && want >= 0 {
			rn.res.bump("lookup:multi-seg-found")
		}
		if len(x.segs) >= 2 && want < 0 {
			// would an upward search (wrongly) have found it?
			for s := m.nodes[scope].parent; s >= 0 && !x.abs && x.carets == 0; s = m.nodes[s].parent {
				y := x
				y.abs = false
				cur := s
				for _, seg := range y.segs {
					if cur = m.child(cur, seg); cur < 0 {
						break
					}
				}
				if cur >= 0 {
					rn.res.bump("lookup:multi-seg-present-only-in-enclosing-scope")
					break
				}
			}
		}
	}
	if got != c13Idx(want) {
		rule := "multi-segment / prefixed names are resolved downward only"
		switch {
		case x.searchRulesApply():
			rule = "a single segment is searched in the starting scope, then in each enclosing scope"
		case len(x.segs) == 0 && x.abs:
			rule = "'\\' is the root"
		case len(x.segs) == 0:
			rule = "each '^' is one level up and fails above the root"
		}
		return vlib.Failf("%s: Find(scope %s, %q) = %s, the search rules designate %s (%s; first child in list order wins)%s", when, rn.show(scope), expr, c13ShowIdx(got), rn.show(want), rule, rn.dump())
	}
	return nil
}

// ---------------------------------------------------------------------------
// run

func c13Run(c c13Case) (*vlib.Failure, *c13Res) {
	defer vlib.Guard("C13", c, nil)()
	res := &c13Res{cnt: map[string]int{}, excl: map[string]int{}}
	rn := &c13Runner{tree: NewObjectTree(), res: res, c: c}
	// the root scope is index 0
	if _, f := rn.create("setup (root)", pOpIntScopeBlock, 0, 0, true); f != nil {
		return f, res
	}
	rn.tree.ObjectAt(0).name = [amlNameLen]byte{'\\'}
	rn.m.nodes[0].name = [amlNameLen]byte{'\\'}
	for i, op := range c.Ops {
		when := fmt.Sprintf("op %d (%s)", i, op.K)
		if f := rn.step(when, i, op); f != nil {
			return f, res
		}
		if op.K != "find" {
			if f := rn.repeatRecent(when); f != nil {
				return f, res
			}
		}
	}
	return nil, res
}

func (rn *c13Runner) step(when string, i int, op c13Op) *vlib.Failure {
	tree, m, res := rn.tree, &rn.m, rn.res
	kind := c13Kinds[c13Mod(op.Op, len(c13Kinds))]
	handle := uint8(i)
	switch op.K {
	case "named":
		_, f := rn.create(when, kind, handle, c13Mod(op.N, len(c13Names)), true)
		return f
	case "obj":
		name := op.N
		if name >= 0 {
			name = c13Mod(name, len(c13Names))
		} else {
			name = -1
			if rn.c.AvoidStale {
				// F-C13a: an unnamed object in a reused slot keeps the previous name
				for j := range m.nodes {
					if !m.nodes[j].live && m.nodes[j].named {
						name = c13Mod(op.Op, len(c13Names))
						res.excl["F-C13a:unnamed-object-while-a-freed-slot-holds-a-name"]++
						break
					}
				}
			}
			if name < 0 {
				res.bump("create:unnamed")
			}
		}
		_, f := rn.create(when, kind, handle, name, false)
		return f
	case "add":
		att := m.attached()
		parent := att[c13Mod(op.A, len(att))]
		idx, f := rn.create(when, kind, handle, c13Mod(op.N, len(c13Names)), true)
		if f != nil {
			return f
		}
		return rn.doAppend(when, parent, idx)
	case "chain":
		att := m.attached()
		parent := att[c13Mod(op.A, len(att))]
		n := op.B
		if n < 1 {
			n = 1
		}
		if n > c13ChainMax {
			n = c13ChainMax
		}
		if n >= 64 {
			res.bump("chain>=64")
		}
		for j := 0; j < n; j++ {
			w := fmt.Sprintf("%s link %d", when, j)
			idx, f := rn.create(w, pOpIntScopeBlock, handle, c13Mod(op.N+j*op.C, len(c13Names)), true)
			if f != nil {
				return f
			}
			if f = rn.doAppend(w, parent, idx); f != nil {
				return f
			}
			parent = idx
		}
		return nil
	case "bulk":
		// a large namespace: hundreds to thousands of children under one scope, created and
		// attached back to back (checked once at the end)
		att := m.attached()
		parent := att[c13Mod(op.A, len(att))]
		n := op.B
		if n < 1 {
			n = 1
		}
		if n > c13BulkMax {
			n = c13BulkMax
		}
		res.bump("bulk")
		for j := 0; j < n; j++ {
			var obj *Object
			if pc := vlib.Catch(func() {
				obj = tree.newNamedObject(pOpIntScopeBlock, handle, c13Names[c13Mod(op.N+j, len(c13Names))])
				tree.append(rn.obj(parent), obj)
			}); pc.Panicked || obj == nil {
				return vlib.Failf("%s: creating and attaching child %d of %d crashed: %v", when, j, n, pc)
			}
			idx := int(obj.index)
			nn := c13Node{live: true, opcode: pOpIntScopeBlock, handle: handle, parent: -1, ptr: obj, named: true, name: c13Names[c13Mod(op.N+j, len(c13Names))]}
			if idx < len(m.nodes) {
				if m.nodes[idx].live {
					return vlib.Failf("%s: child %d got index %d, which belongs to a live object", when, j, idx)
				}
				m.nfree--
				m.nodes[idx] = nn
			} else if idx == len(m.nodes) {
				m.nodes = append(m.nodes, nn)
			} else {
				return vlib.Failf("%s: child %d got index %d, the pool has %d slots", when, j, idx, len(m.nodes))
			}
			m.link(parent, idx, len(m.nodes[parent].kids))
		}
		return rn.check(fmt.Sprintf("%s: after creating and attaching %d children of %s", when, n, rn.show(parent)))
	case "append", "after":
		tops := m.detachedTops()
		if len(tops) == 0 {
			res.bump("skipped:" + op.K)
			return nil
		}
		d := tops[c13Mod(op.A, len(tops))]
		own := m.subtree(d)
		var cands []int
		for _, n := range m.liveNodes() {
			if own[n] {
				continue
			}
			if op.K == "after" && m.nodes[n].parent < 0 {
				continue
			}
			cands = append(cands, n)
		}
		if len(cands) == 0 {
			res.bump("skipped:" + op.K)
			return nil
		}
		t := cands[c13Mod(op.B, len(cands))]
		if op.K == "append" {
			if len(m.nodes[t].kids) == 0 {
				res.bump("append:first-child")
			} else {
				res.bump("append:to-non-empty-list")
			}
			if len(m.nodes[d].kids) > 0 {
				res.bump("append:subtree")
			}
			return rn.doAppend(when, t, d)
		}
		p := m.nodes[t].parent
		at := m.pos(p, t)
		if at == len(m.nodes[p].kids)-1 {
			res.bump("appendAfter:last-sibling")
		} else {
			res.bump("appendAfter:middle")
		}
		if pc := vlib.Catch(func() {
			tree.appendAfter(rn.obj(p), rn.obj(d), rn.obj(t))
		}); pc.Panicked {
			return vlib.Failf("%s: appendAfter(%s, %s, %s) crashed: %v", when, rn.show(p), rn.show(d), rn.show(t), pc)
		}
		m.link(p, d, at+1)
		return rn.check(fmt.Sprintf("%s: after appendAfter(%s, %s, %s)", when, rn.show(p), rn.show(d), rn.show(t)))
	case "detach":
		var cands []int
		for _, n := range m.liveNodes() {
			if m.nodes[n].parent >= 0 {
				cands = append(cands, n)
			}
		}
		if len(cands) == 0 {
			res.bump("skipped:detach")
			return nil
		}
		x := cands[c13Mod(op.A, len(cands))]
		p := m.nodes[x].parent
		res.bump("detach:" + rn.childPos(p, x))
		if pc := vlib.Catch(func() { tree.detach(rn.obj(p), rn.obj(x)) }); pc.Panicked {
			return vlib.Failf("%s: detach(%s, %s) crashed: %v", when, rn.show(p), rn.show(x), pc)
		}
		desc := fmt.Sprintf("%s: after detach(%s, %s)", when, rn.show(p), rn.show(x))
		m.unlink(x)
		return rn.check(desc)
	case "defaults":
		// CreateDefaultScopes in the middle of a history (a further root with the five predefined
		// scopes, as for another table set): six objects, taken from the freed slots first
		poolBefore, freeBefore := len(tree.objPool), m.nfree
		if pc := vlib.Catch(func() { tree.CreateDefaultScopes(handle) }); pc.Panicked {
			return vlib.Failf("%s: CreateDefaultScopes crashed: %v", when, pc)
		}
		reuse := freeBefore
		if reuse > 6 {
			reuse = 6
		}
		if want := poolBefore + 6 - reuse; len(tree.objPool) != want {
			return vlib.Failf("%s: CreateDefaultScopes made the pool grow from %d to %d slots; %d freed slots were waiting for reuse, so %d slots were expected", when, poolBefore, len(tree.objPool), freeBefore, want)
		}
		for len(m.nodes) < len(tree.objPool) {
			m.nodes = append(m.nodes, c13Node{})
		}
		var fresh []int
		for i, o := range tree.objPool {
			if !m.nodes[i].live && o.opcode != pOpIntFreedObject {
				fresh = append(fresh, i)
			}
		}
		if len(fresh) != 6 {
			return vlib.Failf("%s: CreateDefaultScopes created %d objects (slots %v), want the root and five scopes", when, len(fresh), fresh)
		}
		root := -1
		for _, i := range fresh {
			o := tree.ObjectAt(uint32(i))
			if o == nil {
				return vlib.Failf("%s: ObjectAt(%d) is nil for a slot CreateDefaultScopes just filled", when, i)
			}
			m.nodes[i] = c13Node{live: true, named: true, name: o.name, opcode: o.opcode, handle: o.tableHandle, parent: -1, ptr: o}
			if o.name == [amlNameLen]byte{'\\'} {
				root = i
			}
		}
		m.nfree -= reuse
		if root < 0 {
			return vlib.Failf("%s: CreateDefaultScopes created no object named \\", when)
		}
		wantNames := []string{"_GPE", "_PR_", "_SB_", "_SI_", "_TZ_"}
		k := 0
		for ci := tree.objPool[root].firstArgIndex; ci != InvalidIndex && k < 6; ci, k = tree.objPool[ci].nextSiblingIndex, k+1 {
			if int(ci) >= len(m.nodes) || k >= 5 || string(tree.objPool[ci].name[:]) != wantNames[k] {
				return vlib.Failf("%s: child %d of the new root is object %d, want the scope %s", when, k, ci, wantNames[c13Mod(k, 5)])
			}
			m.link(root, int(ci), k)
		}
		if k != 5 {
			return vlib.Failf("%s: the new root has %d children, want 5", when, k)
		}
		res.bump("create:default-scopes-mid-history")
		if reuse > 0 {
			res.bump("create:default-scopes-reusing-freed-slots")
		}
		return rn.check(when + ": after CreateDefaultScopes")
	case "detachagain":
		// detach of an object that is not on any list (detached before, or never attached) from
		// an object that has children: there is nothing to take out, nothing may change
		var loose, parents []int
		for _, n := range m.liveNodes() {
			if n != 0 && m.nodes[n].parent < 0 {
				loose = append(loose, n)
			}
			if len(m.nodes[n].kids) > 0 {
				parents = append(parents, n)
			}
		}
		if len(loose) == 0 || len(parents) == 0 {
			res.bump("skipped:detachagain")
			return nil
		}
		x, p := loose[c13Mod(op.A, len(loose))], parents[c13Mod(op.B, len(parents))]
		if x == p {
			res.bump("skipped:detachagain")
			return nil
		}
		res.bump("detach:of-an-object-that-is-not-attached")
		if pc := vlib.Catch(func() { tree.detach(rn.obj(p), rn.obj(x)) }); pc.Panicked {
			return vlib.Failf("%s: detach(%s, %s) of an object that is not attached crashed: %v", when, rn.show(p), rn.show(x), pc)
		}
		return rn.check(fmt.Sprintf("%s: after detach(%s, %s) of an object that is not attached anywhere", when, rn.show(p), rn.show(x)))
	case "free":
		var cands []int
		for _, n := range m.liveNodes() {
			if n != 0 && len(m.nodes[n].kids) == 0 {
				cands = append(cands, n)
			}
		}
		if len(cands) == 0 {
			res.bump("skipped:free")
			return nil
		}
		x := cands[c13Mod(op.A, len(cands))]
		if p := m.nodes[x].parent; p >= 0 {
			res.bump("free:attached-" + rn.childPos(p, x))
		} else {
			res.bump("free:detached-leaf")
		}
		desc := fmt.Sprintf("%s: after free(%s)", when, rn.show(x))
		if pc := vlib.Catch(func() { tree.free(rn.obj(x)) }); pc.Panicked {
			return vlib.Failf("%s: free(%s) of a leaf crashed: %v", when, rn.show(x), pc)
		}
		m.unlink(x)
		m.nodes[x].live = false
		m.nfree++
		return rn.check(desc)
	case "freebad":
		var cands []int
		for _, n := range m.liveNodes() {
			if len(m.nodes[n].kids) > 0 {
				cands = append(cands, n)
			}
		}
		if len(cands) == 0 {
			res.bump("skipped:freebad")
			return nil
		}
		x := cands[c13Mod(op.A, len(cands))]
		obj := tree.ObjectAt(uint32(x))
		pc := vlib.Catch(func() { tree.free(obj) })
		if !pc.Panicked {
			return vlib.Failf("%s: free(%s) of an object that still has %d children did not panic", when, rn.show(x), len(m.nodes[x].kids))
		}
		desc := fmt.Sprintf("%s: after the refused free(%s)", when, rn.show(x))
		// The refused free may already have taken the object out of its
		// parent's list (that is an ordinary detach and leaves a well-formed
		// tree); everything else must be unchanged and the object stays live.
		if m.nodes[x].parent >= 0 && tree.objPool[x].parentIndex == InvalidIndex {
			res.bump("freebad:attached-node-got-detached")
			m.unlink(x)
		} else {
			res.bump("freebad:nothing-changed")
		}
		return rn.check(desc)
	case "find":
		if op.L == nil {
			return nil
		}
		scope, expr := rn.buildExpr(op.L)
		x := c13Parse(expr)
		if rn.c.AvoidSeg && x.ok && x.segCountLooksLikeName() {
			res.excl["F-C13b:multi-name-segment-count-65..90,95"]++
			return nil
		}
		res.bump("mode:" + op.L.Mode)
		if f := rn.lookup(when, scope, expr, x, true); f != nil {
			return f
		}
		// the same expression from every other attached scope
		att := m.attached()
		stride := 1 + len(att)/80
		for k := 0; k < len(att); k += stride {
			if att[k] == scope {
				continue
			}
			if f := rn.lookup(when, att[k], expr, x, false); f != nil {
				return f
			}
		}
		// without a scope (the parser passes the result of an ancestor search
		// that found nothing): must not crash
		var got uint32
		if pc := vlib.Catch(func() { got = tree.Find(InvalidIndex, expr) }); pc.Panicked {
			return vlib.Failf("%s: Find(InvalidIndex, %q) crashed: %v", when, expr, pc)
		}
		if got != InvalidIndex && !m.isLive(int(got)) {
			return vlib.Failf("%s: Find(InvalidIndex, %q) = %d, neither a live object nor not-found", when, expr, got)
		}
		return nil
	}
	return nil
}

func (rn *c13Runner) childPos(parent, child int) string {
	kids := rn.m.nodes[parent].kids
	at := rn.m.pos(parent, child)
	switch {
	case len(kids) == 1:
		return "only-child"
	case at == 0:
		return "first-child"
	case at == len(kids)-1:
		return "last-child"
	}
	return "middle-child"
}

// ---------------------------------------------------------------------------
// generators

var c13OpKinds = func() []string {
	w := map[string]int{"named": 10, "obj": 8, "add": 14, "chain": 1, "append": 14, "after": 10, "detach": 8, "detachagain": 3, "defaults": 1, "free": 9, "freebad": 2, "find": 24}
	var ks []string
	for k := range w {
		ks = append(ks, k)
	}
	sort.Strings(ks)
	var out []string
	for _, k := range ks {
		for i := 0; i < w[k]; i++ {
			out = append(out, k)
		}
	}
	return out
}()

var c13RawPatterns = [][]byte{
	{}, {'A'}, {'A', 'B'}, {'_', 'B', '0'}, {'^', 'A'}, {'\\', 'A', 'A', 'A'}, {'^', '^', 'Z', 'Z'},
	{0x2e}, {0x2f}, {0x2f, 0x02}, {'\\', 0x2e}, {'\\', 0x2f}, {'\\', 0x2f, 0x03}, {'^', 0x2e}, {'^', 0x2f, 0x02}, {0x2f, 0x00}, {'\\', 0x2f, 0x00},
	{0, 0, 0, 0}, {'\\', '\\'}, {'\\', '^'}, {'^', '\\'}, {'a', 'a', 'a', 'a'}, {'1', 'A', 'A', 'A'},
	{0x2f, 0x01, 'A', 'A', 'A', 'A'}, {0x2f, 'A', 'A', 'A', 'A', 'A'}, {0x2e, 'A', 'A', 'A', 'A', 'A', 'A', 'A', 'A', '_', 'B', '0', '_'},
	{0x2f, 0x03, 'A', 'A', 'A', 'A'}, {0x2f, 0xff, 'A', 'A', 'A', 'A'}, {'A', 'A', 'A', 'A', 0x2e, 'A', 'A', 'A', 'A'},
}

var c13RawBytes = []byte("AAAAAAABA0AA_AAA__9_\\^./\x00\x01\x02\x03\x41\x5f09az \xff")

func c13GenLookup(t *rapid.T) *c13Lookup {
	l := &c13Lookup{Scope: rapid.IntRange(0, 299).Draw(t, "scope")}
	l.Mode = rapid.SampledFrom([]string{"walk", "walk", "walk", "walk", "walk", "names", "names", "names", "up", "up", "up", "up", "upmulti", "upmulti", "deep", "deep", "raw", "raw", "raw", "raw"}).Draw(t, "mode")
	prefix := func() {
		switch rapid.IntRange(0, 9).Draw(t, "prefix") {
		case 0, 1, 2:
			l.Abs = true
		case 3, 4, 5:
			l.Carets = rapid.IntRange(1, 3).Draw(t, "carets")
		case 6:
			l.Carets = rapid.IntRange(1, 9).Draw(t, "manycarets")
		}
	}
	pfx := func() { l.Pfx = rapid.SampledFrom([]int{0, 0, 0, 0, 0, 0, 1, 1, 1, 2, 2, 3, 3, 4, 5}).Draw(t, "pfx") }
	switch l.Mode {
	case "walk":
		prefix()
		l.Walk = rapid.SliceOfN(rapid.IntRange(0, 7), 0, 4).Draw(t, "walk")
		pfx()
	case "names":
		prefix()
		l.Walk = rapid.SliceOfN(rapid.IntRange(0, 4), 1, 4).Draw(t, "names")
		pfx()
	case "up":
		l.Carets = rapid.IntRange(0, 5).Draw(t, "dist")
		l.Walk = []int{rapid.IntRange(0, 7).Draw(t, "kid")}
	case "upmulti":
		l.Carets = rapid.IntRange(0, 5).Draw(t, "dist")
		l.Walk = rapid.SliceOfN(rapid.IntRange(0, 7), 2, 3).Draw(t, "walk")
		pfx()
	case "deep":
		l.Carets = rapid.IntRange(0, 40).Draw(t, "dist")
		l.Abs = rapid.Bool().Draw(t, "abs")
		l.Pfx = rapid.SampledFrom([]int{0, 0, 0, 2, 3, 1, 4}).Draw(t, "pfx")
	case "raw":
		if rapid.IntRange(0, 2).Draw(t, "rawkind") == 0 {
			l.Raw = rapid.SliceOfN(rapid.SampledFrom(c13RawBytes), 0, 14).Draw(t, "bytes")
		} else {
			l.Raw = append([]byte{}, rapid.SampledFrom(c13RawPatterns).Draw(t, "pattern")...)
		}
		return l
	}
	if rapid.IntRange(0, 9).Draw(t, "garbage") == 0 {
		l.Raw = rapid.SliceOfN(rapid.SampledFrom(c13RawBytes), 1, 3).Draw(t, "tail")
	}
	if rapid.IntRange(0, 11).Draw(t, "damaged") == 0 {
		l.Dmg = rapid.IntRange(1, 1023).Draw(t, "dmg")
	}
	return l
}

func c13GenOp(t *rapid.T) c13Op {
	op := c13Op{K: rapid.SampledFrom(c13OpKinds).Draw(t, "kind")}
	sel := func(label string) int { return rapid.IntRange(0, 299).Draw(t, label) }
	switch op.K {
	case "named":
		op.N = rapid.IntRange(0, 4).Draw(t, "name")
		op.Op = rapid.IntRange(0, len(c13Kinds)-1).Draw(t, "opcode")
	case "obj":
		if rapid.Bool().Draw(t, "unnamed") {
			op.N = -1
		} else {
			op.N = rapid.IntRange(0, 4).Draw(t, "name")
		}
		op.Op = rapid.IntRange(0, len(c13Kinds)-1).Draw(t, "opcode")
	case "add":
		op.A = sel("parent")
		op.N = rapid.IntRange(0, 4).Draw(t, "name")
		op.Op = rapid.IntRange(0, len(c13Kinds)-1).Draw(t, "opcode")
	case "bulk":
		op.A = sel("parent")
		op.N = rapid.IntRange(0, 4).Draw(t, "name")
		op.B = rapid.SampledFrom([]int{300, 1000, 2100, 4200, 4200, 8300}).Draw(t, "bulk")
	case "chain":
		op.A = sel("parent")
		op.N = rapid.IntRange(0, 4).Draw(t, "name")
		op.C = rapid.IntRange(0, 4).Draw(t, "step")
		if rapid.IntRange(0, 2).Draw(t, "long") == 0 {
			op.B = rapid.IntRange(2, 12).Draw(t, "len")
		} else {
			op.B = rapid.IntRange(64, c13ChainMax).Draw(t, "longlen")
		}
	case "append", "after":
		op.A = sel("detached")
		op.B = sel("target")
	case "detach", "free", "freebad":
		op.A = sel("node")
	case "detachagain":
		op.A = sel("node")
		op.B = sel("parent")
	case "find":
		op.L = c13GenLookup(t)
	}
	return op
}

// c13GenOps draws a history of at most c13MaxOps operations as a number of
// independently drawn blocks: every block is a plain rapid slice (elements can
// be deleted while shrinking) and the number of blocks shrinks by dropping
// blocks from the end.
func c13GenOps(t *rapid.T) []c13Op {
	nblocks := rapid.SampledFrom([]int{1, 2, 4, 8, 16, 32, 40}).Draw(t, "nblocks")
	var ops []c13Op
	for b := 0; b < nblocks && len(ops) < c13MaxOps; b++ {
		ops = append(ops, rapid.SliceOfN(rapid.Custom(c13GenOp), 0, 12).Draw(t, "block")...)
	}
	if len(ops) > c13MaxOps {
		ops = ops[:c13MaxOps]
	}
	if rapid.IntRange(0, 149).Draw(t, "bulkcase") == 0 {
		// a namespace of thousands of objects (real DSDTs have them): one bulk creation
		// somewhere in a short history
		if len(ops) > 40 {
			ops = ops[:40]
		}
		b := c13Op{K: "bulk", A: rapid.IntRange(0, 299).Draw(t, "bulkparent"), N: rapid.IntRange(0, 4).Draw(t, "bulkname"),
			B: rapid.SampledFrom([]int{300, 1000, 2100, 4200, 4200, 8300}).Draw(t, "bulk")}
		at := rapid.IntRange(0, len(ops)).Draw(t, "bulkat")
		ops = append(ops[:at], append([]c13Op{b}, ops[at:]...)...)
	}
	return ops
}

func c13Record(st *vlib.Stats, c c13Case, res *c13Res) {
	var labels []string
	for k, v := range res.cnt {
		labels = append(labels, k)
		st.Add(k, int64(v))
	}
	sort.Strings(labels)
	for k, v := range res.excl {
		for i := 0; i < v; i++ {
			st.Exclude(k)
		}
	}
	switch n := len(c.Ops); {
	case n <= 20:
		labels = append(labels, "history:<=20-ops")
	case n <= 60:
		labels = append(labels, "history:21-60-ops")
	case n <= 120:
		labels = append(labels, "history:61-120-ops")
	default:
		labels = append(labels, "history:121-200-ops")
	}
	st.Case(c, res.nontrivial(), labels...)
}

func TestVerifC13(t *testing.T) {
	st := vlib.For("C13")
	defer vlib.Flush()
	avoidStale, avoidSeg := vlib.OpenFinding("F-C13a"), vlib.OpenFinding("F-C13b")
	rapid.Check(t, func(t *rapid.T) {
		c := c13Case{AvoidStale: avoidStale, AvoidSeg: avoidSeg}
		c.Ops = c13GenOps(t)
		fail, res := c13Run(c)
		c13Record(st, c, res)
		vlib.Report(t, "C13", c, fail)
	})
}

func TestVerifC13Replay(t *testing.T) {
	var c c13Case
	ok, err := vlib.LoadReplay(&c)
	if !ok {
		t.Skip("no replay requested")
	}
	if err != nil {
		t.Fatalf("VERIF-HARNESS cannot load replay: %v", err)
	}
	fail, _ := c13Run(c)
	vlib.Report(t, "C13", c, fail)
}
