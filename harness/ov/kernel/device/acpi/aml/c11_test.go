//go:build verif && go1.21

package aml

// C11 — well-formed AML is parsed into a namespace that matches the program.
//
// The generator builds a namespace first and then decides how each object is
// written (lexically nested, hoisted into a Scope directive, declared with a
// path-prefixed or caret-prefixed name, split over several tables), so the
// absolute path ACPI scoping rules give every object is known by construction
// (amlObj.Abs). The oracle walks the parser's tree and compares the resulting
// namespace two-sidedly with that model, plus every method invocation.

import (
	"os"
	"bytes"
	"fmt"
	"io"
	"sort"
	"strings"
	"testing"

	"pgregory.net/rapid"
	"verifharness/vlib"
)

type c11Case struct {
	Tables [][]amlObj `json:"tables"`
	// OneParser: all tables are loaded through one Parser (as the package's own test loads
	// DSDT and SSDT); otherwise each table gets a new Parser on the same tree
	OneParser bool `json:"oneparser,omitempty"`
	// Poison (with OneParser): before the program is loaded the parser is given a small table
	// that it has to reject while working on a deferred block (Name(ZZZ0, Buffer(<Break>){}));
	// the program must then be parsed as if nothing had happened
	Poison bool `json:"poison,omitempty"`
}

// ---------------------------------------------------------------------------
// expected namespace (from the AST)

type c11Expect struct {
	table int // index of the table that declares the object
	obj  *amlObj
	kind string // device thermal processor power method name opregion mutex event fieldunit
	fld  *c11FieldExpect
}

type c11FieldExpect struct {
	offset, width                                  uint32
	accessType, accessAttrib, lockType, updateType uint8
	conn                                           *amlFieldElem // connection in effect (nil = none)
}

func c11JoinPath(scope, name string) string {
	if scope == "\\" {
		return "\\" + name
	}
	return scope + "." + name
}

// c11Collect walks the AST and records every named object under its absolute
// path. Field units land in the scope of their Field/IndexField.
// c11CollectTable is the index of the table c11Collect is walking.
var c11CollectTable int

func c11Collect(objs []amlObj, lexScope string, out map[string]c11Expect) error {
	for i := range objs {
		o := &objs[i]
		switch o.K {
		case "scope":
			if err := c11Collect(o.Body, o.Abs, out); err != nil {
				return err
			}
		case "field", "indexfield":
			flags := o.Flags
			acc, lock, upd := flags&0xf, (flags>>4)&1, (flags>>5)&3
			var attrib uint8
			var off uint32
			var conn *amlFieldElem
			for ei := range o.Elems {
				e := o.Elems[ei]
				switch e.K {
				case "connbuf", "connname":
					conn = &o.Elems[ei]
				case "reserved":
					off += e.Bits
				case "access":
					acc, attrib = e.Type, e.Attrib
				case "named":
					p := c11JoinPath(o.Abs, e.Name)
					if _, dup := out[p]; dup {
						return fmt.Errorf("duplicate %s", p)
					}
					out[p] = c11Expect{table: c11CollectTable, obj: o, kind: "fieldunit", fld: &c11FieldExpect{off, e.Bits, acc, attrib, lock, upd, conn}}
					off += e.Bits
				}
			}
		default:
			if _, dup := out[o.Abs]; dup {
				return fmt.Errorf("duplicate %s", o.Abs)
			}
			out[o.Abs] = c11Expect{table: c11CollectTable, obj: o, kind: o.K}
			if len(o.Body) > 0 {
				if err := c11Collect(o.Body, o.Abs, out); err != nil {
					return err
				}
			}
			if o.K == "method" {
				// objects declared by the method body live in the method's scope;
				// If / Else / While do not open a scope
				if err := c11CollectStmts(o.Stmts, o.Abs, out); err != nil {
					return err
				}
			}
		}
	}
	return nil
}

func c11CollectStmts(l []amlStmt, scope string, out map[string]c11Expect) error {
	for i := range l {
		s := &l[i]
		if s.K == "decl" {
			if err := c11Collect([]amlObj{*s.Obj}, scope, out); err != nil {
				return err
			}
		}
		if err := c11CollectStmts(s.Body, scope, out); err != nil {
			return err
		}
		if err := c11CollectStmts(s.Else, scope, out); err != nil {
			return err
		}
	}
	return nil
}

// ---------------------------------------------------------------------------
// namespace view of the parser's tree

var c11NamedKinds = map[uint16]string{
	pOpDevice: "device", pOpThermalZone: "thermal", pOpProcessor: "processor", pOpPowerRes: "power",
	pOpMethod: "method", pOpName: "name", pOpOpRegion: "opregion", pOpMutex: "mutex", pOpEvent: "event",
	pOpIntNamedField: "fieldunit",
}

// c11ScopeOf returns the object whose children form obj's scope: a scope block
// itself, or the nested scope block of a device-like object.
func c11ScopeOf(tree *ObjectTree, obj *Object) *Object {
	if obj.opcode == pOpIntScopeBlock {
		return obj
	}
	for i := obj.firstArgIndex; i != InvalidIndex; i = tree.ObjectAt(i).nextSiblingIndex {
		if c := tree.ObjectAt(i); c.opcode == pOpIntScopeBlock {
			return c
		}
	}
	return nil
}

func c11View(tree *ObjectTree, scope *Object, path string, out map[string]*Object, visited map[uint32]bool) error {
	if visited[scope.index] {
		return fmt.Errorf("object %d reachable twice (tree has a cycle)", scope.index)
	}
	visited[scope.index] = true
	for i := scope.firstArgIndex; i != InvalidIndex; i = tree.ObjectAt(i).nextSiblingIndex {
		c := tree.ObjectAt(i)
		if c == nil {
			return fmt.Errorf("freed object linked below %s", path)
		}
		_, named := c11NamedKinds[c.opcode]
		if c.opcode == pOpIntScopeBlock && c.name != [4]byte{} {
			named = true // predefined scope
		}
		if !named {
			continue
		}
		p := c11JoinPath(path, string(c.name[:]))
		if _, dup := out[p]; dup {
			return fmt.Errorf("two objects at %s", p)
		}
		out[p] = c
		if s := c11ScopeOf(tree, c); s != nil && c.opcode != pOpMethod {
			if err := c11View(tree, s, p, out, visited); err != nil {
				return err
			}
		} else if s != nil {
			if err := c11ViewMethod(tree, s, p, out, visited); err != nil {
				return err
			}
		}
	}
	return nil
}

// c11ViewMethod records the named objects declared by a method body under the
// method's path. Statements that are not named objects (If, Else, While and
// their blocks) are walked through: they do not open a namespace scope.
func c11ViewMethod(tree *ObjectTree, node *Object, path string, out map[string]*Object, visited map[uint32]bool) error {
	if visited[node.index] {
		return fmt.Errorf("object %d reachable twice (tree has a cycle)", node.index)
	}
	visited[node.index] = true
	for i := node.firstArgIndex; i != InvalidIndex; i = tree.ObjectAt(i).nextSiblingIndex {
		c := tree.ObjectAt(i)
		if c == nil {
			return fmt.Errorf("freed object linked below %s", path)
		}
		if _, named := c11NamedKinds[c.opcode]; named {
			p := c11JoinPath(path, string(c.name[:]))
			if _, dup := out[p]; dup {
				return fmt.Errorf("two objects at %s", p)
			}
			out[p] = c
			continue
		}
		if c.opcode == pOpIntNamePath {
			continue
		}
		if err := c11ViewMethod(tree, c, path, out, visited); err != nil {
			return err
		}
	}
	return nil
}

// ---------------------------------------------------------------------------
// structural comparison helpers

func c11Args(tree *ObjectTree, o *Object) []*Object {
	var l []*Object
	for i := o.firstArgIndex; i != InvalidIndex; i = tree.ObjectAt(i).nextSiblingIndex {
		l = append(l, tree.ObjectAt(i))
	}
	return l
}

var c11ConstOps = map[string]uint16{"zero": pOpZero, "one": pOpOne, "ones": pOpOnes, "byte": pOpBytePrefix, "word": pOpWordPrefix, "dword": pOpDwordPrefix, "qword": pOpQwordPrefix}

func c11CheckConst(o *Object, kind string, v uint64, what string) error {
	if o.opcode != c11ConstOps[kind] {
		return fmt.Errorf("%s: parsed as %s, program has a %s constant", what, pOpcodeName(o.opcode), kind)
	}
	switch kind {
	case "zero", "one", "ones":
		return nil
	}
	got, ok := o.value.(uint64)
	if !ok || got != amlConstValue(kind, v) {
		return fmt.Errorf("%s: value %v, program encodes %#x", what, o.value, amlConstValue(kind, v))
	}
	return nil
}

// c11PathOf / c11NameToPath describe the namespace view of the case being
// checked (object index -> path, unique name -> path); set by c11Run.
var (
	c11PathOf     map[uint32]string
	c11NameToPath map[string]string
)

func c11CheckData(tree *ObjectTree, o *Object, d *amlData, what string) error {
	switch d.K {
	case "zero", "one", "ones", "byte", "word", "dword", "qword":
		return c11CheckConst(o, d.K, d.V, what)
	case "string":
		if o.opcode != pOpStringPrefix {
			return fmt.Errorf("%s: parsed as %s, program has a string", what, pOpcodeName(o.opcode))
		}
		if got, ok := o.value.([]byte); !ok || !bytes.Equal(got, d.S) {
			return fmt.Errorf("%s: string %q, program encodes %q", what, o.value, d.S)
		}
	case "buffer":
		if o.opcode != pOpBuffer {
			return fmt.Errorf("%s: parsed as %s, program has a buffer", what, pOpcodeName(o.opcode))
		}
		args := c11Args(tree, o)
		if len(args) != 2 {
			return fmt.Errorf("%s: buffer has %d args, want size + byte list", what, len(args))
		}
		if err := c11CheckConst(args[0], amlBufLenKind(d.V), d.V, what+" buffer size"); err != nil {
			return err
		}
		if got, ok := args[1].value.([]byte); args[1].opcode != pOpIntByteList || !ok || !bytes.Equal(got, d.bytes()) {
			return fmt.Errorf("%s: buffer initialiser (%d bytes) differs from the %d bytes the program encodes", what, len(got), len(d.bytes()))
		}
	case "nameref":
		// a package element that names another object: bound to exactly that object
		idx, ok := o.value.(uint32)
		if o.opcode != pOpIntResolvedNamePath || !ok {
			return fmt.Errorf("%s: reference to %s parsed as %s", what, d.S, pOpcodeName(o.opcode))
		}
		if want := c11NameToPath[string(d.S)]; c11PathOf[idx] != want || want == "" {
			return fmt.Errorf("%s: reference to %s resolved to %q, want %q", what, d.S, c11PathOf[idx], want)
		}
	case "package":
		if o.opcode != pOpPackage {
			return fmt.Errorf("%s: parsed as %s, program has a package", what, pOpcodeName(o.opcode))
		}
		args := c11Args(tree, o)
		if len(args) != 2 || args[1].opcode != pOpIntScopeBlock {
			return fmt.Errorf("%s: package has %d args, want count + element list", what, len(args))
		}
		if err := c11CheckConst(args[0], "byte", uint64(len(d.Elems)), what+" package count"); err != nil {
			return err
		}
		elems := c11Args(tree, args[1])
		if len(elems) != len(d.Elems) {
			return fmt.Errorf("%s: package has %d elements, program encodes %d", what, len(elems), len(d.Elems))
		}
		for i := range elems {
			if err := c11CheckData(tree, elems[i], &d.Elems[i], fmt.Sprintf("%s[%d]", what, i)); err != nil {
				return err
			}
		}
	}
	return nil
}

func c11CheckNamePath(o *Object, want amlName, what string) error {
	got, ok := o.value.([]byte)
	if o.opcode != pOpIntNamePath || !ok {
		return fmt.Errorf("%s: not a name path (%s)", what, pOpcodeName(o.opcode))
	}
	// after relocation the parser keeps only the last segment
	if string(got) != want.last() && !bytes.Equal(got, want.encode()) {
		return fmt.Errorf("%s: name path %q, program has %s", what, got, want)
	}
	return nil
}

// c11CheckObject compares a namespace object with its declaration.
func c11CheckObject(tree *ObjectTree, o *Object, e c11Expect, path string) error {
	if c11NamedKinds[o.opcode] != e.kind {
		return fmt.Errorf("%s is a %s, the program declares a %s", path, pOpcodeName(o.opcode), e.kind)
	}
	args := c11Args(tree, o)
	d := e.obj
	need := func(n int) error {
		if len(args) != n {
			return fmt.Errorf("%s (%s) has %d args, want %d", path, e.kind, len(args), n)
		}
		return nil
	}
	scopeArg := func(a *Object) error {
		if a.opcode != pOpIntScopeBlock {
			return fmt.Errorf("%s: last arg is %s, want the object's scope block", path, pOpcodeName(a.opcode))
		}
		return nil
	}
	switch e.kind {
	case "fieldunit":
		fe, ok := o.value.(*fieldElement)
		if !ok {
			return fmt.Errorf("%s: field unit without field element", path)
		}
		w := e.fld
		if fe.offset != w.offset || fe.width != w.width || fe.accessType != w.accessType || fe.accessAttrib != w.accessAttrib || fe.lockType != w.lockType || fe.updateType != w.updateType {
			return fmt.Errorf("%s: field unit offset=%d width=%d access=%d attrib=%d lock=%d update=%d; program encodes offset=%d width=%d access=%d attrib=%d lock=%d update=%d",
				path, fe.offset, fe.width, fe.accessType, fe.accessAttrib, fe.lockType, fe.updateType, w.offset, w.width, w.accessType, w.accessAttrib, w.lockType, w.updateType)
		}
		if w.conn == nil {
			if fe.connectionIndex != InvalidIndex {
				return fmt.Errorf("%s: field unit has a connection (object %d), the program declares none before it", path, fe.connectionIndex)
			}
			return nil
		}
		co := tree.ObjectAt(fe.connectionIndex)
		if co == nil || co.opcode != pOpIntConnection {
			return fmt.Errorf("%s: field unit is declared after a Connection but refers to no connection object", path)
		}
		cargs := c11Args(tree, co)
		if len(cargs) != 1 {
			return fmt.Errorf("%s: connection object has %d args, want 1", path, len(cargs))
		}
		got, _ := cargs[0].value.([]byte)
		if w.conn.K == "connbuf" {
			if cargs[0].opcode != pOpIntByteList || !bytes.Equal(got, w.conn.Data) {
				return fmt.Errorf("%s: connection buffer %v, program encodes %v", path, got, w.conn.Data)
			}
		} else if cargs[0].opcode != pOpIntNamePath || string(got) != w.conn.Name {
			return fmt.Errorf("%s: connection name %q, program has %q", path, got, w.conn.Name)
		}
		return nil
	case "device", "thermal":
		if err := need(2); err != nil {
			return err
		}
		return scopeArg(args[1])
	case "processor":
		if err := need(5); err != nil {
			return err
		}
		for i, c := range []struct {
			k string
			v uint64
		}{{"byte", uint64(d.ProcID)}, {"dword", uint64(d.PblkAddr)}, {"byte", uint64(d.PblkLen)}} {
			if err := c11CheckConst(args[1+i], c.k, c.v, fmt.Sprintf("%s arg %d", path, 1+i)); err != nil {
				return err
			}
		}
		return scopeArg(args[4])
	case "power":
		if err := need(4); err != nil {
			return err
		}
		if err := c11CheckConst(args[1], "byte", uint64(d.SysLevel), path+" system level"); err != nil {
			return err
		}
		if err := c11CheckConst(args[2], "word", uint64(d.ResOrder), path+" resource order"); err != nil {
			return err
		}
		return scopeArg(args[3])
	case "method":
		if err := need(3); err != nil {
			return err
		}
		if err := c11CheckConst(args[1], "byte", uint64(byte(d.Argc&7)|d.Flags&^7), path+" method flags"); err != nil {
			return err
		}
		return scopeArg(args[2])
	case "name":
		if err := need(2); err != nil {
			return err
		}
		return c11CheckData(tree, args[1], d.Data, path)
	case "opregion":
		if err := need(4); err != nil {
			return err
		}
		if err := c11CheckConst(args[1], "byte", uint64(d.Space), path+" space"); err != nil {
			return err
		}
		if err := c11CheckConst(args[2], d.OffK, d.Offset, path+" offset"); err != nil {
			return err
		}
		return c11CheckConst(args[3], d.LenK, d.Len, path+" length")
	case "mutex":
		if err := need(2); err != nil {
			return err
		}
		return c11CheckConst(args[1], "byte", uint64(d.Flags), path+" sync level")
	case "event":
		return need(1)
	}
	return nil
}

// ---------------------------------------------------------------------------
// method invocations

type c11Call struct {
	method string // absolute path of the callee
	expr   *amlExpr
	in     string // absolute path of the calling method
}

func c11CallsInExpr(e *amlExpr, in string, callee map[string]string, out *[]c11Call) {
	if e == nil {
		return
	}
	if e.K == "call" {
		*out = append(*out, c11Call{callee[e.Name], e, in})
	}
	for i := range e.Args {
		c11CallsInExpr(&e.Args[i], in, callee, out)
	}
	c11CallsInExpr(e.Target, in, callee, out)
}

func c11CallsInStmts(l []amlStmt, in string, callee map[string]string, out *[]c11Call) {
	for i := range l {
		s := &l[i]
		switch s.K {
		case "notify", "wait", "acquire":
			// encoded as (target, expr)
			c11CallsInExpr(s.T, in, callee, out)
			c11CallsInExpr(s.E, in, callee, out)
		default:
			c11CallsInExpr(s.E, in, callee, out)
			c11CallsInExpr(s.T, in, callee, out)
		}
		c11CallsInStmts(s.Body, in, callee, out)
		c11CallsInStmts(s.Else, in, callee, out)
	}
}

func c11Subtree(tree *ObjectTree, o *Object, visit func(*Object)) {
	visit(o)
	for i := o.firstArgIndex; i != InvalidIndex; i = tree.ObjectAt(i).nextSiblingIndex {
		c11Subtree(tree, tree.ObjectAt(i), visit)
	}
}

// c11CheckExpr compares a parsed term with a generated expression.
func c11CheckExpr(tree *ObjectTree, o *Object, e *amlExpr, paths map[uint32]string, names map[string]string, what string) error {
	switch e.K {
	case "data":
		return c11CheckData(tree, o, e.Data, what)
	case "local":
		if o.opcode != pOpLocal0+uint16(e.N) {
			return fmt.Errorf("%s: parsed as %s, program has Local%d", what, pOpcodeName(o.opcode), e.N)
		}
	case "arg":
		if o.opcode != pOpArg0+uint16(e.N) {
			return fmt.Errorf("%s: parsed as %s, program has Arg%d", what, pOpcodeName(o.opcode), e.N)
		}
	case "ref":
		idx, ok := o.value.(uint32)
		if o.opcode != pOpIntResolvedNamePath || !ok {
			return fmt.Errorf("%s: reference to %s parsed as %s", what, e.Name, pOpcodeName(o.opcode))
		}
		if paths[idx] != names[e.Name] {
			return fmt.Errorf("%s: reference to %s resolved to %q, want %q", what, e.Name, paths[idx], names[e.Name])
		}
	case "call":
		idx, ok := o.value.(uint32)
		if o.opcode != pOpIntMethodCall || !ok {
			return fmt.Errorf("%s: invocation of %s parsed as %s", what, e.Name, pOpcodeName(o.opcode))
		}
		if paths[idx] != names[e.Name] {
			return fmt.Errorf("%s: invocation of %s bound to %q, want %q", what, e.Name, paths[idx], names[e.Name])
		}
		args := c11Args(tree, o)
		if len(args) != len(e.Args) {
			return fmt.Errorf("%s: invocation of %s has %d arguments attached, the method declares %d", what, e.Name, len(args), len(e.Args))
		}
		for i := range args {
			if err := c11CheckExpr(tree, args[i], &e.Args[i], paths, names, fmt.Sprintf("%s arg %d of %s", what, i, e.Name)); err != nil {
				return err
			}
		}
	case "binop", "cmp", "lnot", "unop", "term1", "index", "divide", "const0":
		var op uint16
		opOf := func(b []byte) uint16 {
			if len(b) == 2 {
				return 0xff + uint16(b[1])
			}
			return uint16(b[0])
		}
		switch e.K {
		case "binop":
			op = uint16(amlBinOps[e.Op])
		case "cmp":
			op = uint16(amlCmpOps[e.Op])
		case "unop":
			op = opOf(amlUnOps[e.Op])
		case "term1", "const0":
			op = opOf(amlTerm1Ops[e.Op])
		case "index":
			op = pOpIndex
		case "divide":
			op = pOpDivide
		default:
			op = pOpLnot
		}
		if o.opcode != op {
			return fmt.Errorf("%s: parsed as %s, program has %s", what, pOpcodeName(o.opcode), e.Op)
		}
		args := c11Args(tree, o)
		if len(args) < len(e.Args) {
			return fmt.Errorf("%s: operator %s has %d operands attached, want %d", what, e.Op, len(args), len(e.Args))
		}
		for i := range e.Args {
			if err := c11CheckExpr(tree, args[i], &e.Args[i], paths, names, fmt.Sprintf("%s operand %d of %s", what, i, e.Op)); err != nil {
				return err
			}
		}
	}
	return nil
}

// ---------------------------------------------------------------------------
// run

type c11Stats struct {
	scopeDirectives, relocated, callsWithArgs, forwardCalls, nestedCalls, nonMinimalPkg, deferred int
	tables, hugePkg, miscStmts, miscExprs, methodDecls, rootScopes, pkgRefs, shadowed          int
	deepChain                                                                                   int // levels of the chain of nested devices, if any
	homonyms, foreign                                                                           int
}

func c11Run(c c11Case) (fail *vlib.Failure, errLog string) {
	defer vlib.Guard("C11", c, nil)()
	tree := NewObjectTree()
	tree.CreateDefaultScopes(42)
	var keep [][]byte
	var errs bytes.Buffer
	var shared *Parser
	if c.OneParser {
		shared = NewParser(&errs, tree)
	}
	if c.Poison && shared != nil {
		buf, hdr := amlTable("SSDT", []byte{0x08, 'Z', 'Z', 'Z', '0', 0x11, 0x03, 0xa5, 0x00})
		keep = append(keep, buf)
		rejected := false
		if pc := vlib.Catch(func() { rejected = shared.ParseAML(200, "SSDT", hdr) != nil }); pc.Panicked {
			return vlib.Failf("parsing the (malformed) table that precedes the program crashed: %v", pc), errs.String()
		}
		if !rejected {
			return vlib.Failf("VERIF-HARNESS the malformed table that precedes the program was accepted"), ""
		}
		errs.Reset()
	}
	for ti, objs := range c.Tables {
		sig := "DSDT"
		if ti > 0 {
			sig = "SSDT"
		}
		buf, hdr := amlTable(sig, amlEncodeObjs(objs))
		keep = append(keep, buf)
		var perr error
		pc := vlib.Catch(func() {
			p := shared
			if p == nil {
				p = NewParser(&errs, tree)
			}
			if e := p.ParseAML(uint8(ti+1), sig, hdr); e != nil {
				perr = e
			}
		})
		if pc.Panicked {
			return vlib.Failf("parsing well-formed table %d crashed: %v", ti, pc), errs.String()
		}
		if perr != nil {
			return vlib.Failf("parsing well-formed table %d failed: %v; parser log: %s", ti, perr, strings.TrimSpace(errs.String())), errs.String()
		}
	}
	_ = keep

	// a well-formed program must also leave a well-formed tree. (Whether the strings and buffers
	// the tree holds are views of the table's bytes or copies is C12's clause, decided by the C12
	// check; C11 says they carry the encoded values, which the comparison above has done.)
	if d := c12TreeInvariants(tree); d != "" {
		return vlib.Failf("after parsing a well-formed program the tree is no longer well-formed: %s", d), ""
	}
	if pc := vlib.Catch(func() { tree.PrettyPrint(io.Discard) }); pc.Panicked {
		return vlib.Failf("the tree of a well-formed program cannot be printed: %v", pc), ""
	}

	if os.Getenv("VERIF_C11_DUMP") != "" {
		tree.PrettyPrint(os.Stdout)
	}
	expect := map[string]c11Expect{}
	for ti, objs := range c.Tables {
		c11CollectTable = ti
		if err := c11Collect(objs, "\\", expect); err != nil {
			return vlib.Failf("VERIF-HARNESS generator produced an ill-formed program: %v", err), ""
		}
	}
	view := map[string]*Object{}
	if err := c11View(tree, tree.ObjectAt(0), "\\", view, map[uint32]bool{}); err != nil {
		return vlib.Failf("namespace walk: %v", err), ""
	}
	for _, p := range []string{"\\_GPE", "\\_PR_", "\\_SB_", "\\_SI_", "\\_TZ_"} {
		if _, ok := view[p]; !ok {
			return vlib.Failf("predefined scope %s disappeared from the namespace", p), ""
		}
		delete(view, p)
	}
	c11PathOf, c11NameToPath = map[uint32]string{}, map[string]string{}
	for p, o := range view {
		c11PathOf[o.index] = p
		c11NameToPath[string(o.name[:])] = p
	}
	var paths []string
	for p := range expect {
		paths = append(paths, p)
	}
	sort.Strings(paths)
	for _, p := range paths {
		o, ok := view[p]
		if !ok {
			return vlib.Failf("object %s (%s) is not in the namespace at that path; namespace has: %s", p, expect[p].kind, c11Near(view, p)), ""
		}
		if err := c11CheckObject(tree, o, expect[p], p); err != nil {
			return vlib.Failf("%v", err), ""
		}
	}
	var extra []string
	for p := range view {
		if _, ok := expect[p]; !ok {
			if c.Poison && view[p].tableHandle == 200 {
				continue // what the rejected table left behind is not the program's
			}
			extra = append(extra, p)
		}
	}
	if len(extra) > 0 {
		sort.Strings(extra)
		return vlib.Failf("the namespace contains %s which the program does not declare there", extra[0]), ""
	}

	// method invocations
	pathOf := map[uint32]string{}
	nameToPath := map[string]string{}
	for p, o := range view {
		pathOf[o.index] = p
		nameToPath[string(o.name[:])] = p
	}
	for _, p := range paths {
		e := expect[p]
		if e.kind != "method" {
			continue
		}
		// simple names used by this method: the innermost enclosing scope that declares the
		// name wins (names other than shadowed method names are unique)
		names := map[string]string{}
		for q := range expect {
			sc, nm := c11ScopeOfAbs(q), q[strings.LastIndexAny(q, ".\\")+1:]
			if !(sc == p || c11Visible(sc, p)) || expect[q].table > e.table {
				continue // not in an enclosing scope, or declared by a table loaded later
			}
			if old, ok := names[nm]; !ok || len(c11ScopeOfAbs(old)) < len(sc) {
				names[nm] = q
			}
		}
		for nm, q := range nameToPath {
			if _, ok := names[nm]; !ok {
				names[nm] = q
			}
		}
		var want []c11Call
		c11CallsInStmts(e.obj.Stmts, p, names, &want)
		// top-level invocations only (nested ones are compared through their parent)
		top := map[*amlExpr]bool{}
		for _, w := range want {
			top[w.expr] = true
		}
		for _, w := range want {
			for i := range w.expr.Args {
				c11MarkNested(&w.expr.Args[i], top)
			}
		}
		var got []*Object
		mobj := view[p]
		c11Subtree(tree, mobj, func(o *Object) {
			if o.opcode == pOpIntMethodCall {
				if par := tree.ObjectAt(o.parentIndex); par == nil || !c11InsideCall(tree, o) {
					got = append(got, o)
				}
			}
		})
		sort.Slice(got, func(i, j int) bool { return got[i].amlOffset < got[j].amlOffset })
		var wantTop []c11Call
		for _, w := range want {
			if top[w.expr] {
				wantTop = append(wantTop, w)
			}
		}
		if len(got) != len(wantTop) {
			return vlib.Failf("method %s: the program makes %d (outermost) method invocations, the parsed tree has %d", p, len(wantTop), len(got)), ""
		}
		for i := range got {
			if err := c11CheckExpr(tree, got[i], wantTop[i].expr, pathOf, names, fmt.Sprintf("method %s invocation #%d", p, i)); err != nil {
				return vlib.Failf("%v", err), ""
			}
		}
	}
	return nil, ""
}

func c11MarkNested(e *amlExpr, top map[*amlExpr]bool) {
	if e == nil {
		return
	}
	if e.K == "call" {
		top[e] = false
	}
	for i := range e.Args {
		c11MarkNested(&e.Args[i], top)
	}
	c11MarkNested(e.Target, top)
}

// c11InsideCall reports whether o has a method-call ancestor (then it is an
// argument, compared through that ancestor).
func c11InsideCall(tree *ObjectTree, o *Object) bool {
	for i := o.parentIndex; i != InvalidIndex; {
		p := tree.ObjectAt(i)
		if p == nil {
			return false
		}
		if p.opcode == pOpIntMethodCall {
			return true
		}
		if p.opcode == pOpMethod {
			return false
		}
		i = p.parentIndex
	}
	return false
}

func c11Near(view map[string]*Object, p string) string {
	name := p[strings.LastIndexAny(p, ".\\")+1:]
	var hits []string
	for q := range view {
		if strings.HasSuffix(q, name) {
			hits = append(hits, q)
		}
	}
	sort.Strings(hits)
	if len(hits) == 0 {
		return "no object with that name"
	}
	return strings.Join(hits, ", ")
}

func TestVerifC11Replay(t *testing.T) {
	var c c11Case
	ok, err := vlib.LoadReplay(&c)
	if !ok {
		t.Skip("no replay requested")
	}
	if err != nil {
		t.Fatalf("VERIF-HARNESS cannot load replay: %v", err)
	}
	fail, _ := c11Run(c)
	vlib.Report(t, "C11", c, fail)
}

var _ = rapid.Check
