//go:build verif && go1.21

package aml

// C12 — malformed AML is rejected with an error, never a crash, hang or stray
// pointer; the tree stays a well-formed tree that can be traversed and printed.
//
// Every parse runs in a persistent child process (this test binary in worker
// mode) because a stack overflow is a fatal error in Go, not a panic.

import (
	"bufio"
	"bytes"
	"encoding/binary"
	"encoding/json"
	"fmt"
	"io"
	"os"
	"strconv"
	"os/exec"
	"path/filepath"
	"reflect"
	"runtime/debug"
	"strings"
	"sync"
	"testing"
	"time"
	"unsafe"

	"pgregory.net/rapid"
	"verifharness/vlib"
)

type c12Verdict struct {
	Outcome string `json:"outcome"` // ok rejected panic stray broken-tree print-panic other-error
	Detail  string `json:"detail,omitempty"`
	Objects int    `json:"objects"`
	PrintPanicAfterReject bool `json:"print_panic_after_reject,omitempty"`
}

// c12Check parses the tables (each an AML body without header) into one tree
// and checks the post-conditions. It runs inside the worker.
//
// mode 0: a new Parser per table, stop at the first rejected table; mode 1: one Parser for all
// tables (as the package's own multi-table test loads DSDT then SSDT), stop at the first rejected
// table; mode 2: one Parser for all tables, and the tables after a rejected one are presented as
// well - each of them is still "a byte sequence presented as an AML table".
func c12Check(tables [][]byte, mode int) (v c12Verdict) {
	tree := NewObjectTree()
	tree.CreateDefaultScopes(42)
	var shared *Parser
	if mode != 0 {
		shared = NewParser(io.Discard, tree)
	}
	var bufs [][]byte
	defer func() {
		if r := recover(); r != nil {
			v.Outcome = "panic"
			v.Detail = fmt.Sprintf("%v\n%s", r, c12Stack())
		}
	}()
	rejected := false
	for i, body := range tables {
		sig := "DSDT"
		if i > 0 {
			sig = "SSDT"
		}
		buf, hdr := amlTable(sig, body)
		bufs = append(bufs, buf)
		p := shared
		if p == nil {
			p = NewParser(io.Discard, tree)
		}
		err := p.ParseAML(uint8(i+1), sig, hdr)
		if err != nil {
			if err != errParsingAML {
				return c12Verdict{Outcome: "other-error", Detail: err.Message}
			}
			rejected = true
			if mode != 2 {
				break
			}
		}
	}
	v.Objects = len(tree.objPool)
	total := 0
	for _, b := range tables {
		total += len(b)
	}
	if v.Objects > 64+2*total {
		// every object the parser creates stands for at least one byte of the table it came
		// from; far more objects than bytes means that bytes were parsed over and over
		return c12Verdict{Outcome: "blowup", Objects: v.Objects,
			Detail: fmt.Sprintf("%d objects for %d bytes of AML (6 of them predefined): parts of the input were parsed again and again, the work is not bounded by the size of the input", v.Objects, total)}
	}
	if d := c12StraySlices(tree, bufs); d != "" {
		return c12Verdict{Outcome: "stray", Detail: d, Objects: v.Objects}
	}
	if d := c12TreeInvariants(tree); d != "" {
		return c12Verdict{Outcome: "broken-tree", Detail: d, Objects: v.Objects}
	}
	printPanicked := false
	func() {
		defer func() {
			if r := recover(); r != nil {
				printPanicked = true
				v.Detail = fmt.Sprintf("PrettyPrint: %v\n%s", r, c12Stack())
			}
		}()
		tree.PrettyPrint(io.Discard)
	}()
	if rejected {
		v.Outcome = "rejected"
		v.PrintPanicAfterReject = printPanicked
		v.Detail = ""
		return v
	}
	if printPanicked {
		v.Outcome = "print-panic"
		return v
	}
	v.Outcome = "ok"
	return v
}

func c12Stack() string {
	st := string(debug.Stack())
	var out []string
	lines := strings.Split(st, "\n")
	for i := 0; i+1 < len(lines); i++ {
		l := lines[i]
		if !strings.Contains(l, "firefly/kernel") || strings.Contains(l, "c12") {
			continue
		}
		if j := strings.LastIndex(l, "("); j > 0 {
			l = l[:j]
		}
		loc := strings.TrimSpace(lines[i+1])
		if j := strings.Index(loc, " +0x"); j > 0 {
			loc = loc[:j]
		}
		out = append(out, "  "+l+" ("+filepath.Base(loc)+")")
		if len(out) >= 6 {
			break
		}
	}
	return strings.Join(out, "\n")
}

// c12StraySlices reports a byte slice stored in the tree that does not lie
// inside one of the tables.
func c12StraySlices(tree *ObjectTree, bufs [][]byte) string {
	inside := func(p uintptr, n int) bool {
		if n == 0 {
			return true
		}
		for _, b := range bufs {
			lo := uintptr(unsafe.Pointer(&b[0]))
			hi := lo + uintptr(len(b))
			if p >= lo && p+uintptr(n) <= hi && p+uintptr(n) >= p {
				return true
			}
		}
		return false
	}
	for _, o := range tree.objPool {
		if o.opcode == pOpIntFreedObject {
			continue
		}
		if b, ok := o.value.([]byte); ok {
			h := (*reflect.SliceHeader)(unsafe.Pointer(&b))
			if !inside(h.Data, h.Len) {
				where := "outside the table"
				for _, t := range bufs {
					lo := uintptr(unsafe.Pointer(&t[0]))
					if h.Data >= lo && h.Data <= lo+uintptr(len(t)) {
						where = fmt.Sprintf("starts at table offset %d, length %d, table length %d", h.Data-lo, h.Len, len(t))
					}
				}
				if h.Data == 0 {
					where = fmt.Sprintf("nil data pointer with length %d", h.Len)
				}
				return fmt.Sprintf("object %d (%s) refers to bytes that do not lie inside the table: %s", o.index, pOpcodeName(o.opcode), where)
			}
		}
	}
	return ""
}

// c12TreeInvariants checks that the pool describes a forest of well-formed
// child lists with the root tree free of cycles and freed objects.
func c12TreeInvariants(tree *ObjectTree) string {
	n := uint32(len(tree.objPool))
	live := func(i uint32) bool { return i < n && tree.objPool[i].opcode != pOpIntFreedObject }
	for _, o := range tree.objPool {
		if o.opcode == pOpIntFreedObject {
			continue
		}
		// child chain
		count := uint32(0)
		prev := InvalidIndex
		for c := o.firstArgIndex; c != InvalidIndex; {
			if !live(c) {
				return fmt.Sprintf("object %d has child %d which is freed or out of range", o.index, c)
			}
			ch := tree.objPool[c]
			if ch.parentIndex != o.index {
				return fmt.Sprintf("object %d lists child %d whose parent link is %d", o.index, c, ch.parentIndex)
			}
			if ch.prevSiblingIndex != prev {
				return fmt.Sprintf("child %d of object %d has previous-sibling link %d, the list order says %d", c, o.index, ch.prevSiblingIndex, prev)
			}
			prev = c
			c = ch.nextSiblingIndex
			if count++; count > n {
				return fmt.Sprintf("child list of object %d does not end (cycle)", o.index)
			}
		}
		if o.lastArgIndex != prev {
			return fmt.Sprintf("object %d: last-child link is %d, the child list ends at %d", o.index, o.lastArgIndex, prev)
		}
		if o.parentIndex != InvalidIndex {
			if !live(o.parentIndex) {
				return fmt.Sprintf("object %d has parent %d which is freed or out of range", o.index, o.parentIndex)
			}
			found := false
			steps := uint32(0)
			for c := tree.objPool[o.parentIndex].firstArgIndex; c != InvalidIndex && steps <= n; c, steps = tree.objPool[c].nextSiblingIndex, steps+1 {
				if !live(c) {
					break
				}
				if c == o.index {
					found = true
					break
				}
			}
			if !found {
				return fmt.Sprintf("object %d names %d as its parent but is not in that object's child list", o.index, o.parentIndex)
			}
		}
	}
	// ancestors: no object is its own ancestor
	for _, o := range tree.objPool {
		if o.opcode == pOpIntFreedObject {
			continue
		}
		steps := uint32(0)
		for p := o.parentIndex; p != InvalidIndex; p = tree.objPool[p].parentIndex {
			if p == o.index {
				return fmt.Sprintf("object %d (%s) is its own ancestor", o.index, pOpcodeName(o.opcode))
			}
			if steps++; steps > n {
				return fmt.Sprintf("parent chain of object %d does not end", o.index)
			}
		}
	}
	return ""
}

// ---------------------------------------------------------------------------
// worker process

func TestVerifC12Worker(t *testing.T) {
	if os.Getenv("VERIF_C12_WORKER") != "1" {
		t.Skip("worker mode only")
	}
	debug.SetMaxStack(64 << 20)
	in := bufio.NewReader(os.Stdin)
	out := bufio.NewWriter(os.Stdout)
	for {
		var nt uint32
		if err := binary.Read(in, binary.LittleEndian, &nt); err != nil {
			return
		}
		mode := int(nt >> 24)
		nt &= 1<<24 - 1
		tables := make([][]byte, nt)
		for i := range tables {
			var l uint32
			if err := binary.Read(in, binary.LittleEndian, &l); err != nil {
				return
			}
			tables[i] = make([]byte, l)
			if _, err := io.ReadFull(in, tables[i]); err != nil {
				return
			}
		}
		v := c12Check(tables, mode)
		b, _ := json.Marshal(v)
		out.WriteString("VERDICT ")
		out.Write(b)
		out.WriteByte('\n')
		out.Flush()
	}
}

type c12Worker struct {
	cmd    *exec.Cmd
	stdin  io.WriteCloser
	stdout *bufio.Reader
	stderr *bytes.Buffer
	mu     sync.Mutex
}

var c12TheWorker *c12Worker

// inputs stay below ~64 KiB and parse in well under 10 ms (the worst quadratic cases in about a
// second); 6 s without a verdict, confirmed twice more in fresh workers, is non-termination
const c12Deadline = 6 * time.Second

var c12HangConfirmed bool

// c12CurrentDeadline: after a hang has been confirmed three times in this process, further
// attempts (rapid shrinking the case) use a short deadline so that shrinking stays bounded.
func c12CurrentDeadline() time.Duration {
	if c12HangConfirmed {
		return 1500 * time.Millisecond
	}
	return c12Deadline
}

func c12Start() (*c12Worker, error) {
	cmd := exec.Command(os.Args[0], "-test.run", "^TestVerifC12Worker$", "-test.timeout", "0")
	cmd.Env = append(os.Environ(), "VERIF_C12_WORKER=1", "VERIF_STATS_DIR=")
	stdin, err := cmd.StdinPipe()
	if err != nil {
		return nil, err
	}
	stdout, err := cmd.StdoutPipe()
	if err != nil {
		return nil, err
	}
	w := &c12Worker{cmd: cmd, stdin: stdin, stdout: bufio.NewReaderSize(stdout, 1<<16), stderr: &bytes.Buffer{}}
	cmd.Stderr = w.stderr
	if err := cmd.Start(); err != nil {
		return nil, err
	}
	return w, nil
}

func (w *c12Worker) kill() {
	w.cmd.Process.Kill()
	w.cmd.Wait()
}

// c12Ask runs the tables in the worker. A dead worker yields outcome "crash",
// a worker that does not answer within the deadline "hang".
func c12Ask(tables [][]byte, mode int) (c12Verdict, error) {
	if c12TheWorker == nil {
		w, err := c12Start()
		if err != nil {
			return c12Verdict{}, err
		}
		c12TheWorker = w
	}
	w := c12TheWorker
	var req bytes.Buffer
	binary.Write(&req, binary.LittleEndian, uint32(len(tables))|uint32(mode)<<24)
	for _, t := range tables {
		binary.Write(&req, binary.LittleEndian, uint32(len(t)))
		req.Write(t)
	}
	type reply struct {
		line string
		err  error
	}
	ch := make(chan reply, 1)
	go func() {
		if _, err := w.stdin.Write(req.Bytes()); err != nil {
			ch <- reply{"", err}
			return
		}
		for {
			line, err := w.stdout.ReadString('\n')
			if err != nil {
				ch <- reply{"", err}
				return
			}
			if strings.HasPrefix(line, "VERDICT ") {
				ch <- reply{line[len("VERDICT "):], nil}
				return
			}
		}
	}()
	// the deadline counts wall-clock time AND the worker's CPU time: a stalled machine must not
	// be mistaken for a parser that does not terminate
	cpu0 := c12WorkerCPU(w.cmd.Process.Pid)
	wallOut := time.After(c12CurrentDeadline())
	expired := make(chan struct{})
	stopPoll := make(chan struct{})
	defer close(stopPoll)
	go func() {
		select {
		case <-wallOut:
		case <-stopPoll:
			return
		}
		for {
			if c12WorkerCPU(w.cmd.Process.Pid)-cpu0 >= c12CurrentDeadline() {
				close(expired)
				return
			}
			select {
			case <-stopPoll:
				return
			case <-time.After(100 * time.Millisecond):
			}
		}
	}()
	select {
	case r := <-ch:
		if r.err != nil {
			w.cmd.Wait()
			st := w.stderr.String()
			c12TheWorker = nil
			return c12Verdict{Outcome: "crash", Detail: c12ClassifyCrash(st)}, nil
		}
		var v c12Verdict
		if err := json.Unmarshal([]byte(r.line), &v); err != nil {
			return c12Verdict{}, fmt.Errorf("bad verdict line %q: %v", r.line, err)
		}
		return v, nil
	case <-expired:
		w.kill()
		c12TheWorker = nil
		return c12Verdict{Outcome: "hang", Detail: fmt.Sprintf("no verdict within %v", c12Deadline)}, nil
	}
}

// c12WorkerCPU is the CPU time (user + system) the worker process has consumed, from
// /proc/<pid>/stat (clock ticks of 10 ms); 0 when it cannot be read.
func c12WorkerCPU(pid int) time.Duration {
	b, err := os.ReadFile(fmt.Sprintf("/proc/%d/stat", pid))
	if err != nil {
		return 0
	}
	// the fields after the parenthesised command name
	i := bytes.LastIndexByte(b, ')')
	if i < 0 {
		return 0
	}
	f := strings.Fields(string(b[i+1:]))
	if len(f) < 13 {
		return 0
	}
	ut, _ := strconv.ParseInt(f[11], 10, 64)
	st, _ := strconv.ParseInt(f[12], 10, 64)
	return time.Duration(ut+st) * 10 * time.Millisecond
}

// c12ClassifyCrash reduces the stderr of a dead worker to a deterministic
// signature: the kind of fatal error and the innermost repeating frames.
func c12ClassifyCrash(stderr string) string {
	kind := "worker died"
	switch {
	case strings.Contains(stderr, "stack overflow") || strings.Contains(stderr, "goroutine stack exceeds"):
		kind = "fatal error: stack overflow"
	case strings.Contains(stderr, "fatal error:"):
		i := strings.Index(stderr, "fatal error:")
		kind = strings.SplitN(stderr[i:], "\n", 2)[0]
	case strings.Contains(stderr, "signal SIGSEGV") || strings.Contains(stderr, "unexpected fault address"):
		kind = "segmentation violation outside Go-managed memory"
	}
	var frames []string
	seen := map[string]bool{}
	for _, l := range strings.Split(stderr, "\n") {
		if !strings.Contains(l, "firefly/kernel/device/acpi/aml.") || strings.Contains(l, "c12") {
			continue
		}
		if j := strings.LastIndex(l, "("); j > 0 {
			l = l[:j]
		}
		l = l[strings.LastIndex(l, "/")+1:]
		if !seen[l] {
			seen[l] = true
			frames = append(frames, l)
		}
		if len(frames) >= 4 {
			break
		}
	}
	return kind + " in " + strings.Join(frames, " <- ")
}

// ---------------------------------------------------------------------------
// cases

type c12Case struct {
	Kind   string   `json:"kind"`
	Tables [][]byte `json:"tables"`
	Mode   int      `json:"mode,omitempty"` // see c12Check
}

func c12Judge(c c12Case) (*vlib.Failure, c12Verdict) {
	v, err := c12Ask(c.Tables, c.Mode)
	if err != nil {
		return vlib.Failf("VERIF-HARNESS worker protocol error: %v", err), v
	}
	if v.Outcome == "hang" && !c12HangConfirmed {
		// confirm twice in fresh workers before calling it non-termination (once per process:
		// while rapid shrinks a confirmed hang, one deadline per attempt is enough)
		for i := 0; i < 2; i++ {
			v2, err := c12Ask(c.Tables, c.Mode)
			if err != nil || v2.Outcome != "hang" {
				return nil, c12Verdict{Outcome: "inconclusive-slow"}
			}
		}
		c12HangConfirmed = true
	}
	switch v.Outcome {
	case "ok", "rejected":
		return nil, v
	case "panic":
		return vlib.Failf("the parser panicked on a %d-byte table: %s", len(c.Tables[len(c.Tables)-1]), v.Detail), v
	case "crash":
		return vlib.Failf("the parser crashed the process on a %d-byte table: %s", len(c.Tables[len(c.Tables)-1]), v.Detail), v
	case "hang":
		return vlib.Failf("the parser did not terminate within %v on a %d-byte table (a hang is confirmed three times in fresh processes before it is reported)", c12Deadline, len(c.Tables[len(c.Tables)-1])), v
	case "blowup":
		return vlib.Failf("after parsing: %s", v.Detail), v
	case "stray":
		return vlib.Failf("after parsing: %s", v.Detail), v
	case "broken-tree":
		return vlib.Failf("after parsing the tree is no longer well-formed: %s", v.Detail), v
	case "print-panic":
		return vlib.Failf("the tree of a successfully parsed table cannot be printed: %s", v.Detail), v
	default:
		return vlib.Failf("ParseAML returned an error other than its parse error: %s", v.Detail), v
	}
}

// c12Interesting bytes: opcodes, prefixes, name characters, PkgLength leads.
var c12Alphabet = []byte{
	0x00, 0x01, 0x06, 0x08, 0x0a, 0x0b, 0x0c, 0x0d, 0x0e, 0x10, 0x11, 0x12, 0x13, 0x14, 0x15,
	0x5b, 0x80, 0x81, 0x82, 0x83, 0x84, 0x85, 0x86, 0x87, 0x88, 0x01, 0x02, 0x12, 0x13, 0x1f, 0x20, 0x30, 0x31,
	0x60, 0x61, 0x68, 0x69, 0x70, 0x71, 0x72, 0x75, 0x86, 0x87, 0x88, 0x8a, 0x8e, 0x90, 0x92, 0x93, 0xa0, 0xa1, 0xa2, 0xa3, 0xa4, 0xa5, 0xcc, 0xff,
	'\\', '^', 0x2e, 0x2f, 'A', 'B', 'D', 'E', 'V', '0', '_', 'S', 'B',
	0x03, 0x04, 0x05, 0x3f, 0x40, 0x41, 0x4f, 0x80, 0xc0, 0xcf, 0xfe,
}

func c12GenRaw(t *rapid.T) []byte {
	n := rapid.IntRange(0, vlib.Scale(200, 2000)).Draw(t, "rawlen")
	out := make([]byte, 0, n)
	// token mode: the stream is mostly built from package-bearing opcodes with
	// small (often inconsistent) lengths, constants and names - hostile nesting
	tokens := rapid.Bool().Draw(t, "tokenmode")
	for len(out) < n {
		k := rapid.IntRange(0, 9).Draw(t, "rawk")
		switch {
		case k == 0:
			out = append(out, rapid.Byte().Draw(t, "any"))
		case k == 1:
			out = append(out, rapid.SampledFrom([]string{"DEV0", "_SB_", "MTH0", "AAAA", "_HID"}).Draw(t, "nm")...)
		case tokens && k <= 5:
			// package opener + PkgLength lead (small lengths dominate)
			op := rapid.SampledFrom([][]byte{{0x11}, {0x11}, {0x12}, {0x13}, {0x10}, {0x14}, {0xa0}, {0xa1}, {0xa2}, {0x5b, 0x81}, {0x5b, 0x82}, {0x5b, 0x86}, {0x5b, 0x87}, {0x5b, 0x83}}).Draw(t, "pkgop")
			out = append(out, op...)
			if rapid.IntRange(0, 7).Draw(t, "bigpkg") == 0 {
				out = append(out, rapid.SampledFrom([]byte{0x3f, 0x40, 0x4f, 0x80, 0xc0, 0xff}).Draw(t, "biglead"))
			} else {
				out = append(out, byte(rapid.IntRange(0, 16).Draw(t, "smalllen")))
			}
		case tokens && k <= 7:
			c := rapid.SampledFrom([][]byte{{0x0a, 0x00}, {0x0a, 0x05}, {0x0a, 0xff}, {0x0b, 0x19, 0x8e}, {0x0c, 0, 0, 0, 0}, {0x00}, {0x01}, {0xff}, {0x0d, 'x', 0}, {0x02}, {0x01, 0x05, 0x0b}}).Draw(t, "const")
			out = append(out, c...)
		default:
			out = append(out, rapid.SampledFrom(c12Alphabet).Draw(t, "alpha"))
		}
	}
	return out
}

var (
	c12ShippedOnce sync.Once
	c12Shipped     [][]byte
)

func c12ShippedTables() [][]byte {
	c12ShippedOnce.Do(func() {
		repo := os.Getenv("VERIF_REPO")
		if repo == "" {
			repo = "/repo"
		}
		for _, f := range []string{"DSDT.aml", "SSDT.aml", "parser-testsuite-DSDT.aml"} {
			b, err := os.ReadFile(filepath.Join(repo, "kernel/device/acpi/table/tabletest", f))
			if err == nil && len(b) > 36 {
				c12Shipped = append(c12Shipped, b[36:])
			}
		}
	})
	return c12Shipped
}

// c12Mutate applies 1-4 structure-aware mutations to a well-formed AML body.
func c12Mutate(t *rapid.T, body []byte, donor []byte) ([]byte, []string) {
	b := append([]byte(nil), body...)
	var kinds []string
	n := rapid.IntRange(1, 4).Draw(t, "nmut")
	for i := 0; i < n && len(b) > 0; i++ {
		k := rapid.SampledFrom([]string{"truncate", "flip", "byte", "pkglen", "pkglen", "selfname", "splice", "swapop", "dup", "insert", "nest", "bufnest", "bufnest", "fieldconn", "extop", "selfpath", "selfpath", "outrun", "segprefix", "supername"}).Draw(t, "mutk")
		pos := rapid.IntRange(0, len(b)-1).Draw(t, "pos")
		switch k {
		case "truncate":
			b = b[:pos]
		case "flip":
			b[pos] ^= 1 << uint(rapid.IntRange(0, 7).Draw(t, "bit"))
		case "byte":
			b[pos] = rapid.SampledFrom(c12Alphabet).Draw(t, "newbyte")
		case "pkglen":
			// find the next package-bearing opcode from pos and corrupt its length
			for j := pos; j < len(b)-2; j++ {
				if b[j] == 0x10 || b[j] == 0x14 || b[j] == 0x11 || b[j] == 0x12 || b[j] == 0xa0 || b[j] == 0xa2 || (b[j] == 0x5b && (b[j+1] >= 0x81 && b[j+1] <= 0x87)) {
					off := j + 1
					if b[j] == 0x5b {
						off++
					}
					b[off] = rapid.SampledFrom([]byte{0x00, 0x01, 0x02, 0x3f, 0x40, 0x4f, 0x80, 0xc0, 0xcf, 0xff}).Draw(t, "lead")
					break
				}
			}
		case "selfname":
			// make a name path mention a segment twice (\X.X) or refer to its own name
			for j := pos; j+9 < len(b); j++ {
				if b[j] == 0x2e {
					copy(b[j+5:j+9], b[j+1:j+5])
					break
				}
				if c12IsSeg(b[j : j+4]) {
					seg := append([]byte(nil), b[j:j+4]...)
					ins := append([]byte{'\\', 0x2e}, append(append([]byte(nil), seg...), seg...)...)
					b = append(b[:j], append(ins, b[j+4:]...)...)
					break
				}
			}
		case "splice":
			if len(donor) > 0 {
				a := rapid.IntRange(0, len(donor)-1).Draw(t, "da")
				l := rapid.IntRange(1, min(64, len(donor)-a)).Draw(t, "dl")
				b = append(b[:pos], append(append([]byte(nil), donor[a:a+l]...), b[pos:]...)...)
			}
		case "swapop":
			q := rapid.IntRange(0, len(b)-1).Draw(t, "pos2")
			b[pos], b[q] = b[q], b[pos]
		case "dup":
			l := rapid.IntRange(1, min(32, len(b)-pos)).Draw(t, "duplen")
			b = append(b[:pos+l], append(append([]byte(nil), b[pos:pos+l]...), b[pos+l:]...)...)
		case "insert":
			b = append(b[:pos], append([]byte{rapid.SampledFrom(c12Alphabet).Draw(t, "ins")}, b[pos:]...)...)
		case "bufnest":
			// give a Buffer/Package/While/If a package-bearing term as its first operand whose own
			// PkgLength may reach beyond the enclosing package
			for j := pos; j+2 < len(b); j++ {
				if b[j] == 0x11 || b[j] == 0x12 || b[j] == 0xa0 || b[j] == 0xa2 {
					at := j + 2 + int(b[j+1]>>6)
					if at > len(b) {
						break
					}
					inner := []byte{rapid.SampledFrom([]byte{0x11, 0x11, 0x12}).Draw(t, "bnop"), byte(rapid.IntRange(1, 40).Draw(t, "bnlen")), 0x0a, byte(rapid.IntRange(0, 4).Draw(t, "bnsize"))}
					b = append(b[:at], append(inner, b[at:]...)...)
					break
				}
			}
		case "selfpath":
			// a named object whose path leads through itself or through the object that
			// follows it: Name(A.B.A) Device(B){...}, Device(\A.A), Scope(^^X) cut by its own
			// length ... S1/S2 are names that already occur in the table when there are any
			s1, s2 := []byte("AAAA"), []byte("BBBB")
			found := 0
			for j := pos; j+4 <= len(b) && found < 2; j++ {
				if c12IsSeg(b[j:j+4]) && b[j] != '0' {
					if found == 0 {
						s1 = append([]byte(nil), b[j:j+4]...)
					} else {
						s2 = append([]byte(nil), b[j:j+4]...)
					}
					found++
					j += 3
				}
			}
			var ins []byte
			path := func(root bool, segs ...[]byte) []byte {
				var p []byte
				if root {
					p = append(p, '\\')
				}
				switch len(segs) {
				case 1:
				case 2:
					p = append(p, 0x2e)
				default:
					p = append(p, 0x2f, byte(len(segs)))
				}
				for _, sg := range segs {
					p = append(p, sg...)
				}
				return p
			}
			root := rapid.Bool().Draw(t, "sproot")
			var name []byte
			switch rapid.IntRange(0, 4).Draw(t, "spshape") {
			case 0:
				name = path(root, s1, s2, s1)
			case 1:
				name = path(root, s1, s1)
			case 2:
				name = path(root, s1, s2, s2, s1)
			case 3:
				name = path(root, s2, s1, s2)
			default:
				name = append([]byte{'^', '^'}, s1...)
			}
			follower := func(nm []byte) []byte {
				body := append([]byte(nil), nm...)
				switch rapid.IntRange(0, 3).Draw(t, "spfollow") {
				case 0: // Device(nm) {}
					return append([]byte{0x5b, 0x82, byte(1 + len(body))}, body...)
				case 1: // Scope(nm) {}
					return append([]byte{0x10, byte(1 + len(body))}, body...)
				case 2: // Method(nm, 0) {}
					return append(append([]byte{0x14, byte(2 + len(body))}, body...), 0)
				default: // Processor(nm, 0, 0, 0) {}
					return append(append([]byte{0x5b, 0x83, byte(7 + len(body))}, body...), 0, 0, 0, 0, 0, 0)
				}
			}
			switch rapid.IntRange(0, 3).Draw(t, "spfirst") {
			case 0: // Name(path) without a value of its own: takes the follower as its value
				ins = append([]byte{0x08}, name...)
			case 1: // Device(path) {}
				ins = append([]byte{0x5b, 0x82, byte(1 + len(name))}, name...)
			case 2: // Scope(path) {}
				ins = append([]byte{0x10, byte(1 + len(name))}, name...)
			default: // Name(path, 0)
				ins = append(append([]byte{0x08}, name...), 0x00)
			}
			ins = append(ins, follower(s2)...)
			if rapid.Bool().Draw(t, "spsecond") {
				ins = append(ins, follower(s1)...)
			}
			b = append(b[:pos], append(ins, b[pos:]...)...)
		case "segprefix":
			// the first 1-4 bytes of a later segment of the next dual/multi name path become
			// name-prefix bytes (0x2e / 0x2f)
			for j := pos; j+9 <= len(b); j++ {
				segs, first := 0, 0
				switch {
				case b[j] == 0x2e && c12IsSeg(b[j+1:j+5]) && c12IsSeg(b[j+5:j+9]):
					segs, first = 2, j+1
				case b[j] == 0x2f && j+2+4*int(b[j+1]) <= len(b) && b[j+1] >= 2 && c12IsSeg(b[j+2:j+6]):
					segs, first = int(b[j+1]), j+2
				}
				if segs == 0 {
					continue
				}
				at := first + 4*rapid.IntRange(1, segs-1).Draw(t, "spseg")
				n := rapid.SampledFrom([]int{4, 4, 1, 2, 3}).Draw(t, "spcount")
				pb := rapid.SampledFrom([]byte{0x2e, 0x2f}).Draw(t, "spbyte")
				for i := 0; i < n; i++ {
					b[at+i] = pb
				}
				break
			}
		case "supername":
			// an operator whose target operand is a reference expression (Index, DerefOf, RefOf)
			// over a name path in any of its forms, inside a block that is parsed later (While,
			// Buffer size) or straight away
			seg := func(tag string) []byte {
				return []byte(rapid.SampledFrom([]string{"ABCD", "EFGH", "_SB_", "PCI0", "FOO_", "X___"}).Draw(t, tag))
			}
			var name []byte
			switch rapid.IntRange(0, 7).Draw(t, "snform") {
			case 0:
				name = seg("sn0")
			case 1, 2:
				name = append(append([]byte{0x2e}, seg("sn1")...), seg("sn2")...)
			case 3:
				name = append(append(append([]byte{0x2f, 0x03}, seg("sn1")...), seg("sn2")...), seg("sn3")...)
			case 4:
				name = append(append([]byte{'\\', 0x2e}, seg("sn1")...), seg("sn2")...)
			case 5:
				name = append([]byte{'^'}, seg("sn1")...)
			case 6:
				name = append(append([]byte{'^', '^', 0x2e}, seg("sn1")...), seg("sn2")...)
			default:
				name = []byte{0x00} // null name
			}
			var ref []byte
			switch rapid.IntRange(0, 4).Draw(t, "snref") {
			case 0, 1:
				ref = append(append([]byte{0x88}, name...), 0x00, 0x00) // Index(name, Zero, <no target>)
			case 2:
				ref = append([]byte{0x83}, name...) // DerefOf(name)
			case 3:
				ref = append([]byte{0x71}, name...) // RefOf(name)
			default:
				ref = name
			}
			op := rapid.SampledFrom([][]byte{{0x75}, {0x75}, {0x76}, {0x87}, {0x70, 0x01}, {0x8e}, {0x72, 0x01, 0x01}, {0x5b, 0x12}}).Draw(t, "snop")
			expr := append(append([]byte(nil), op...), ref...)
			var ins []byte
			switch rapid.IntRange(0, 4).Draw(t, "snwrap") {
			case 0, 1: // While(One) { expr }
				ins = append([]byte{0xa2, byte(2 + len(expr)), 0x01}, expr...)
			case 2: // While(expr) { }
				ins = append([]byte{0xa2, byte(1 + len(expr))}, expr...)
			case 3: // Name(BUF_, Buffer(expr) { })
				ins = append([]byte{0x08, 'B', 'U', 'F', '_', 0x11, byte(1 + len(expr))}, expr...)
			default:
				ins = expr
			}
			b = append(b[:pos], append(ins, b[pos:]...)...)
		case "outrun":
			// packages that claim to extend beyond the package that contains them, nested: at
			// every level a short outer package (Buffer, Package, VarPackage) whose first operand
			// is a longer package that runs on over the next level
			depth := rapid.SampledFrom([]int{1, 2, 3, 5, 8, 12, 16, 20, 24, 28}).Draw(t, "outrundepth")
			outer := rapid.SampledFrom([]byte{0x11, 0x11, 0x12, 0x13}).Draw(t, "outrunouter")
			inner := rapid.SampledFrom([]byte{0x12, 0x12, 0x11, 0x13}).Draw(t, "outruninner")
			short := byte(rapid.SampledFrom([]int{5, 5, 4, 6, 8}).Draw(t, "outrunshort"))
			lead := rapid.SampledFrom([][]byte{{0x70}, {0x70}, {}, {0x08, 'O', 'U', 'T', '_'}, {0xa4}}).Draw(t, "outrunlead") // Store / bare / Name / Return
			level := []byte{0x00}
			for k := 0; k < depth; k++ {
				p := 4 + len(level)
				level = append(append(append([]byte(nil), lead...), outer, short, inner, 0x40|byte(p&0xf), byte(p>>4), 0x01, 0x00), level...)
			}
			var ins []byte
			switch rapid.IntRange(0, 3).Draw(t, "outrunwrap") {
			case 0, 1: // While(One) { ... }
				n := 2 + 1 + len(level)
				ins = append([]byte{0xa2, 0x40 | byte(n&0xf), byte(n >> 4), 0x01}, level...)
			case 2: // Method(OUTR) { ... }
				n := 2 + 4 + 1 + len(level)
				ins = append([]byte{0x14, 0x40 | byte(n&0xf), byte(n >> 4), 'O', 'U', 'T', 'R', 0x00}, level...)
			default:
				ins = level
			}
			b = append(b[:pos], append(ins, b[pos:]...)...)
		case "extop":
			// an extended opcode (0x5b xx) with an arbitrary second byte - undefined ones and the
			// codes the parser uses internally included - in place of the next extended opcode,
			// or as a new term
			x := rapid.Byte().Draw(t, "extop")
			if rapid.Bool().Draw(t, "extophigh") {
				x = 0xf0 | x&0x0f
			}
			done := false
			for j := pos; j+1 < len(b); j++ {
				if b[j] == 0x5b {
					b[j+1], done = x, true
					break
				}
			}
			if !done {
				b = append(b[:pos], append([]byte{0x5b, x}, b[pos:]...)...)
			}
		case "fieldconn":
			// put 1-3 Connection(Buffer) elements with a tiny or zero PkgLength at the start of
			// the field list of the next Field / IndexField
			for j := pos; j+12 < len(b); j++ {
				if b[j] != 0x5b || (b[j+1] != 0x81 && b[j+1] != 0x86) {
					continue
				}
				at := j + 3 + int(b[j+2]>>6) // behind the PkgLength
				names := 1
				if b[j+1] == 0x86 {
					names = 2
				}
				for ; names > 0 && at < len(b); names-- {
					for at < len(b) && (b[at] == '\\' || b[at] == '^') {
						at++
					}
					switch {
					case at < len(b) && b[at] == 0x2e:
						at += 9
					case at+1 < len(b) && b[at] == 0x2f:
						at += 2 + 4*int(b[at+1])
					case at < len(b) && b[at] == 0:
						at++
					default:
						at += 4
					}
				}
				at++ // field flags
				if at > len(b) {
					break
				}
				var ins []byte
				for k := rapid.IntRange(1, 3).Draw(t, "fcn"); k > 0; k-- {
					ins = append(ins, 0x02, 0x11,
						rapid.SampledFrom([]byte{0, 0, 0, 1, 2, 3, 0x40}).Draw(t, "fclen"),
						rapid.SampledFrom([]byte{0x08, 0x0a, 0x00, 0x01}).Draw(t, "fcnext"))
				}
				if b[j+2] < 0x40 && int(b[j+2])+len(ins) < 0x40 && rapid.Bool().Draw(t, "fcfix") {
					b[j+2] += byte(len(ins)) // keep the Field's own package consistent
				}
				b = append(b[:at], append(ins, b[at:]...)...)
				break
			}
		case "nest":
			// put a package-bearing term (Buffer/Package with its own, possibly too large,
			// PkgLength) where a term starts: the inner package may reach beyond the outer one
			inner := []byte{rapid.SampledFrom([]byte{0x11, 0x11, 0x12, 0xa0, 0xa2}).Draw(t, "nestop"), byte(rapid.IntRange(1, 12).Draw(t, "nestlen")), 0x0a, byte(rapid.IntRange(0, 4).Draw(t, "nestsize"))}
			b = append(b[:pos], append(inner, b[pos:]...)...)
		}
		kinds = append(kinds, k)
	}
	return b, kinds
}

func c12IsSeg(b []byte) bool {
	for i, c := range b {
		ok := c == '_' || (c >= 'A' && c <= 'Z') || (i > 0 && c >= '0' && c <= '9')
		if !ok {
			return false
		}
	}
	return true
}

func TestVerifC12(t *testing.T) {
	st := vlib.For("C12")
	defer vlib.Flush()
	defer func() {
		if c12TheWorker != nil {
			c12TheWorker.kill()
		}
	}()
	rapid.Check(t, func(t *rapid.T) {
		var c c12Case
		var labels []string
		switch rapid.IntRange(0, 9).Draw(t, "source") {
		case 0, 1:
			c.Kind = "raw"
			c.Tables = [][]byte{c12GenRaw(t)}
		case 2:
			c.Kind = "shipped-mutated"
			sh := c12ShippedTables()
			if len(sh) == 0 {
				t.Fatalf("VERIF-HARNESS shipped AML tables not found")
			}
			base := sh[rapid.IntRange(0, len(sh)-1).Draw(t, "shipped")]
			m, kinds := c12Mutate(t, base, sh[0])
			c.Tables = [][]byte{m}
			for _, k := range kinds {
				labels = append(labels, "mutation-"+k)
			}
		default:
			c.Kind = "generated-mutated"
			g := &c11Gen{t: t, allowOperatorCallArgs: true, allowEmptyIf: true, allowTermsAfterBlock: true, allowRootScope: true, allowSplitIndexField: true, noHuge: true}
			prog := g.program()
			donor := amlEncodeObjs(prog.Tables[0])
			victim := rapid.IntRange(0, len(prog.Tables)-1).Draw(t, "victim")
			for i := 0; i < victim; i++ {
				c.Tables = append(c.Tables, amlEncodeObjs(prog.Tables[i]))
			}
			m, kinds := c12Mutate(t, amlEncodeObjs(prog.Tables[victim]), donor)
			c.Tables = append(c.Tables, m)
			c.Mode = rapid.SampledFrom([]int{0, 0, 1, 2, 2}).Draw(t, "parsermode")
			if c.Mode == 2 {
				// the program's remaining tables follow the damaged one; a one-table program is
				// presented a second time, undamaged
				for i := victim + 1; i < len(prog.Tables); i++ {
					c.Tables = append(c.Tables, amlEncodeObjs(prog.Tables[i]))
				}
				if len(prog.Tables) == 1 {
					c.Tables = append(c.Tables, donor)
				}
				labels = append(labels, "tables-follow-the-damaged-one")
			}
			if c.Mode != 0 {
				labels = append(labels, "one-parser-for-all-tables")
			}
			for _, k := range kinds {
				labels = append(labels, "mutation-"+k)
			}
			if victim > 0 {
				labels = append(labels, "after-valid-tables")
			}
		}
		labels = append(labels, "source-"+c.Kind)
		fail, v := c12Judge(c)
		labels = append(labels, "outcome-"+v.Outcome)
		if v.PrintPanicAfterReject {
			labels = append(labels, "print-panics-after-rejected-parse(statistic)")
		}
		// non-trivial: the parser got past the first object (>= 2 objects beyond the 6 predefined scopes)
		st.Case(c, v.Objects >= 8, labels...)
		if fail != nil && strings.HasPrefix(fail.Msg, "VERIF-HARNESS") {
			t.Fatalf("%s", fail.Msg)
		}
		vlib.Report(t, "C12", c, fail)
	})
}

func TestVerifC12Replay(t *testing.T) {
	var c c12Case
	ok, err := vlib.LoadReplay(&c)
	if !ok {
		t.Skip("no replay requested")
	}
	if err != nil {
		t.Fatalf("VERIF-HARNESS cannot load replay: %v", err)
	}
	defer func() {
		if c12TheWorker != nil {
			c12TheWorker.kill()
		}
	}()
	fail, _ := c12Judge(c)
	vlib.Report(t, "C12", c, fail)
}

// FuzzVerifC12 is the coverage-guided variant (thorough tier). It runs the
// oracle in-process; a fatal error terminates the fuzz worker and is reported
// by the fuzzing engine with the input saved.
func FuzzVerifC12(f *testing.F) {
	for _, s := range c12ShippedTables() {
		if len(s) < 4096 {
			f.Add(s)
		}
	}
	f.Add([]byte{0x5b, 0x82, 0x0b, '\\', 0x2e, 'D', 'E', 'V', '0', 'D', 'E', 'V', '0'})
	f.Fuzz(func(t *testing.T, data []byte) {
		if len(data) > 8192 {
			return
		}
		debug.SetMaxStack(64 << 20)
		v := c12Check([][]byte{data}, 0)
		if v.Outcome != "ok" && v.Outcome != "rejected" {
			t.Fatalf("%s: %s", v.Outcome, v.Detail)
		}
	})
}
