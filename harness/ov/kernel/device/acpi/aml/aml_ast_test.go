//go:build verif && go1.21

package aml

// AST of the AML grammar subset used by the C11 / C12 harnesses, and an
// encoder for it that is independent of the parser under test.

import (
	"encoding/binary"
	"fmt"
	"unsafe"

	"github.com/ProjectSerenity/firefly/kernel/device/acpi/table"
)

// amlName is a NameString as written in the byte stream.
type amlName struct {
	Root   bool     `json:"root,omitempty"`   // leading '\'
	Carets int      `json:"carets,omitempty"` // leading '^' count
	Segs   []string `json:"segs"`             // 0 segments = NullName
}

func (n amlName) String() string {
	s := ""
	if n.Root {
		s = "\\"
	}
	for i := 0; i < n.Carets; i++ {
		s += "^"
	}
	for i, seg := range n.Segs {
		if i > 0 {
			s += "."
		}
		s += seg
	}
	return s
}

func (n amlName) last() string { return n.Segs[len(n.Segs)-1] }

func (n amlName) encode() []byte {
	var b []byte
	if n.Root {
		b = append(b, '\\')
	}
	for i := 0; i < n.Carets; i++ {
		b = append(b, '^')
	}
	switch len(n.Segs) {
	case 0:
		b = append(b, 0)
	case 1:
		b = append(b, n.Segs[0]...)
	case 2:
		b = append(b, 0x2e)
		b = append(b, n.Segs[0]...)
		b = append(b, n.Segs[1]...)
	default:
		b = append(b, 0x2f, byte(len(n.Segs)))
		for _, s := range n.Segs {
			b = append(b, s...)
		}
	}
	return b
}

func amlSeg(name string) amlName { return amlName{Segs: []string{name}} }

// amlData is a data object.
type amlData struct {
	K     string    `json:"k"` // zero one ones byte word dword qword string buffer package nameref
	V     uint64    `json:"v,omitempty"`
	S     []byte    `json:"s,omitempty"`     // string chars / buffer initialiser bytes
	Elems []amlData `json:"elems,omitempty"` // package elements
	W     int       `json:"w,omitempty"`     // PkgLength width (0 = minimal)
	Rep   int       `json:"rep,omitempty"`   // buffer: S is repeated Rep times (large initialisers stay small as JSON)
}

// bytes returns the initialiser bytes of a buffer.
func (d amlData) bytes() []byte {
	if d.Rep > 1 {
		out := make([]byte, 0, len(d.S)*d.Rep)
		for i := 0; i < d.Rep; i++ {
			out = append(out, d.S...)
		}
		return out
	}
	return d.S
}

// amlExpr is a TermArg inside a method body.
type amlExpr struct {
	K      string    `json:"k"` // data local arg ref call binop unop
	Data   *amlData  `json:"data,omitempty"`
	N      int       `json:"n,omitempty"`    // local / arg number
	Name   string    `json:"name,omitempty"` // ref / call: single segment
	Args   []amlExpr `json:"args,omitempty"` // call args / operator operands
	Op     string    `json:"op,omitempty"`   // binop: add subtract and or xor ...; unop: not
	Target *amlExpr  `json:"target,omitempty"` // nil = NullName; else local/arg/ref
}

// amlStmt is a statement in a method body.
type amlStmt struct {
	K    string    `json:"k"` // store expr if while return inc
	E    *amlExpr  `json:"e,omitempty"`
	T    *amlExpr  `json:"t,omitempty"` // store target / inc operand
	Body []amlStmt `json:"body,omitempty"`
	Else []amlStmt `json:"else,omitempty"`
	Has  bool      `json:"haselse,omitempty"`
	W    int       `json:"w,omitempty"`
	W2   int       `json:"w2,omitempty"`
	Op   string    `json:"op,omitempty"` // term1 statements
	V    uint16    `json:"v,omitempty"`  // acquire timeout
	Obj  *amlObj   `json:"obj,omitempty"` // decl: a named object declared inside the method (name opregion mutex event field)
}

type amlFieldElem struct {
	K      string `json:"k"` // named reserved access
	Name   string `json:"name,omitempty"`
	Bits   uint32 `json:"bits,omitempty"`
	Type   uint8  `json:"type,omitempty"`   // access: access type
	Attrib uint8  `json:"attrib,omitempty"` // access: attribute
	Data   []byte `json:"data,omitempty"`   // connbuf: resource descriptor bytes
	W      int    `json:"w,omitempty"`
}

// amlObj is a namespace-level term.
type amlObj struct {
	K    string  `json:"k"` // scope device thermal processor power method name opregion field indexfield mutex event
	Name amlName `json:"name"`
	Abs  string  `json:"abs"` // the absolute path ACPI rules give the object (model; for scope: the target scope)
	W    int     `json:"w,omitempty"`

	Body  []amlObj  `json:"body,omitempty"`  // scope device thermal processor power
	Stmts []amlStmt `json:"stmts,omitempty"` // method
	Argc  int       `json:"argc,omitempty"`  // method
	Flags uint8     `json:"flags,omitempty"` // method flags bits 3..7 / field flags / mutex sync level
	Data  *amlData  `json:"data,omitempty"`  // name

	Space  uint8  `json:"space,omitempty"`  // opregion
	Offset uint64 `json:"offset,omitempty"` // opregion
	Len    uint64 `json:"len,omitempty"`    // opregion
	OffK   string `json:"offk,omitempty"`   // constant kind used for offset
	LenK   string `json:"lenk,omitempty"`

	Region amlName        `json:"region"`          // field: region name; indexfield: index name
	DataN  amlName        `json:"datan"`           // indexfield: data name
	Elems  []amlFieldElem `json:"elems,omitempty"` // field / indexfield

	ProcID   uint8  `json:"procid,omitempty"`
	PblkAddr uint32 `json:"pblk,omitempty"`
	PblkLen  uint8  `json:"pblklen,omitempty"`
	SysLevel uint8  `json:"syslevel,omitempty"`
	ResOrder uint16 `json:"resorder,omitempty"`

	// pin (generator only): the object stays where it is declared, the lexical transformations
	// do not move it out of its container
	pin bool
}

// ---------------------------------------------------------------------------
// encoder

func amlPkg(body []byte, w int) []byte {
	min := 1
	switch {
	case len(body)+1 <= 0x3f:
		min = 1
	case len(body)+2 <= 0xfff:
		min = 2
	case len(body)+3 <= 0xfffff:
		min = 3
	default:
		min = 4
	}
	if w < min {
		w = min
	}
	total := uint32(len(body) + w)
	var out []byte
	if w == 1 {
		out = []byte{byte(total)}
	} else {
		out = append(out, byte((w-1)<<6)|byte(total&0xf))
		for i, rest := 0, total>>4; i < w-1; i, rest = i+1, rest>>8 {
			out = append(out, byte(rest))
		}
	}
	return append(out, body...)
}

func amlConst(kind string, v uint64) []byte {
	switch kind {
	case "zero":
		return []byte{0x00}
	case "one":
		return []byte{0x01}
	case "ones":
		return []byte{0xff}
	case "byte":
		return []byte{0x0a, byte(v)}
	case "word":
		b := []byte{0x0b, 0, 0}
		binary.LittleEndian.PutUint16(b[1:], uint16(v))
		return b
	case "dword":
		b := []byte{0x0c, 0, 0, 0, 0}
		binary.LittleEndian.PutUint32(b[1:], uint32(v))
		return b
	case "qword":
		b := []byte{0x0e, 0, 0, 0, 0, 0, 0, 0, 0}
		binary.LittleEndian.PutUint64(b[1:], v)
		return b
	}
	panic("amlConst: bad kind " + kind)
}

// amlConstValue is the value the constant carries once truncated to its width.
func amlConstValue(kind string, v uint64) uint64 {
	switch kind {
	case "byte":
		return v & 0xff
	case "word":
		return v & 0xffff
	case "dword":
		return v & 0xffffffff
	case "qword":
		return v
	}
	return 0
}

func (d amlData) encode() []byte {
	switch d.K {
	case "zero", "one", "ones", "byte", "word", "dword", "qword":
		return amlConst(d.K, d.V)
	case "string":
		b := append([]byte{0x0d}, d.S...)
		return append(b, 0)
	case "buffer":
		body := amlConst(amlBufLenKind(d.V), d.V)
		body = append(body, d.bytes()...)
		return append([]byte{0x11}, amlPkg(body, d.W)...)
	case "nameref": // package element that names another object (S = the 4 character segment)
		return append([]byte(nil), d.S...)
	case "package":
		body := []byte{byte(len(d.Elems))}
		for _, e := range d.Elems {
			body = append(body, e.encode()...)
		}
		return append([]byte{0x12}, amlPkg(body, d.W)...)
	}
	panic("amlData: bad kind " + d.K)
}

func amlBufLenKind(v uint64) string {
	switch {
	case v <= 0xff:
		return "byte"
	case v <= 0xffff:
		return "word"
	default:
		return "dword"
	}
}

var amlBinOps = map[string]byte{"add": 0x72, "subtract": 0x74, "multiply": 0x77, "shiftleft": 0x79, "shiftright": 0x7a, "and": 0x7b, "nand": 0x7c, "or": 0x7d, "nor": 0x7e, "xor": 0x7f, "mod": 0x85, "concat": 0x73}
var amlUnOps = map[string][]byte{"not": {0x80}, "findsetleftbit": {0x81}, "findsetrightbit": {0x82}, "tointeger": {0x99}, "tohexstring": {0x98}, "todecimalstring": {0x97}, "tobuffer": {0x96}, "frombcd": {0x5b, 0x28}, "tobcd": {0x5b, 0x29}}
var amlTerm1Ops = map[string][]byte{"derefof": {0x83}, "sizeof": {0x87}, "objecttype": {0x8e}, "refof": {0x71}, "revision": {0x5b, 0x30}, "timer": {0x5b, 0x33},
	"sleep": {0x5b, 0x22}, "stall": {0x5b, 0x21}, "release": {0x5b, 0x27}, "reset": {0x5b, 0x26}, "signal": {0x5b, 0x24}, "decrement": {0x76}}
var amlCmpOps = map[string]byte{"land": 0x90, "lor": 0x91, "lequal": 0x93, "lgreater": 0x94, "lless": 0x95}

func (e amlExpr) encode() []byte {
	switch e.K {
	case "data":
		return e.Data.encode()
	case "local":
		return []byte{0x60 + byte(e.N)}
	case "arg":
		return []byte{0x68 + byte(e.N)}
	case "ref":
		return []byte(e.Name)
	case "call":
		b := []byte(e.Name)
		for _, a := range e.Args {
			b = append(b, a.encode()...)
		}
		return b
	case "binop":
		b := []byte{amlBinOps[e.Op]}
		b = append(b, e.Args[0].encode()...)
		b = append(b, e.Args[1].encode()...)
		if e.Target == nil {
			return append(b, 0)
		}
		return append(b, e.Target.encode()...)
	case "cmp":
		b := []byte{amlCmpOps[e.Op]}
		b = append(b, e.Args[0].encode()...)
		return append(b, e.Args[1].encode()...)
	case "lnot":
		return append([]byte{0x92}, e.Args[0].encode()...)
	case "unop": // (TermArg, Target)
		b := append([]byte{}, amlUnOps[e.Op]...)
		b = append(b, e.Args[0].encode()...)
		if e.Target == nil {
			return append(b, 0)
		}
		return append(b, e.Target.encode()...)
	case "term1": // (TermArg) or (SuperName)
		return append(append([]byte{}, amlTerm1Ops[e.Op]...), e.Args[0].encode()...)
	case "index": // (TermArg, TermArg, Target)
		b := []byte{0x88}
		b = append(b, e.Args[0].encode()...)
		b = append(b, e.Args[1].encode()...)
		if e.Target == nil {
			return append(b, 0)
		}
		return append(b, e.Target.encode()...)
	case "divide": // (TermArg, TermArg, Target, Target)
		b := []byte{0x78}
		b = append(b, e.Args[0].encode()...)
		b = append(b, e.Args[1].encode()...)
		b = append(b, 0) // remainder: null target
		if e.Target == nil {
			return append(b, 0)
		}
		return append(b, e.Target.encode()...)
	case "const0": // Revision / Timer
		return append([]byte{}, amlTerm1Ops[e.Op]...)
	}
	panic("amlExpr: bad kind " + e.K)
}

func amlEncodeStmts(l []amlStmt) []byte {
	var b []byte
	for _, s := range l {
		b = append(b, s.encode()...)
	}
	return b
}

func (s amlStmt) encode() []byte {
	switch s.K {
	case "store":
		b := append([]byte{0x70}, s.E.encode()...)
		return append(b, s.T.encode()...)
	case "expr":
		return s.E.encode()
	case "return":
		return append([]byte{0xa4}, s.E.encode()...)
	case "inc":
		return append([]byte{0x75}, s.T.encode()...)
	case "if":
		body := append(s.E.encode(), amlEncodeStmts(s.Body)...)
		b := append([]byte{0xa0}, amlPkg(body, s.W)...)
		if s.Has {
			b = append(b, 0xa1)
			b = append(b, amlPkg(amlEncodeStmts(s.Else), s.W2)...)
		}
		return b
	case "while":
		body := append(s.E.encode(), amlEncodeStmts(s.Body)...)
		return append([]byte{0xa2}, amlPkg(body, s.W)...)
	case "decl":
		return s.Obj.encode()
	case "noop":
		return []byte{0xa3}
	case "break":
		return []byte{0xa5}
	case "continue":
		return []byte{0x9f}
	case "breakpoint":
		return []byte{0xcc}
	case "term1": // Sleep/Stall/Release/Reset/Signal/Decrement (one operand)
		return append(append([]byte{}, amlTerm1Ops[s.Op]...), s.E.encode()...)
	case "notify": // (SuperName, TermArg)
		return append(append([]byte{0x86}, s.T.encode()...), s.E.encode()...)
	case "acquire": // (SuperName, WordData)
		b := append([]byte{0x5b, 0x23}, s.T.encode()...)
		return append(b, byte(s.V), byte(s.V>>8))
	case "wait": // (SuperName, TermArg)
		return append(append([]byte{0x5b, 0x25}, s.T.encode()...), s.E.encode()...)
	}
	panic("amlStmt: bad kind " + s.K)
}

func amlEncodeObjs(l []amlObj) []byte {
	var b []byte
	for _, o := range l {
		b = append(b, o.encode()...)
	}
	return b
}

func amlEncodeFieldElems(l []amlFieldElem) []byte {
	var b []byte
	for _, e := range l {
		switch e.K {
		case "named":
			b = append(b, e.Name...)
			b = append(b, amlFieldLen(e.Bits, e.W)...)
		case "reserved":
			b = append(b, 0x00)
			b = append(b, amlFieldLen(e.Bits, e.W)...)
		case "access":
			b = append(b, 0x01, e.Type, e.Attrib)
		case "connbuf":
			body := amlConst(amlBufLenKind(uint64(len(e.Data))), uint64(len(e.Data)))
			body = append(body, e.Data...)
			b = append(b, 0x02, 0x11)
			b = append(b, amlPkg(body, e.W)...)
		case "connname":
			b = append(b, 0x02)
			b = append(b, e.Name...)
		}
	}
	return b
}

// amlFieldLen encodes a bare PkgLength value (field widths are encoded like
// package lengths but do not include themselves).
func amlFieldLen(v uint32, w int) []byte {
	min := 1
	switch {
	case v <= 0x3f:
		min = 1
	case v <= 0xfff:
		min = 2
	case v <= 0xfffff:
		min = 3
	default:
		min = 4
	}
	if w < min {
		w = min
	}
	if w == 1 {
		return []byte{byte(v)}
	}
	out := []byte{byte((w-1)<<6) | byte(v&0xf)}
	for i, rest := 0, v>>4; i < w-1; i, rest = i+1, rest>>8 {
		out = append(out, byte(rest))
	}
	return out
}

func (o amlObj) encode() []byte {
	switch o.K {
	case "scope":
		body := append(o.Name.encode(), amlEncodeObjs(o.Body)...)
		return append([]byte{0x10}, amlPkg(body, o.W)...)
	case "device":
		body := append(o.Name.encode(), amlEncodeObjs(o.Body)...)
		return append([]byte{0x5b, 0x82}, amlPkg(body, o.W)...)
	case "thermal":
		body := append(o.Name.encode(), amlEncodeObjs(o.Body)...)
		return append([]byte{0x5b, 0x85}, amlPkg(body, o.W)...)
	case "processor":
		body := o.Name.encode()
		body = append(body, o.ProcID)
		var a [4]byte
		binary.LittleEndian.PutUint32(a[:], o.PblkAddr)
		body = append(body, a[:]...)
		body = append(body, o.PblkLen)
		body = append(body, amlEncodeObjs(o.Body)...)
		return append([]byte{0x5b, 0x83}, amlPkg(body, o.W)...)
	case "power":
		body := o.Name.encode()
		body = append(body, o.SysLevel, byte(o.ResOrder), byte(o.ResOrder>>8))
		body = append(body, amlEncodeObjs(o.Body)...)
		return append([]byte{0x5b, 0x84}, amlPkg(body, o.W)...)
	case "method":
		body := o.Name.encode()
		body = append(body, byte(o.Argc&7)|o.Flags&^7)
		body = append(body, amlEncodeStmts(o.Stmts)...)
		return append([]byte{0x14}, amlPkg(body, o.W)...)
	case "name":
		return append(append([]byte{0x08}, o.Name.encode()...), o.Data.encode()...)
	case "opregion":
		b := append([]byte{0x5b, 0x80}, o.Name.encode()...)
		b = append(b, o.Space)
		b = append(b, amlConst(o.OffK, o.Offset)...)
		return append(b, amlConst(o.LenK, o.Len)...)
	case "field":
		body := append(o.Region.encode(), o.Flags)
		body = append(body, amlEncodeFieldElems(o.Elems)...)
		return append([]byte{0x5b, 0x81}, amlPkg(body, o.W)...)
	case "indexfield":
		body := append(o.Region.encode(), o.DataN.encode()...)
		body = append(body, o.Flags)
		body = append(body, amlEncodeFieldElems(o.Elems)...)
		return append([]byte{0x5b, 0x86}, amlPkg(body, o.W)...)
	case "mutex":
		return append(append([]byte{0x5b, 0x01}, o.Name.encode()...), o.Flags)
	case "event":
		return append([]byte{0x5b, 0x02}, o.Name.encode()...)
	}
	panic("amlObj: bad kind " + o.K)
}

// amlTable wraps AML bytes in an SDT header. The returned slice keeps the
// memory alive; the header pointer points into it.
func amlTable(sig string, aml []byte) ([]byte, *table.SDTHeader) {
	hl := int(unsafe.Sizeof(table.SDTHeader{}))
	backing := make([]uint64, (hl+len(aml)+7)/8+1)
	buf := unsafe.Slice((*byte)(unsafe.Pointer(&backing[0])), hl+len(aml))
	copy(buf[hl:], aml)
	h := (*table.SDTHeader)(unsafe.Pointer(&buf[0]))
	copy(h.Signature[:], sig)
	h.Length = uint32(len(buf))
	h.Revision = 2
	return buf, h
}

func amlDumpName(n [4]byte) string { return fmt.Sprintf("%q", string(n[:])) }
