//go:build verif

package console

import (
	"github.com/ProjectSerenity/firefly/kernel"
	"github.com/ProjectSerenity/firefly/kernel/mm"
	"github.com/ProjectSerenity/firefly/kernel/mm/vmm"
)

// Export shim for harnesses in other packages (C18 lives in device/tty); only
// compiled with the verif tag through the overlay. Adds functions only.

// VerifSetMapRegionFn installs the function DriverInit uses to map the
// framebuffer and returns the previous one.
func VerifSetMapRegionFn(f func(mm.Frame, uintptr, vmm.PageTableEntryFlag) (mm.Page, *kernel.Error)) func(mm.Frame, uintptr, vmm.PageTableEntryFlag) (mm.Page, *kernel.Error) {
	old := mapRegionFn
	mapRegionFn = f
	return old
}

// VerifSetPortWriteByteFn installs the port-output function (palette DAC
// writes) and returns the previous one.
func VerifSetPortWriteByteFn(f func(uint16, uint8)) func(uint16, uint8) {
	old := portWriteByteFn
	portWriteByteFn = f
	return old
}

// VerifFramebuffer returns the slice through which the driver accesses the
// text-mode framebuffer (nil before DriverInit).
func (cons *VgaTextConsole) VerifFramebuffer() []uint16 { return cons.fb }

// VerifFramebuffer returns the slice through which the driver accesses the
// linear framebuffer (nil before DriverInit).
func (cons *VesaFbConsole) VerifFramebuffer() []uint8 { return cons.fb }

// VerifOffsetY returns the number of scanlines reserved for the logo.
func (cons *VesaFbConsole) VerifOffsetY() uint32 { return cons.offsetY }
