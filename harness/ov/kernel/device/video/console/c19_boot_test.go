//go:build verif && go1.21

package console

// The shipped way a console comes to life: the probe function reads the
// framebuffer tag of the multiboot information block and hands its fields to
// the constructor. c19BootBlock builds such a block (one framebuffer tag, GRUB's
// layout) so that C19 cases can be brought up through probeForVesaFbConsole /
// probeForVgaTextConsole instead of a constructor call with Go values, and so
// that the block can be compared afterwards: a console driver has no business
// writing to the boot information.

import (
	"bytes"
	"encoding/binary"
	"fmt"
	"testing"
	"unsafe"

	"github.com/ProjectSerenity/firefly/kernel/device/video/console/font"
	"github.com/ProjectSerenity/firefly/kernel/multiboot"
	"pgregory.net/rapid"
	"verifharness/vlib"
)

type c19Boot struct {
	words    []uint64 // backing store (8-byte aligned)
	blk      []byte
	pristine []byte
}

// c19BootBlock: typ 0 indexed, 1 RGB, 2 EGA text; color = the colour-info bytes behind the tag's fixed part.
func c19BootBlock(addr uint64, pitch, width, height uint32, bpp, typ uint8, color []byte) *c19Boot {
	tagLen := 8 + 8 + 4 + 4 + 4 + 1 + 1 + 2 + len(color)
	padded := (tagLen + 7) &^ 7
	total := 8 + padded + 8
	b := &c19Boot{words: make([]uint64, (total+7)/8)}
	b.blk = unsafe.Slice((*byte)(unsafe.Pointer(&b.words[0])), total)
	le := binary.LittleEndian
	le.PutUint32(b.blk[0:], uint32(total))
	t := b.blk[8:]
	le.PutUint32(t[0:], 8)
	le.PutUint32(t[4:], uint32(tagLen))
	le.PutUint64(t[8:], addr)
	le.PutUint32(t[16:], pitch)
	le.PutUint32(t[20:], width)
	le.PutUint32(t[24:], height)
	t[28], t[29] = bpp, typ
	copy(t[32:], color)
	e := b.blk[8+padded:]
	le.PutUint32(e[0:], 0)
	le.PutUint32(e[4:], 8)
	b.pristine = append([]byte(nil), b.blk...)
	return b
}

func (b *c19Boot) install() { multiboot.SetInfoPtr(uintptr(unsafe.Pointer(&b.words[0]))) }

// changed describes the first byte of the block that differs from what was built.
func (b *c19Boot) changed() string {
	if bytes.Equal(b.blk, b.pristine) {
		return ""
	}
	for i := range b.blk {
		if b.blk[i] != b.pristine[i] {
			return fmt.Sprintf("byte %d of the multiboot information block changed from %#02x to %#02x (framebuffer tag at 8, its colour description at 40)", i, b.pristine[i], b.blk[i])
		}
	}
	return ""
}

// ---------------------------------------------------------------------------
// C10 from the consumers' side: after the console drivers have probed and
// initialised from a framebuffer tag, the kernel must still report exactly what
// the block encodes, and the block must be byte-for-byte what the boot loader
// left. Any RGB layout is allowed here (mask sizes 0..16) because nothing is
// painted.

type c10ConsumerCase struct {
	Addr   uint64 `json:"addr"`
	Pitch  uint32 `json:"pitch"`
	Width  uint32 `json:"width"`
	Height uint32 `json:"height"`
	Bpp    uint8  `json:"bpp"`
	Type   uint8  `json:"type"`
	Color  []byte `json:"color,omitempty"`
	Font   bool   `json:"font,omitempty"`
}

func c10ConsumerRun(c c10ConsumerCase) *vlib.Failure {
	b := c19BootBlock(c.Addr, c.Pitch, c.Width, c.Height, c.Bpp, c.Type, c.Color)
	b.install()
	defer multiboot.SetInfoPtr(0)
	n := int(c.Height * c.Pitch)
	if c.Type == 2 {
		n = int(c.Width * c.Height * 2)
	}
	if n == 0 {
		n = 1
	}
	_, pageAddr, err := c19Buffer(n, true)
	if err != nil {
		return vlib.Failf("VERIF-HARNESS guarded memory: %v", err)
	}
	defer c19Seams(pageAddr)()
	pc := vlib.CatchFault(func() {
		if d := probeForVesaFbConsole(); d != nil {
			if e := d.DriverInit(c19Discard{}); e == nil && c.Font {
				cons := d.(*VesaFbConsole)
				cons.SetFont(&font.Font{Name: "verif", GlyphWidth: 8, GlyphHeight: 16, BytesPerRow: 1, Data: make([]byte, 256*16)})
				cons.Fill(1, 1, 1, 1, 7, 0)
				cons.Write('x', 7, 0, 1, 1)
			}
		}
		if d := probeForVgaTextConsole(); d != nil {
			_ = d.DriverInit(c19Discard{})
		}
	})
	if pc.Panicked {
		// what the drivers do with odd modes is C19's business
		return nil
	}
	if ch := b.changed(); ch != "" {
		return vlib.Failf("after the console drivers probed and initialised from the framebuffer tag (%dx%d, %d bpp, type %d, colour bytes %v): %s", c.Width, c.Height, c.Bpp, c.Type, c.Color, ch)
	}
	fb := multiboot.GetFramebufferInfo()
	if fb == nil || fb.PhysAddr != c.Addr || fb.Pitch != c.Pitch || fb.Width != c.Width || fb.Height != c.Height || fb.Bpp != c.Bpp || uint8(fb.Type) != c.Type {
		return vlib.Failf("after the console drivers ran, GetFramebufferInfo no longer reports what the block encodes: %+v", fb)
	}
	if ci := fb.RGBColorInfo(); c.Type == 1 && len(c.Color) >= 6 {
		got := []byte{ci.RedPosition, ci.RedMaskSize, ci.GreenPosition, ci.GreenMaskSize, ci.BluePosition, ci.BlueMaskSize}
		if !bytes.Equal(got, c.Color[:6]) {
			return vlib.Failf("after the console drivers ran, RGBColorInfo reports %v; the block encodes %v", got, c.Color[:6])
		}
	}
	return nil
}

func TestVerifC10Consumers(t *testing.T) {
	st := vlib.For("C10")
	defer vlib.Flush()
	rapid.Check(t, func(t *rapid.T) {
		var c c10ConsumerCase
		c.Type = uint8(rapid.SampledFrom([]int{1, 1, 1, 0, 2}).Draw(t, "type"))
		c.Bpp = rapid.SampledFrom([]uint8{8, 15, 16, 24, 32}).Draw(t, "bpp")
		c.Width = uint32(rapid.IntRange(1, 64).Draw(t, "width"))
		c.Height = uint32(rapid.IntRange(1, 48).Draw(t, "height"))
		c.Pitch = c.Width*uint32((c.Bpp+7)/8) + uint32(rapid.IntRange(0, 16).Draw(t, "pad"))
		c.Addr = rapid.SampledFrom([]uint64{0xe0000000, 0xfd000000, 0xb8000, 1 << 36}).Draw(t, "addr")
		c.Font = rapid.Bool().Draw(t, "font")
		switch c.Type {
		case 1:
			c.Color = make([]byte, 6)
			for i := 0; i < 6; i += 2 {
				c.Color[i] = uint8(rapid.IntRange(0, 31).Draw(t, "pos"))
				c.Color[i+1] = uint8(rapid.SampledFrom([]int{0, 1, 5, 6, 8, 8, 8, 9, 10, 10, 12, 16}).Draw(t, "masksize"))
			}
		case 0:
			c.Color = []byte{0, 0}
		}
		wide := false
		for i := 1; i < len(c.Color); i += 2 {
			wide = wide || c.Color[i] > 8
		}
		labels := []string{fmt.Sprintf("consumers-type-%d", c.Type)}
		if wide {
			labels = append(labels, "consumers-colour-mask-wider-than-8-bits")
		}
		st.Case(c, c.Type == 1 && wide, labels...)
		vlib.Report(t, "C10", c, c10ConsumerRun(c))
	})
}

func TestVerifC10ConsumersReplay(t *testing.T) {
	var c c10ConsumerCase
	ok, err := vlib.LoadReplay(&c)
	if !ok {
		t.Skip("no replay requested")
	}
	if err != nil {
		t.Fatalf("VERIF-HARNESS cannot load replay: %v", err)
	}
	vlib.Report(t, "C10", c, c10ConsumerRun(c))
}
