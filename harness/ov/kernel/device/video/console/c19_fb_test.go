//go:build verif && go1.21

package console

// C19, VESA framebuffer driver: byte-level reference model of the framebuffer.

import (
	"strings"
	"fmt"
	"image/color"
	"testing"
	"unsafe"

	"github.com/ProjectSerenity/firefly/kernel/device/video/console/font"
	"github.com/ProjectSerenity/firefly/kernel/device/video/console/logo"
	"github.com/ProjectSerenity/firefly/kernel/multiboot"
	"pgregory.net/rapid"
	"verifharness/vlib"
)

type c19Logo struct {
	W           uint32 `json:"w"`
	H           uint32 `json:"h"`
	Align       uint8  `json:"align"` // 0 left, 1 centre, 2 right
	NPal        uint8  `json:"npal"`  // palette entries of the logo (1..8)
	Transparent uint8  `json:"transparent"`
	Seed        uint64 `json:"seed"` // pixel data and palette colours are expanded from the seed
}

type c19Pal struct {
	Index   uint8 `json:"i"`
	R, G, B uint8
}

type c19FbCase struct {
	Width    uint32 `json:"width"`  // pixels
	Height   uint32 `json:"height"` // pixels
	Bpp      uint8  `json:"bpp"`
	Pad      uint32 `json:"pad"` // pitch = row bytes + pad
	RPos     uint8  `json:"rpos"`
	RSize    uint8  `json:"rsize"`
	GPos     uint8  `json:"gpos"`
	GSize    uint8  `json:"gsize"`
	BPos     uint8  `json:"bpos"`
	BSize    uint8  `json:"bsize"`
	GlyphW   uint32 `json:"glyph_w"`
	GlyphH   uint32 `json:"glyph_h"`
	FontSeed uint64 `json:"font_seed"` // the bitmaps of all 256 glyphs are expanded from the seed

	Logo    *c19Logo `json:"logo,omitempty"`
	Palette []c19Pal `json:"palette,omitempty"` // palette entries replaced before anything is drawn
	AtStart bool     `json:"at_start,omitempty"`
	// ViaBoot: the console is created by probeForVesaFbConsole from the framebuffer
	// tag of a multiboot information block, as at boot, not by a constructor call
	ViaBoot bool `json:"via_boot,omitempty"`
	// PreOps (only with a logo): operations issued after a first SetFont but before the logo is
	// installed - the console then has no logo area yet; SetLogo and SetFont follow, then Ops
	PreOps []c19Op `json:"pre_ops,omitempty"`
	// PostOps: after Ops the driver is initialised a second time (DriverInit maps the framebuffer
	// again, at another address) and these operations follow: they must act on the framebuffer
	// the driver has now, and leave the previous mapping alone
	PostOps []c19Op `json:"post_ops,omitempty"`
	// Font2Seed (non-zero): after Ops the font is replaced by another one with the same glyph
	// height and number of bytes per glyph row - other bitmaps (expanded from this seed) and,
	// if Font2W is non-zero, another glyph width - and Ops run once more: every cell must show the
	// glyph of the font that is active then
	Font2Seed uint64 `json:"font2_seed,omitempty"`
	Font2W    uint32 `json:"font2_w,omitempty"`
	Ops    []c19Op `json:"ops"`
}

// c19Stream expands a seed into bytes (splitmix64); the expansion is a pure
// function of the seed, so the case stays a complete description of the run.
type c19Stream struct {
	s   uint64
	buf uint64
	n   int
}

func (g *c19Stream) next() byte {
	if g.n == 0 {
		g.s += 0x9e3779b97f4a7c15
		z := g.s
		z = (z ^ (z >> 30)) * 0xbf58476d1ce4e5b9
		z = (z ^ (z >> 27)) * 0x94d049bb133111eb
		g.buf = z ^ (z >> 31)
		g.n = 8
	}
	b := byte(g.buf)
	g.buf >>= 8
	g.n--
	return b
}

func (c c19FbCase) bytesPP() uint32 { return (uint32(c.Bpp) + 1) >> 3 }
func (c c19FbCase) logoH() uint32 {
	if c.Logo == nil {
		return 0
	}
	return c.Logo.H
}

func (c c19FbCase) valid() string {
	switch c.Bpp {
	case 8, 15, 16, 24, 32:
	default:
		return "depth"
	}
	if c.Width < 1 || c.Width > 8400 || c.Height < 1 || c.Height > 8400 || c.Pad > 64 || uint64(c.Height)*uint64(c.Width*4+c.Pad) > 7<<20 {
		return "size"
	}
	if c.GlyphW < 8 || c.GlyphW > 16 || c.GlyphH < 1 || c.GlyphH > 32 {
		return "font"
	}
	if l := c.Logo; l != nil {
		if l.H < 1 || l.H > 40 || l.H > c.Height || l.W < 1 || l.W > c.Width || l.Align > 2 || l.NPal < 1 || l.NPal > 8 {
			return "logo"
		}
	}
	if c.Bpp != 8 {
		for _, m := range [][2]uint8{{c.RPos, c.RSize}, {c.GPos, c.GSize}, {c.BPos, c.BSize}} {
			if m[1] < 1 || m[1] > 8 || uint32(m[0])+uint32(m[1]) > 8*min(c.bytesPP(), 3) {
				return "colour masks"
			}
		}
	}
	return ""
}

// c19FbModel is the reference model of one framebuffer console.
type c19FbModel struct {
	c                        c19FbCase
	bytesPP, rowBytes, pitch uint32
	logoH, cols, rows        uint32
	gw, gh, bpr              uint32
	n                        int
	font                     []byte
	pal                      [256]color.RGBA
	model, want, alt         []byte
	kind                     []uint8 // 0 strict, 1 don't care, 2 want or alt
}

const (
	c19Strict = 0
	c19Any    = 1
	c19Alt    = 2
)

// pack is the statement's pixel encoding: every component reduced to its mask
// size and shifted to its position, stored little endian; 8 bpp stores the
// palette index.
func (m *c19FbModel) pack(idx uint8) [3]byte {
	if m.c.Bpp == 8 {
		return [3]byte{idx}
	}
	c := m.pal[idx]
	v := uint32(c.R>>(8-m.c.RSize))<<m.c.RPos | uint32(c.G>>(8-m.c.GSize))<<m.c.GPos | uint32(c.B>>(8-m.c.BSize))<<m.c.BPos
	return [3]byte{byte(v), byte(v >> 8), byte(v >> 16)}
}

// setPixel paints pixel (px, py) — py counted from the top of the text area.
func (m *c19FbModel) setPixel(px, py uint32, p [3]byte) {
	off := (py+m.logoH)*m.pitch + px*m.bytesPP
	nb := m.bytesPP
	if nb > 3 {
		nb = 3
		m.kind[off+3] = c19Any // the fourth byte of a 32 bpp pixel is not specified
	}
	for k := uint32(0); k < nb; k++ {
		m.want[off+k] = p[k]
	}
}

func (m *c19FbModel) glyphBit(ch uint8, r, col uint32) bool {
	return m.font[(uint32(ch)*m.gh+r)*m.bpr+col/8]&(0x80>>(col%8)) != 0
}

// apply computes want/kind/alt for one operation from the current model.
func (m *c19FbModel) apply(op c19Op) {
	copy(m.want, m.model)
	for i := range m.kind {
		m.kind[i] = c19Strict
	}
	switch op.Kind {
	case "write":
		if op.X < 1 || op.X > m.cols || op.Y < 1 || op.Y > m.rows {
			return
		}
		fg, bg := m.pack(op.Fg), m.pack(op.Bg)
		for r := uint32(0); r < m.gh; r++ {
			for col := uint32(0); col < m.gw; col++ {
				p := bg
				if m.glyphBit(op.Ch, r, col) {
					p = fg
				}
				m.setPixel((op.X-1)*m.gw+col, (op.Y-1)*m.gh+r, p)
			}
		}
	case "fill":
		x0, x1, y0, y1, any := c19FillRect(op, m.cols, m.rows)
		if !any {
			return
		}
		bg := m.pack(op.Bg)
		for py := (y0 - 1) * m.gh; py < y1*m.gh; py++ {
			for px := (x0 - 1) * m.gw; px < x1*m.gw; px++ {
				m.setPixel(px, py, bg)
			}
		}
	case "scroll":
		if op.Lines < 1 || op.Lines > m.rows {
			return
		}
		d := op.Lines * m.gh                   // scanlines the text moves
		cellBytes := m.cols * m.gw * m.bytesPP // bytes of a scanline that belong to cells
		keep := m.rows - op.Lines
		for s := m.logoH; s < m.c.Height; s++ { // every scanline below the logo
			// the scanline whose contents a whole-scanline move would bring here
			src, hasSrc := uint32(0), false
			if !op.Down && s+d < m.c.Height {
				src, hasSrc = s+d, true
			}
			if op.Down && s >= m.logoH+d {
				src, hasSrc = s-d, true
			}
			row := (s - m.logoH) / m.gh // 0-based grid row (>= rows: bottom remainder strip)
			for b := uint32(0); b < m.pitch; b++ {
				i := s*m.pitch + b
				inCell := row < m.rows && b < cellBytes
				moved := inCell && ((!op.Down && row < keep) || (op.Down && row >= op.Lines))
				switch {
				case moved:
					// rows [1, H-lines] take old rows [lines+1, H] (down: the reverse)
					m.want[i] = m.model[src*m.pitch+b]
					if m.bytesPP == 4 && b%4 == 3 {
						m.kind[i], m.alt[i] = c19Alt, m.model[i]
					}
				case inCell:
					m.kind[i] = c19Any // vacated row: the caller repaints it
				case hasSrc:
					// row padding and remainder strips: unchanged, or carried along
					// with the scanline that moved here
					m.kind[i], m.alt[i] = c19Alt, m.model[src*m.pitch+b]
				}
			}
		}
	}
}

// where describes byte i of the framebuffer (deterministic text).
func (m *c19FbModel) where(i int) string {
	s, b := uint32(i)/m.pitch, uint32(i)%m.pitch
	if b >= m.rowBytes {
		return fmt.Sprintf("padding byte %d after the pixels of scanline %d", b-m.rowBytes, s)
	}
	px, k := b/m.bytesPP, b%m.bytesPP
	if s < m.logoH {
		return fmt.Sprintf("logo area, pixel (%d,%d) byte %d", px, s, k)
	}
	ty := s - m.logoH
	row, col := ty/m.gh, px/m.gw
	switch {
	case row >= m.rows:
		return fmt.Sprintf("bottom remainder strip, pixel (%d,%d) byte %d", px, s, k)
	case col >= m.cols:
		return fmt.Sprintf("right remainder strip, pixel (%d,%d) byte %d", px, s, k)
	}
	return fmt.Sprintf("cell (x=%d, y=%d), glyph pixel (%d,%d) byte %d", col+1, row+1, px%m.gw, ty%m.gh, k)
}

func (c c19FbCase) describe() string {
	s := fmt.Sprintf("%dx%d px, %d bpp (R %d@%d G %d@%d B %d@%d), pitch %d+%d, font %dx%d", c.Width, c.Height, c.Bpp,
		c.RSize, c.RPos, c.GSize, c.GPos, c.BSize, c.BPos, c.Width*c.bytesPP(), c.Pad, c.GlyphW, c.GlyphH)
	if c.Logo != nil {
		s += fmt.Sprintf(", logo %dx%d align %d", c.Logo.W, c.Logo.H, c.Logo.Align)
	}
	return s
}

func c19FbRun(c c19FbCase) (*vlib.Failure, c19OpStats) {
	var st c19OpStats
	if why := c.valid(); why != "" {
		return vlib.Failf("VERIF-HARNESS framebuffer case out of range (%s)", why), st
	}
	m := &c19FbModel{c: c, bytesPP: c.bytesPP(), logoH: c.logoH(), gw: c.GlyphW, gh: c.GlyphH}
	m.rowBytes = c.Width * m.bytesPP
	m.pitch = m.rowBytes + c.Pad
	m.bpr = (m.gw + 7) / 8
	m.cols = c.Width / m.gw
	m.rows = (c.Height - m.logoH) / m.gh
	m.n = int(c.Height * m.pitch)
	geo := c.describe()

	raw, pageAddr, err := c19Buffer(m.n, c.AtStart)
	if err != nil {
		return vlib.Failf("VERIF-HARNESS guarded memory: %v", err), st
	}
	defer c19Seams(pageAddr)()

	var ci *multiboot.FramebufferRGBColorInfo
	if c.Bpp != 8 {
		ci = &multiboot.FramebufferRGBColorInfo{RedPosition: c.RPos, RedMaskSize: c.RSize, GreenPosition: c.GPos,
			GreenMaskSize: c.GSize, BluePosition: c.BPos, BlueMaskSize: c.BSize}
	}
	cons := NewVesaFbConsole(c.Width, c.Height, c.Bpp, m.pitch, ci, 0xe0000000)
	var boot *c19Boot
	if c.ViaBoot {
		typ, colour := uint8(1), []byte{c.RPos, c.RSize, c.GPos, c.GSize, c.BPos, c.BSize}
		if c.Bpp == 8 {
			typ, colour = 0, []byte{0, 0}
		}
		boot = c19BootBlock(0xe0000000, m.pitch, c.Width, c.Height, c.Bpp, typ, colour)
		boot.install()
		defer multiboot.SetInfoPtr(0)
		drv := probeForVesaFbConsole()
		var ok bool
		if cons, ok = drv.(*VesaFbConsole); !ok || cons == nil {
			return vlib.Failf("%s: probeForVesaFbConsole did not detect the framebuffer described by the boot information", geo), st
		}
	}
	if pc := vlib.CatchFault(func() {
		if e := cons.DriverInit(c19Discard{}); e != nil {
			panic("DriverInit: " + e.Message)
		}
	}); pc.Panicked {
		return vlib.Failf("DriverInit (%s): %s", geo, c19PanicText(pc)), st
	}
	if len(cons.fb) != m.n || cap(cons.fb) != m.n || uintptr(unsafe.Pointer(&cons.fb[0])) != pageAddr {
		return vlib.Failf("DriverInit (%s): framebuffer slice has %d bytes (cap %d), want height*pitch = %d bytes at the mapped page", geo, len(cons.fb), cap(cons.fb), m.n), st
	}
	if why := c19MappedCovers(0xe0000000, len(cons.fb)); why != "" {
		return vlib.Failf("DriverInit (%s): %s", geo, why), st
	}
	if !c.AtStart {
		cons.fb = raw // same bytes count, placed so that the last byte abuts the inaccessible page
	}
	fb := cons.fb
	for i := range fb {
		fb[i] = c19Prefill(i)
	}

	// Palette entries are replaced before anything is drawn, directly in the
	// palette: SetPaletteColor's replacement pass over the framebuffer is not
	// part of this property.
	if len(cons.palette) != 256 {
		return vlib.Failf("VERIF-HARNESS console palette has %d entries after DriverInit", len(cons.palette)), st
	}
	for _, p := range c.Palette {
		cons.palette[p.Index] = color.RGBA{R: p.R, G: p.G, B: p.B}
	}

	// font: all 256 glyphs, random bitmaps
	m.font = make([]byte, 256*m.bpr*m.gh)
	fg := &c19Stream{s: c.FontSeed}
	for i := range m.font {
		m.font[i] = fg.next()
	}

	m.want = make([]byte, m.n)
	m.alt = make([]byte, m.n)
	m.kind = make([]uint8, m.n)
	// runOps: SetFont for the current logo area, then the operations against the model
	fontSet := false
	runOps := func(ops []c19Op, phase string) *vlib.Failure {
		if !(fontSet && strings.HasPrefix(phase, "after a second DriverInit")) {
			// (not again after a repeated DriverInit: the font has not changed)
			cons.SetFont(&font.Font{Name: "verif", GlyphWidth: m.gw, GlyphHeight: m.gh, BytesPerRow: m.bpr,
				Data: append([]byte(nil), m.font...)})
			fontSet = true
		}
		if w, h := cons.Dimensions(Characters); w != m.cols || h != m.rows {
			return vlib.Failf("%s: the console reports a grid of %dx%d cells, want %dx%d (width/glyph width, (height-logo)/glyph height)", geo, w, h, m.cols, m.rows)
		}
		for i, pc := range cons.Palette() {
			rgba, ok := pc.(color.RGBA)
			if !ok {
				return vlib.Failf("VERIF-HARNESS palette entry %d is not an RGBA colour", i)
			}
			m.pal[i] = rgba
		}

		m.model = append(m.model[:0], fb...)
		for i, op := range ops {
			st.classify(op, m.cols, m.rows)
			switch op.Kind {
			case "write", "fill", "scroll":
			default:
				return vlib.Failf("VERIF-HARNESS unknown op kind %q", op.Kind)
			}
			m.apply(op)
			when := fmt.Sprintf("%sop %d %s on a console of %dx%d cells (%s)", phase, i, op, m.cols, m.rows, geo)
			pc := c19Exec(c, when, func() {
				switch op.Kind {
				case "write":
					cons.Write(op.Ch, op.Fg, op.Bg, op.X, op.Y)
				case "fill":
					cons.Fill(op.X, op.Y, op.W, op.H, op.Fg, op.Bg)
				case "scroll":
					dir := ScrollDirUp
					if op.Down {
						dir = ScrollDirDown
					}
					cons.Scroll(dir, op.Lines)
				}
			})
			if pc.Panicked {
				return vlib.Failf("%s: %s", when, c19PanicText(pc))
			}
			for k := 0; k < m.n; k++ {
				if fb[k] == m.want[k] || m.kind[k] == c19Any || (m.kind[k] == c19Alt && fb[k] == m.alt[k]) {
					continue
				}
				what := "a byte the operation must not touch changed"
				if m.want[k] != m.model[k] {
					what = "a byte of an addressed cell is wrong"
					if fb[k] == m.model[k] {
						what = "a byte of an addressed cell was not painted"
					}
				}
				return vlib.Failf("%s: %s: %s is %#02x, want %#02x (before the operation: %#02x)", when, what, m.where(k), fb[k], m.want[k], m.model[k])
			}
			copy(m.model, fb)
		}
		return nil
	}
	if c.Logo != nil && len(c.PreOps) > 0 {
		// first life of the console: no logo area yet
		m.logoH = 0
		m.rows = c.Height / m.gh
		if f := runOps(c.PreOps, "before the logo is installed, "); f != nil {
			return f, st
		}
		m.logoH = c.logoH()
		m.rows = (c.Height - m.logoH) / m.gh
	}
	beforeLogo := append([]byte(nil), fb...)
	// logo (through the real SetLogo, before SetFont as its doc comment requires)
	if l := c.Logo; l != nil {
		g := &c19Stream{s: l.Seed}
		img := &logo.Image{Width: l.W, Height: l.H, Align: logo.Alignment(l.Align), TransparentIndex: l.Transparent}
		for i := 0; i < int(l.NPal); i++ {
			img.Palette = append(img.Palette, color.RGBA{R: g.next(), G: g.next(), B: g.next()})
		}
		img.Data = make([]uint8, l.W*l.H)
		for i := range img.Data {
			img.Data[i] = g.next() % l.NPal
		}
		if pc := vlib.CatchFault(func() { cons.SetLogo(img) }); pc.Panicked {
			return vlib.Failf("SetLogo (%s): %s", geo, c19PanicText(pc)), st
		}
		// the logo may only have painted pixels of its own rectangle
		var lx uint32
		switch l.Align {
		case 1:
			lx = (c.Width - l.W) >> 1
		case 2:
			lx = c.Width - l.W
		}
		for i := range fb {
			s, b := uint32(i)/m.pitch, uint32(i)%m.pitch
			if s < l.H && b >= lx*m.bytesPP && b < (lx+l.W)*m.bytesPP {
				continue
			}
			if fb[i] != beforeLogo[i] {
				return vlib.Failf("SetLogo (%s) changed a byte outside the logo rectangle: %s is %#02x, was %#02x", geo, m.where(i), fb[i], beforeLogo[i]), st
			}
		}
	}

	if f := runOps(c.Ops, ""); f != nil {
		return f, st
	}
	if c.Font2Seed != 0 {
		if c.Font2W != 0 {
			if c.Font2W < 8 || c.Font2W > 16 || (c.Font2W+7)/8 != m.bpr {
				return vlib.Failf("VERIF-HARNESS second font: width %d does not keep %d bytes per glyph row", c.Font2W, m.bpr), st
			}
			m.gw = c.Font2W
			m.cols = c.Width / m.gw
		}
		fg := &c19Stream{s: c.Font2Seed}
		for i := range m.font {
			m.font[i] = fg.next()
		}
		geo += fmt.Sprintf(", then a second font %dx%d", m.gw, m.gh)
		if f := runOps(c.Ops, "after the font was replaced by another of the same size, "); f != nil {
			return f, st
		}
	}
	if len(c.PostOps) > 0 {
		buf2, page2, err := c19SecondBuffer(m.n)
		if err != nil {
			return vlib.Failf("VERIF-HARNESS guarded memory: %v", err), st
		}
		for i := range buf2 {
			buf2[i] = c19Prefill(i) ^ 0x3c
		}
		old := fb
		frozen := append([]byte(nil), old...)
		restore := c19Seams(page2)
		pc := vlib.CatchFault(func() {
			if e := cons.DriverInit(c19Discard{}); e != nil {
				panic("DriverInit: " + e.Message)
			}
		})
		restore()
		if pc.Panicked {
			return vlib.Failf("second DriverInit (%s): %s", geo, c19PanicText(pc)), st
		}
		if len(cons.fb) != m.n || uintptr(unsafe.Pointer(&cons.fb[0])) != page2 {
			return vlib.Failf("second DriverInit (%s): the framebuffer slice (%d bytes) is not the %d bytes of the new mapping", geo, len(cons.fb), m.n), st
		}
		fb = cons.fb
		checkOld := func(when string) *vlib.Failure {
			for i := range old {
				if old[i] != frozen[i] {
					return vlib.Failf("%s: the operation changed %s of the PREVIOUS mapping (the driver was initialised again and has a new framebuffer): memory outside the framebuffer was written", when, m.where(i))
				}
			}
			return nil
		}
		for i := range c.PostOps {
			if f := runOps(c.PostOps[i:i+1], fmt.Sprintf("after a second DriverInit, (post-op %d) ", i)); f != nil {
				return f, st
			}
			if f := checkOld(fmt.Sprintf("after a second DriverInit, post-op %d %s (%s)", i, c.PostOps[i], geo)); f != nil {
				return f, st
			}
		}
	}
	if boot != nil {
		if ch := boot.changed(); ch != "" {
			return vlib.Failf("%s: the driver wrote to the boot information it was created from: %s", geo, ch), st
		}
	}
	return nil, st
}

// ---------------------------------------------------------------------------
// generator

type c19Layout struct{ rp, rs, gp, gs, bp, bs uint8 }

var c19Layouts = map[uint8][]c19Layout{
	15: {{10, 5, 5, 5, 0, 5}, {0, 5, 5, 5, 10, 5}},
	16: {{11, 5, 5, 6, 0, 5}, {0, 5, 5, 6, 11, 5}, {10, 5, 5, 5, 0, 5}, {0, 5, 5, 5, 10, 5}},
	24: {{16, 8, 8, 8, 0, 8}, {0, 8, 8, 8, 16, 8}},
	32: {{16, 8, 8, 8, 0, 8}, {0, 8, 8, 8, 16, 8}},
}

// c19GenFb draws a framebuffer case. One case in twenty asks for a grid
// without cells (framebuffer narrower than a glyph, or fewer scanlines below
// the logo than a glyph is high); while finding F-C19c is open those are
// constructed around and counted through excluded.
func c19GenFb(t *rapid.T, allowEmptyGrid bool, excluded func()) c19FbCase {
	var c c19FbCase
	c.Bpp = rapid.SampledFrom([]uint8{8, 15, 16, 24, 32}).Draw(t, "bpp")
	if ls := c19Layouts[c.Bpp]; ls != nil {
		l := rapid.SampledFrom(ls).Draw(t, "layout")
		c.RPos, c.RSize, c.GPos, c.GSize, c.BPos, c.BSize = l.rp, l.rs, l.gp, l.gs, l.bp, l.bs
	}
	c.GlyphW = uint32(rapid.IntRange(8, 16).Draw(t, "glyph-w"))
	if rapid.IntRange(0, 9).Draw(t, "glyph-h-class") < 7 {
		c.GlyphH = uint32(rapid.IntRange(1, 6).Draw(t, "glyph-h"))
	} else {
		c.GlyphH = uint32(rapid.IntRange(7, 32).Draw(t, "glyph-h-tall"))
	}
	c.FontSeed = rapid.Uint64().Draw(t, "font-seed")
	lo := 1
	if rapid.IntRange(0, 19).Draw(t, "degenerate") == 0 {
		if allowEmptyGrid {
			lo = 0
		} else {
			excluded()
		}
	}
	cells := func(label string) uint32 {
		if rapid.IntRange(0, 9).Draw(t, label+"-class") < 7 {
			return uint32(rapid.IntRange(lo, 4).Draw(t, label))
		}
		return uint32(rapid.IntRange(lo, 8).Draw(t, label+"-large"))
	}
	extra := func(label string, unit uint32, min int) uint32 {
		if min == 0 && rapid.IntRange(0, 3).Draw(t, label+"-class") == 0 {
			return 0
		}
		if int(unit)-1 < min {
			return uint32(min)
		}
		return uint32(rapid.IntRange(min, int(unit)-1).Draw(t, label))
	}
	cols, rows := cells("cols"), cells("rows")
	switch rapid.IntRange(0, 59).Draw(t, "bigscreen") {
	case 0: // a portrait screen's worth of rows
		rows, cols = uint32(rapid.SampledFrom([]int{127, 128, 129, 130, 256, 257}).Draw(t, "tall-rows")), uint32(rapid.IntRange(1, 2).Draw(t, "tall-cols"))
	case 1: // a wide screen's worth of columns
		cols, rows = uint32(rapid.SampledFrom([]int{127, 128, 129, 256, 257, 513}).Draw(t, "wide-cols")), uint32(rapid.IntRange(1, 2).Draw(t, "wide-rows"))
	}
	minW := 0
	if cols == 0 {
		minW = 1
	}
	c.Width = cols*c.GlyphW + extra("extra-w", c.GlyphW, minW)
	var logoH uint32
	if rapid.IntRange(0, 9).Draw(t, "logo-class") < 5 {
		l := &c19Logo{}
		if rapid.IntRange(0, 9).Draw(t, "logo-h-class") < 7 {
			l.H = uint32(rapid.IntRange(1, 8).Draw(t, "logo-h"))
		} else {
			l.H = uint32(rapid.IntRange(9, 40).Draw(t, "logo-h-tall"))
		}
		l.W = uint32(rapid.IntRange(1, int(c.Width)).Draw(t, "logo-w"))
		l.Align = uint8(rapid.IntRange(0, 2).Draw(t, "logo-align"))
		l.NPal = uint8(rapid.IntRange(1, 8).Draw(t, "logo-npal"))
		l.Transparent = uint8(rapid.IntRange(0, int(l.NPal)).Draw(t, "logo-transparent"))
		l.Seed = rapid.Uint64().Draw(t, "logo-seed")
		c.Logo = l
		logoH = l.H
	}
	minH := 0
	if rows == 0 && logoH == 0 {
		minH = 1
	}
	c.Height = logoH + rows*c.GlyphH + extra("extra-h", c.GlyphH, minH)
	if c.Height == 0 { // glyph height 1, no rows, no logo
		c.Height = 1
	}
	if rapid.IntRange(0, 9).Draw(t, "pad-class") >= 4 {
		c.Pad = uint32(rapid.IntRange(1, 64).Draw(t, "pad"))
	}
	c.Palette = rapid.SliceOfN(rapid.Custom(func(t *rapid.T) c19Pal {
		return c19Pal{Index: rapid.Byte().Draw(t, "index"), R: rapid.Byte().Draw(t, "r"), G: rapid.Byte().Draw(t, "g"), B: rapid.Byte().Draw(t, "b")}
	}), 0, 6).Draw(t, "palette")
	c.AtStart = rapid.IntRange(0, 3).Draw(t, "placement") == 0
	c.ViaBoot = rapid.IntRange(0, 2).Draw(t, "viaboot") == 0

	// colours worth drawing besides 0..15: the replaced entries and the entries
	// the logo was remapped to
	var special []uint8
	for _, p := range c.Palette {
		special = append(special, p.Index)
	}
	if c.Logo != nil {
		for i := 0; i < int(c.Logo.NPal); i++ {
			special = append(special, uint8(256-int(c.Logo.NPal)+i))
		}
	}
	gridRows := (c.Height - logoH) / c.GlyphH
	bytesPP := uint32(c.Bpp+7) / 8
	mults := []uint32{c.GlyphW, c.GlyphH, c.GlyphW * bytesPP, c.Width*bytesPP + c.Pad, c.GlyphH * (c.Width*bytesPP + c.Pad)}
	c.Ops = rapid.SliceOfN(c19GenOp(c.Width/c.GlyphW, gridRows, special, mults), 1, 25).Draw(t, "ops")
	if rapid.IntRange(0, 2).Draw(t, "fewglyphs") == 0 {
		// a screen that shows the same few characters in the same few colours over and over (a
		// prompt, a progress line): the writes of this case use two characters, two foreground
		// and two background colours, and hit the same cells again after scrolls
		var first *c19Op
		for i := range c.Ops {
			if c.Ops[i].Kind == "write" {
				if first == nil {
					first = &c.Ops[i]
				}
				op := &c.Ops[i]
				op.Ch = first.Ch + op.Ch%2
				if op.Fg%2 == 0 {
					op.Fg = first.Fg
				} else {
					op.Fg = first.Bg
				}
				if op.Bg%2 == 0 {
					op.Bg = first.Bg
				} else {
					op.Bg = first.Fg
				}
				if cols := c.Width / c.GlyphW; cols > 0 && gridRows > 0 {
					op.X, op.Y = 1+op.X%cols%2, gridRows-op.Y%gridRows%3 // near the bottom-left corner
				}
			}
		}
	}
	if c.Logo != nil && rapid.IntRange(0, 3).Draw(t, "drawbeforelogo") == 0 {
		c.PreOps = rapid.SliceOfN(c19GenOp(c.Width/c.GlyphW, c.Height/c.GlyphH, special, mults), 1, 6).Draw(t, "preops")
	}
	if rapid.IntRange(0, 5).Draw(t, "secondfont") == 0 {
		c.Font2Seed = rapid.Uint64Min(1).Draw(t, "font2-seed")
		if rapid.Bool().Draw(t, "font2-otherwidth") {
			lo, hi := uint32(8), uint32(8)
			if c.GlyphW > 8 {
				lo, hi = 9, 16
			}
			c.Font2W = rapid.Uint32Range(lo, hi).Draw(t, "font2-w")
		}
	}
	if rapid.IntRange(0, 7).Draw(t, "reinit") == 0 {
		c.PostOps = rapid.SliceOfN(c19GenOp(c.Width/c.GlyphW, gridRows, special, mults), 1, 6).Draw(t, "postops")
	}
	return c
}

func c19FbLabels(c c19FbCase, st c19OpStats) (bool, []string) {
	labels := append([]string{"driver=vesa-fb", fmt.Sprintf("depth=%d", c.Bpp)}, st.labels()...)
	add := func(b bool, name string) {
		if b {
			labels = append(labels, name)
		}
	}
	cols, rows := c.Width/c.GlyphW, (c.Height-c.logoH())/c.GlyphH
	add(c.GlyphW > 8, "glyph-width>8 (2-byte glyph rows)")
	add(c.GlyphW == 16, "glyph-width=16")
	add(c.Logo != nil, "logo-offset>0")
	add(c.Pad > 0, "pitch>row-bytes")
	add(c.ViaBoot, "created-from-boot-information")
	add(len(c.PreOps) > 0, "drawn-on-before-the-logo-is-installed")
	add(len(c.PostOps) > 0, "driver-initialised-a-second-time")
	add(c.Font2Seed != 0, "font-replaced-by-another-of-the-same-size-then-drawn-again")
	add(c.Bpp != 8 && c.RPos < c.BPos, "layout-bgr")
	add(c.Bpp == 16 && c.GSize == 5, "depth=16-with-555-masks")
	add(c.Width%c.GlyphW != 0, "right-remainder-strip")
	add((c.Height-c.logoH())%c.GlyphH != 0, "bottom-remainder-strip")
	add(cols == 0 || rows == 0, "grid-without-cells")
	add(c.AtStart, "buffer-start-abuts-guard-page")
	add(!c.AtStart, "buffer-end-abuts-guard-page")
	add(st.writeIn && c.GlyphW > 8, "write-in-grid-with-2-byte-glyph-rows")
	add(st.scrollUp && c.Logo != nil, "scroll-up-with-logo")
	add(st.scrollDown && c.Logo != nil, "scroll-down-with-logo")
	nontrivial := (c.Pad > 0 || c.Logo != nil) && st.beyond && st.inGrid
	return nontrivial, labels
}

func TestVerifC19Fb(t *testing.T) {
	st := vlib.For("C19")
	defer vlib.Flush()
	allowEmpty := !vlib.OpenFinding("F-C19c")
	rapid.Check(t, func(t *rapid.T) {
		c := c19GenFb(t, allowEmpty, func() { st.Exclude("F-C19c: grid without cells") })
		fail, rs := c19FbRun(c)
		nt, labels := c19FbLabels(c, rs)
		st.Case(c, nt, labels...)
		vlib.Report(t, "C19", c, fail)
	})
}

func TestVerifC19FbReplay(t *testing.T) {
	var c c19FbCase
	ok, err := vlib.LoadReplay(&c)
	if !ok {
		t.Skip("no replay requested")
	}
	if err != nil {
		t.Fatalf("VERIF-HARNESS cannot load replay: %v", err)
	}
	fail, _ := c19FbRun(c)
	vlib.Report(t, "C19", c, fail)
}
