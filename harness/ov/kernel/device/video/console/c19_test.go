//go:build verif && go1.21

package console

// C19 — console drivers paint exactly the addressed cells, never outside the
// framebuffer.
//
// This file holds what both drivers share (operation type, argument
// generators, guarded memory, panic text) and the check of the VGA text-mode
// driver; c19_fb_test.go holds the check of the VESA framebuffer driver.
//
// Oracle: a cell-level (framebuffer: byte-level) reference model written from
// the statement is applied in parallel with the real driver; after every
// operation the whole buffer is compared with the model.

import (
	"fmt"
	"io"
	"regexp"
	"sync"
	"syscall"
	"testing"
	"time"
	"unsafe"

	"github.com/ProjectSerenity/firefly/kernel"
	"github.com/ProjectSerenity/firefly/kernel/mm"
	"github.com/ProjectSerenity/firefly/kernel/mm/vmm"
	"pgregory.net/rapid"
	"verifharness/vlib"
)

// c19Op is one console operation with absolute 32-bit arguments.
type c19Op struct {
	Kind  string `json:"kind"` // write | fill | scroll
	Ch    uint8  `json:"ch,omitempty"`
	Fg    uint8  `json:"fg"`
	Bg    uint8  `json:"bg"`
	X     uint32 `json:"x,omitempty"`
	Y     uint32 `json:"y,omitempty"`
	W     uint32 `json:"w,omitempty"`
	H     uint32 `json:"h,omitempty"`
	Down  bool   `json:"down,omitempty"`
	Lines uint32 `json:"lines,omitempty"`
}

func (op c19Op) String() string {
	switch op.Kind {
	case "write":
		return fmt.Sprintf("Write(ch=%#02x, fg=%d, bg=%d, x=%d, y=%d)", op.Ch, op.Fg, op.Bg, op.X, op.Y)
	case "fill":
		return fmt.Sprintf("Fill(x=%d, y=%d, width=%d, height=%d, fg=%d, bg=%d)", op.X, op.Y, op.W, op.H, op.Fg, op.Bg)
	case "scroll":
		if op.Down {
			return fmt.Sprintf("Scroll(down, lines=%d)", op.Lines)
		}
		return fmt.Sprintf("Scroll(up, lines=%d)", op.Lines)
	}
	return "unknown op " + op.Kind
}

// c19OpStats is what a run reports about its op list (class labels and the
// non-trivial rule).
type c19OpStats struct {
	inGrid, beyond, zeroCoord, huge                    bool
	writeIn, fillIn, fillClipped, scrollUp, scrollDown bool
	scrollIgnored                                      bool
}

// c19Classify evaluates the op against a cols x rows grid (64-bit arithmetic).
func (s *c19OpStats) classify(op c19Op, cols, rows uint32) {
	const big = 1 << 31
	switch op.Kind {
	case "write":
		if op.X >= 1 && op.X <= cols && op.Y >= 1 && op.Y <= rows {
			s.inGrid, s.writeIn = true, true
		}
		if op.X > cols || op.Y > rows {
			s.beyond = true
		}
		if op.X == 0 || op.Y == 0 {
			s.zeroCoord = true
		}
		if op.X >= big || op.Y >= big {
			s.huge = true
		}
	case "fill":
		x0, x1, y0, y1, any := c19FillRect(op, cols, rows)
		originIn := op.X >= 1 && op.X <= cols && op.Y >= 1 && op.Y <= rows
		clipped := any && (uint64(x0)+uint64(op.W)-1 > uint64(x1) || uint64(y0)+uint64(op.H)-1 > uint64(y1))
		if originIn && any && !clipped {
			s.inGrid, s.fillIn = true, true
		}
		if op.X > cols || op.Y > rows || clipped {
			s.beyond = true
		}
		if clipped {
			s.fillClipped = true
		}
		if op.X == 0 || op.Y == 0 {
			s.zeroCoord = true
		}
		if op.X >= big || op.Y >= big || op.W >= big || op.H >= big {
			s.huge = true
		}
	case "scroll":
		if op.Lines >= 1 && op.Lines <= rows {
			s.inGrid = true
			if op.Down {
				s.scrollDown = true
			} else {
				s.scrollUp = true
			}
		} else {
			s.scrollIgnored = true
		}
		if op.Lines > rows {
			s.beyond = true
		}
		if op.Lines >= big {
			s.huge = true
		}
	}
}

func (s c19OpStats) labels() []string {
	var l []string
	add := func(b bool, name string) {
		if b {
			l = append(l, name)
		}
	}
	add(s.inGrid, "has-in-grid-op")
	add(s.beyond, "has-op-beyond-grid-edge")
	add(s.zeroCoord, "has-zero-coordinate")
	add(s.huge, "has-argument>=2^31")
	add(s.writeIn, "write-in-grid")
	add(s.fillIn, "fill-inside-grid")
	add(s.fillClipped, "fill-clipped")
	add(s.scrollUp, "scroll-up-effective")
	add(s.scrollDown, "scroll-down-effective")
	add(s.scrollIgnored, "scroll-ignored-line-count")
	return l
}

// c19FillRect is the statement's Fill rectangle on a cols x rows grid: origin
// clamped into the grid, extent clipped at the right and bottom edges, all in
// 64-bit arithmetic. any is false when no cell is addressed (empty extent or a
// grid without cells). Coordinates are 1-based and inclusive.
func c19FillRect(op c19Op, cols, rows uint32) (x0, x1, y0, y1 uint32, any bool) {
	if cols == 0 || rows == 0 || op.W == 0 || op.H == 0 {
		return 0, 0, 0, 0, false
	}
	clamp := func(v, max uint32) uint32 {
		if v == 0 {
			return 1
		}
		if v > max {
			return max
		}
		return v
	}
	x0, y0 = clamp(op.X, cols), clamp(op.Y, rows)
	ex, ey := uint64(x0)+uint64(op.W)-1, uint64(y0)+uint64(op.H)-1
	if ex > uint64(cols) {
		ex = uint64(cols)
	}
	if ey > uint64(rows) {
		ey = uint64(rows)
	}
	return x0, uint32(ex), y0, uint32(ey), true
}

// ---------------------------------------------------------------------------
// guarded memory shared by all cases of the process

const c19RegionBytes = 8 << 20

var (
	c19Once   sync.Once
	c19Mem    *vlib.Guarded
	c19MemErr error
)

// c19Buffer returns n bytes of the guarded block: the last n bytes (the byte
// after the buffer is inaccessible) or, with atStart, the first n bytes (the
// byte before it is inaccessible), plus the block's first page address.
func c19Buffer(n int, atStart bool) ([]byte, uintptr, error) {
	c19Once.Do(func() { c19Mem, c19MemErr = vlib.NewGuarded(c19RegionBytes, false) })
	if c19MemErr != nil {
		return nil, 0, c19MemErr
	}
	if n <= 0 || n > len(c19Mem.Data) {
		return nil, 0, fmt.Errorf("buffer of %d bytes does not fit the guarded block", n)
	}
	if atStart {
		h := c19Mem.Head(n)
		return h[:n:n], c19Mem.Addr(), nil
	}
	tl := c19Mem.Tail(n)
	return tl[:n:n], c19Mem.Addr(), nil
}

var (
	c19Once2   sync.Once
	c19Mem2    *vlib.Guarded
	c19MemErr2 error
)

// c19SecondBuffer is a second guarded block of the same size: the place a repeated DriverInit
// maps the framebuffer to. It returns the first n bytes and the block's page address.
func c19SecondBuffer(n int) ([]byte, uintptr, error) {
	c19Once2.Do(func() { c19Mem2, c19MemErr2 = vlib.NewGuarded(c19RegionBytes, false) })
	if c19MemErr2 != nil {
		return nil, 0, c19MemErr2
	}
	if n <= 0 || n > len(c19Mem2.Data) {
		return nil, 0, fmt.Errorf("buffer of %d bytes does not fit the second guarded block", n)
	}
	h := c19Mem2.Head(n)
	return h[:n:n], c19Mem2.Addr(), nil
}

var c19HexRe = regexp.MustCompile(`0x[0-9a-fA-F]+`)

// c19PanicText renders a captured panic without host addresses.
func c19PanicText(pc vlib.Caught) string {
	v := fmt.Sprint(pc.Value)
	if e, ok := pc.Value.(error); ok {
		v = e.Error()
	}
	v = c19HexRe.ReplaceAllString(v, "0x?")
	return "panic: " + v + "\n" + pc.Stack
}

// c19Exec runs one driver call on its own goroutine under CatchFault. Normal
// calls take microseconds; a call during which the process has burnt more than
// c19CPULimit of CPU time is stuck in a runaway loop (CPU time, not wall time,
// so that a starved machine cannot trip it). The stuck goroutine cannot be
// stopped and keeps writing to the shared buffer, so the process reports the
// case (unshrunk) and exits.
const c19CPULimit = 2500 * time.Millisecond

func c19CPUTime() time.Duration {
	var ru syscall.Rusage
	if err := syscall.Getrusage(syscall.RUSAGE_SELF, &ru); err != nil {
		return 0
	}
	return time.Duration(ru.Utime.Nano() + ru.Stime.Nano())
}

func c19Exec(c interface{}, when string, f func()) vlib.Caught {
	done := make(chan vlib.Caught, 1)
	go func() { done <- vlib.CatchFault(f) }()
	select {
	case pc := <-done: // the common case: no timer needed
		return pc
	case <-time.After(50 * time.Millisecond):
	}
	start := c19CPUTime()
	tick := time.NewTicker(500 * time.Millisecond)
	defer tick.Stop()
	for {
		select {
		case pc := <-done:
			return pc
		case <-tick.C:
			if c19CPUTime()-start > c19CPULimit {
				vlib.Die("C19", c, vlib.Failf("%s: the call is still running after %v of CPU time (runaway loop over rows/columns that are not in the grid)", when, c19CPULimit))
			}
		}
	}
}

type c19Discard struct{}

func (c19Discard) Write(p []byte) (int, error) { return len(p), nil }

var _ io.Writer = c19Discard{}

// c19Mapped records what the driver asked the map seam for since the last c19Seams call.
type c19MapCall struct {
	frame mm.Frame
	size  uintptr
}

var c19Mapped []c19MapCall

// c19MappedCovers checks that the driver mapped the physical range [phys, phys+n): one request,
// starting at the frame of phys, whose size rounded up to whole pages (what vmm.MapRegion maps)
// reaches the last byte. Memory beyond that is not the framebuffer's.
func c19MappedCovers(phys uintptr, n int) string {
	if len(c19Mapped) != 1 {
		return fmt.Sprintf("the driver made %d mapping requests, want exactly one", len(c19Mapped))
	}
	r := c19Mapped[0]
	if r.frame != mm.Frame(phys>>12) {
		return fmt.Sprintf("the driver mapped frame %#x, the framebuffer is at physical address %#x", uintptr(r.frame), phys)
	}
	if pages := (r.size + 4095) >> 12; pages<<12 < uintptr(n) {
		return fmt.Sprintf("the driver asked for %d bytes to be mapped (%d pages) but uses a framebuffer slice of %d bytes: its last %d bytes lie on a page the driver never mapped", r.size, pages, n, uintptr(n)-pages<<12)
	}
	return ""
}

// c19Seams points the package seams at the guarded block and returns the
// function that restores them.
func c19Seams(pageAddr uintptr) func() {
	oldMap, oldPort := mapRegionFn, portWriteByteFn
	c19Mapped = c19Mapped[:0]
	mapRegionFn = func(f mm.Frame, size uintptr, _ vmm.PageTableEntryFlag) (mm.Page, *kernel.Error) {
		c19Mapped = append(c19Mapped, c19MapCall{f, size})
		return mm.PageFromAddress(pageAddr), nil
	}
	portWriteByteFn = func(uint16, uint8) {}
	return func() { mapRegionFn, portWriteByteFn = oldMap, oldPort }
}

// ---------------------------------------------------------------------------
// generators shared by both drivers

// c19GenArg draws a 32-bit argument relative to a grid edge (the number of
// columns or rows): {0, 1, edge-1, edge, edge+1, 2^31, 2^32-1, values that wrap
// a 32-bit sum back into the grid, values whose 32-bit product with one of
// mults wraps back to a small number, any, and - most often - a value in
// [0, edge+1]}.
func c19GenArg(t *rapid.T, label string, edge uint32, mults []uint32) uint32 {
	cls := rapid.IntRange(0, 17).Draw(t, label+"-class")
	if cls >= 16 {
		// a value v outside the grid whose 32-bit product with one of the
		// factors the driver multiplies coordinates by (glyph size, pitch, bytes
		// per cell ...) wraps back to a small number: v = ceil(k*2^32/m) + d
		if len(mults) == 0 {
			cls = 7
		} else {
			m := uint64(rapid.SampledFrom(mults).Draw(t, label+"-wrap-factor"))
			if m < 2 {
				m = 2
			}
			k := uint64(rapid.IntRange(1, int(m)-1).Draw(t, label+"-wrap-k"))
			d := int64(rapid.IntRange(-1, int(edge)+2).Draw(t, label+"-wrap-d"))
			return uint32(int64((k<<32+m-1)/m) + d)
		}
	}
	switch cls {
	case 0:
		return 0
	case 1:
		return 1
	case 2:
		if edge == 0 {
			return 0
		}
		return edge - 1
	case 3:
		return edge
	case 4:
		return edge + 1
	case 5:
		return 1 << 31
	case 6:
		return 1<<32 - 1
	case 7:
		return rapid.Uint32().Draw(t, label+"-any")
	case 8:
		return 1<<32 - 1 - rapid.Uint32Range(0, edge+2).Draw(t, label+"-wrap")
	case 9:
		return rapid.SampledFrom([]uint32{2, 1<<31 - 1, 1<<31 + 1, 1<<32 - 2, 1 << 16, 1 << 24, 1 << 28}).Draw(t, label+"-special")
	default:
		return rapid.Uint32Range(0, edge+1).Draw(t, label)
	}
}

// c19GenColour draws a palette index; special lists the indices that matter
// for the console at hand in addition to the generic boundaries.
func c19GenColour(t *rapid.T, label string, special []uint8) uint8 {
	switch rapid.IntRange(0, 9).Draw(t, label+"-class") {
	case 0:
		return rapid.SampledFrom([]uint8{0, 7, 14, 15, 16, 17, 127, 128, 254, 255}).Draw(t, label+"-edge")
	case 1:
		return rapid.Byte().Draw(t, label+"-any")
	case 2, 3:
		if len(special) > 0 {
			return rapid.SampledFrom(special).Draw(t, label+"-special")
		}
		fallthrough
	default:
		return uint8(rapid.IntRange(0, 15).Draw(t, label))
	}
}

// c19GenOp returns a generator of operations for a cols x rows grid. Four in
// ten operations lie entirely inside the grid (when it has cells), the others
// draw every argument with c19GenArg.
func c19GenOp(cols, rows uint32, colours []uint8, mults []uint32) *rapid.Generator[c19Op] {
	return rapid.Custom(func(t *rapid.T) c19Op {
		var op c19Op
		inside := cols > 0 && rows > 0 && rapid.IntRange(0, 9).Draw(t, "inside") >= 6
		arg := func(label string, edge, lo, hi uint32) uint32 {
			if inside {
				return rapid.Uint32Range(lo, hi).Draw(t, label+"-inside")
			}
			return c19GenArg(t, label, edge, mults)
		}
		switch rapid.IntRange(0, 9).Draw(t, "kind") {
		case 0, 1, 2, 3:
			op.Kind = "write"
			op.Ch = rapid.Byte().Draw(t, "ch")
			op.Fg = c19GenColour(t, "fg", colours)
			op.Bg = c19GenColour(t, "bg", colours)
			op.X = arg("x", cols, 1, cols)
			op.Y = arg("y", rows, 1, rows)
		case 4, 5, 6:
			op.Kind = "fill"
			op.Fg = c19GenColour(t, "fg", colours)
			op.Bg = c19GenColour(t, "bg", colours)
			op.X = arg("x", cols, 1, cols)
			op.Y = arg("y", rows, 1, rows)
			op.W = arg("w", cols, 1, cols-op.X+1)
			op.H = arg("h", rows, 1, rows-op.Y+1)
		default:
			op.Kind = "scroll"
			op.Down = rapid.Bool().Draw(t, "down")
			op.Lines = arg("lines", rows, 1, rows)
		}
		return op
	})
}

// c19Prefill is the known pattern the buffers are filled with before the
// console is set up (a function of the byte offset only).
func c19Prefill(i int) byte {
	return byte((i*167+(i>>8)*31+(i>>16)*7)^0x5a) | 0x80
}

// ---------------------------------------------------------------------------
// VGA text-mode driver

type c19TextCase struct {
	Cols    uint32  `json:"cols"`
	Rows    uint32  `json:"rows"`
	AtStart bool    `json:"at_start,omitempty"` // the buffer START abuts an inaccessible page (default: its END)
	Ops     []c19Op `json:"ops"`
}

func c19TextRun(c c19TextCase) (*vlib.Failure, c19OpStats) {
	var st c19OpStats
	if c.Cols < 1 || c.Cols > 100 || c.Rows < 1 || c.Rows > 50 {
		return vlib.Failf("VERIF-HARNESS text case geometry %dx%d out of range", c.Cols, c.Rows), st
	}
	cols, rows := c.Cols, c.Rows
	n := int(cols * rows)
	raw, pageAddr, err := c19Buffer(2*n, c.AtStart)
	if err != nil {
		return vlib.Failf("VERIF-HARNESS guarded memory: %v", err), st
	}
	for i := range raw {
		raw[i] = c19Prefill(i)
	}
	defer c19Seams(pageAddr)()

	cons := NewVgaTextConsole(cols, rows, 0xb8000)
	if pc := vlib.CatchFault(func() {
		if e := cons.DriverInit(c19Discard{}); e != nil {
			panic("DriverInit: " + e.Message)
		}
	}); pc.Panicked {
		return vlib.Failf("DriverInit of a %dx%d text console: %s", cols, rows, c19PanicText(pc)), st
	}
	if len(cons.fb) != n || cap(cons.fb) != n || uintptr(unsafe.Pointer(&cons.fb[0])) != pageAddr {
		return vlib.Failf("DriverInit of a %dx%d text console: framebuffer slice has %d cells (cap %d), want %d cells at the mapped page", cols, rows, len(cons.fb), cap(cons.fb), n), st
	}
	if why := c19MappedCovers(0xb8000, 2*len(cons.fb)); why != "" {
		return vlib.Failf("DriverInit of a %dx%d text console: %s", cols, rows, why), st
	}
	if !c.AtStart {
		// same construction, placed so that the last cell abuts the inaccessible page
		cons.fb = unsafe.Slice((*uint16)(unsafe.Pointer(&raw[0])), n)[:n:n]
	}
	fb := cons.fb
	if w, h := cons.Dimensions(Characters); w != cols || h != rows {
		return vlib.Failf("%dx%d text console reports a grid of %dx%d cells", cols, rows, w, h), st
	}
	defFg, defBg := cons.DefaultColors()
	nColours := len(cons.Palette())
	if nColours != 16 {
		return vlib.Failf("VERIF-HARNESS text console palette has %d entries, the check assumes 16", nColours), st
	}

	model := make([]uint16, n)
	copy(model, fb)
	want := make([]uint16, n)
	mask := make([]uint16, n) // bits of the cell that are asserted
	cell := func(x, y uint32) int { return int((y-1)*cols + (x - 1)) }

	for i, op := range c.Ops {
		st.classify(op, cols, rows)
		copy(want, model)
		for k := range mask {
			mask[k] = 0xffff
		}
		switch op.Kind {
		case "write":
			if op.X >= 1 && op.X <= cols && op.Y >= 1 && op.Y <= rows {
				fg, bg := op.Fg, op.Bg
				if fg > 15 {
					fg = defFg
				}
				if bg > 15 {
					bg = defBg
				}
				want[cell(op.X, op.Y)] = (uint16(bg)<<4|uint16(fg))<<8 | uint16(op.Ch)
			}
		case "fill":
			if x0, x1, y0, y1, any := c19FillRect(op, cols, rows); any {
				for y := y0; y <= y1; y++ {
					for x := x0; x <= x1; x++ {
						k := cell(x, y)
						if op.Fg <= 15 && op.Bg <= 15 {
							want[k] = (uint16(op.Bg)<<4|uint16(op.Fg))<<8 | ' '
						} else {
							// colours the console does not support: only the blank character is asserted
							want[k] = want[k]&0xff00 | ' '
							mask[k] = 0x00ff
						}
					}
				}
			}
		case "scroll":
			if op.Lines >= 1 && op.Lines <= rows {
				keep := rows - op.Lines
				for y := uint32(1); y <= rows; y++ {
					for x := uint32(1); x <= cols; x++ {
						k := cell(x, y)
						switch {
						case !op.Down && y <= keep:
							want[k] = model[cell(x, y+op.Lines)]
						case op.Down && y > op.Lines:
							want[k] = model[cell(x, y-op.Lines)]
						default:
							mask[k] = 0 // vacated row: the caller repaints it
						}
					}
				}
			}
		default:
			return vlib.Failf("VERIF-HARNESS unknown op kind %q", op.Kind), st
		}

		when := fmt.Sprintf("op %d %s on a %dx%d text console", i, op, cols, rows)
		pc := c19Exec(c, when, func() {
			switch op.Kind {
			case "write":
				cons.Write(op.Ch, op.Fg, op.Bg, op.X, op.Y)
			case "fill":
				cons.Fill(op.X, op.Y, op.W, op.H, op.Fg, op.Bg)
			case "scroll":
				dir := ScrollDirUp
				if op.Down {
					dir = ScrollDirDown
				}
				cons.Scroll(dir, op.Lines)
			}
		})
		if pc.Panicked {
			return vlib.Failf("%s: %s", when, c19PanicText(pc)), st
		}
		for k := 0; k < n; k++ {
			if (fb[k]^want[k])&mask[k] != 0 {
				x, y := uint32(k)%cols+1, uint32(k)/cols+1
				what := "a cell the operation does not address changed"
				if want[k] != model[k] || mask[k] != 0xffff {
					what = "addressed cell has the wrong contents"
				}
				return vlib.Failf("%s: %s: cell (x=%d, y=%d) is %#04x, want %#04x (asserted bits %#04x; before the operation: %#04x)", when, what, x, y, fb[k], want[k], mask[k], model[k]), st
			}
		}
		copy(model, fb)
	}
	return nil, st
}

func c19GenText(t *rapid.T) c19TextCase {
	var c c19TextCase
	dim := func(label string, small, max int) uint32 {
		if rapid.IntRange(0, 9).Draw(t, label+"-class") < 6 {
			return uint32(rapid.IntRange(1, small).Draw(t, label))
		}
		return uint32(rapid.IntRange(1, max).Draw(t, label+"-large"))
	}
	c.Cols = dim("cols", 8, 100)
	c.Rows = dim("rows", 6, 50)
	c.AtStart = rapid.IntRange(0, 3).Draw(t, "placement") == 0
	c.Ops = rapid.SliceOfN(c19GenOp(c.Cols, c.Rows, nil, []uint32{2, c.Cols, 2 * c.Cols}), 1, 30).Draw(t, "ops")
	return c
}

func c19TextLabels(c c19TextCase, st c19OpStats) (bool, []string) {
	labels := append([]string{"driver=vga-text"}, st.labels()...)
	if c.AtStart {
		labels = append(labels, "buffer-start-abuts-guard-page")
	} else {
		labels = append(labels, "buffer-end-abuts-guard-page")
	}
	var c15, cBig bool
	for _, op := range c.Ops {
		if op.Kind == "write" && op.X >= 1 && op.X <= c.Cols && op.Y >= 1 && op.Y <= c.Rows {
			c15 = c15 || op.Bg == 15 || op.Fg == 15
			cBig = cBig || op.Bg > 15 || op.Fg > 15
		}
	}
	if c15 {
		labels = append(labels, "text-write-colour-15")
	}
	if cBig {
		labels = append(labels, "text-write-colour>15")
	}
	// text mode has neither pitch padding nor a logo: the rule is the op part
	return st.inGrid && st.beyond, labels
}

func TestVerifC19Text(t *testing.T) {
	st := vlib.For("C19")
	defer vlib.Flush()
	rapid.Check(t, func(t *rapid.T) {
		c := c19GenText(t)
		fail, rs := c19TextRun(c)
		nt, labels := c19TextLabels(c, rs)
		st.Case(c, nt, labels...)
		vlib.Report(t, "C19", c, fail)
	})
}

func TestVerifC19TextReplay(t *testing.T) {
	var c c19TextCase
	ok, err := vlib.LoadReplay(&c)
	if !ok {
		t.Skip("no replay requested")
	}
	if err != nil {
		t.Fatalf("VERIF-HARNESS cannot load replay: %v", err)
	}
	fail, _ := c19TextRun(c)
	vlib.Report(t, "C19", c, fail)
}
