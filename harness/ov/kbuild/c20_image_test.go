//go:build verif && go1.21

package main

// C20, second stage — the table as it lands in the kernel image.
//
// "... so the kernel image is reproducible": after FindRedirects the REAL
// (*Context).CompleteRedirects is run against a synthetic ELF64 image built by
// the harness. The image has a .goredirectstbl section pre-filled with a
// sentinel byte, a symbol table that defines every source and destination
// symbol of the tree at a distinct non-zero address (plus look-alike decoys:
// names that extend, truncate or re-case a real symbol), and sentinel-filled
// padding around the section. Afterwards
//
//   - the section must start with exactly one (source address, destination
//     address) pair of little-endian uint64 per annotation of the tree, compared
//     as a multiset with the pairs the model predicts,
//   - every other byte of the file, including the unused rest of the section,
//     must be unchanged,
//   - a second build of the same tree (fresh Context, fresh copy of the image)
//     must produce a byte-identical image.
//
// The order of the pairs inside the image is not asserted against anything but
// the second build.

import (
	"bytes"
	"encoding/binary"
	"fmt"
	"hash/fnv"
	"os"
	"path/filepath"
	"sort"
	"strings"

	"verifharness/vlib"
)

const (
	c20Sentinel = 0xA5
	c20TblSlack = 48 // unused bytes of the section behind the last entry
)

type c20Image struct {
	bytes    []byte
	tblOff   int
	tblSize  int
	addr     map[string]uint64
	nSymbols int
}

func c20Hash(s string) uint64 {
	h := fnv.New64a()
	h.Write([]byte(s))
	return h.Sum64()
}

// c20BuildImage lays out: ELF header | pad | .goredirectstbl | pad | .symtab |
// .strtab | .shstrtab | section headers. Everything is a pure function of the
// entry list.
func c20BuildImage(model []c20Entry) c20Image {
	names := map[string]bool{}
	for _, e := range model {
		names[e.Src] = true
		names[e.Dst] = true
	}
	real := make([]string, 0, len(names))
	for n := range names {
		real = append(real, n)
	}
	sort.Strings(real)
	// decoys: never equal to a real symbol
	all := append([]string(nil), real...)
	addDecoy := func(n string) {
		if n == "" || names[n] || strings.ContainsRune(n, 0) {
			return
		}
		for _, o := range all {
			if o == n {
				return
			}
		}
		all = append(all, n)
	}
	for _, n := range real {
		switch c20Hash(n) % 5 {
		case 0:
			addDecoy(n + "x")
		case 1:
			addDecoy(n[:len(n)-1])
		case 2:
			addDecoy(strings.ToUpper(n))
		case 3:
			if i := strings.LastIndexByte(n, '.'); i >= 0 {
				addDecoy(n[i+1:])
			}
		}
	}
	addDecoy("runtime.text")
	// symbol order: by hash, so that sources, destinations and decoys interleave
	sort.Slice(all, func(i, j int) bool {
		hi, hj := c20Hash("o"+all[i]), c20Hash("o"+all[j])
		if hi != hj {
			return hi < hj
		}
		return all[i] < all[j]
	})
	img := c20Image{addr: map[string]uint64{}, nSymbols: len(all)}
	for i, n := range all {
		// distinct, non-zero, all eight bytes significant
		a := 0xffffffff80100000 + uint64(i)*0x10 + (c20Hash(n)%7+1)*0x01000000
		if names[n] {
			img.addr[n] = a
		}
		_ = a
	}

	var strtab bytes.Buffer
	strtab.WriteByte(0)
	var symtab bytes.Buffer
	symtab.Write(make([]byte, 24)) // null symbol
	for i, n := range all {
		off := strtab.Len()
		strtab.WriteString(n)
		strtab.WriteByte(0)
		a := 0xffffffff80100000 + uint64(i)*0x10 + (c20Hash(n)%7+1)*0x01000000
		var s [24]byte
		binary.LittleEndian.PutUint32(s[0:], uint32(off))
		s[4] = 0x12 // GLOBAL FUNC
		binary.LittleEndian.PutUint16(s[6:], 1)
		binary.LittleEndian.PutUint64(s[8:], a)
		binary.LittleEndian.PutUint64(s[16:], 8)
		symtab.Write(s[:])
	}
	shnames := []string{"", ".goredirectstbl", ".symtab", ".strtab", ".shstrtab"}
	var shstr bytes.Buffer
	shoff := make([]int, len(shnames))
	for i, n := range shnames {
		shoff[i] = shstr.Len()
		shstr.WriteString(n)
		shstr.WriteByte(0)
	}

	pad1 := 8 + int(c20Hash(fmt.Sprint(len(model)))%5)*8
	img.tblOff = 64 + pad1
	img.tblSize = 16*len(model) + c20TblSlack
	pad2 := 24
	symOff := img.tblOff + img.tblSize + pad2
	strOff := symOff + symtab.Len()
	shstrOff := strOff + strtab.Len()
	shdrOff := (shstrOff + shstr.Len() + 7) &^ 7

	b := make([]byte, shdrOff+64*len(shnames))
	for i := range b {
		b[i] = c20Sentinel
	}
	// ELF header
	h := b[:64]
	for i := range h {
		h[i] = 0
	}
	copy(h, []byte{0x7f, 'E', 'L', 'F', 2, 1, 1, 0})
	binary.LittleEndian.PutUint16(h[16:], 2)  // ET_EXEC
	binary.LittleEndian.PutUint16(h[18:], 62) // EM_X86_64
	binary.LittleEndian.PutUint32(h[20:], 1)
	binary.LittleEndian.PutUint64(h[24:], 0xffffffff80100000)
	binary.LittleEndian.PutUint64(h[40:], uint64(shdrOff))
	binary.LittleEndian.PutUint16(h[52:], 64) // ehsize
	binary.LittleEndian.PutUint16(h[54:], 56) // phentsize
	binary.LittleEndian.PutUint16(h[58:], 64) // shentsize
	binary.LittleEndian.PutUint16(h[60:], uint16(len(shnames)))
	binary.LittleEndian.PutUint16(h[62:], 4) // shstrndx
	copy(b[symOff:], symtab.Bytes())
	copy(b[strOff:], strtab.Bytes())
	copy(b[shstrOff:], shstr.Bytes())
	sh := func(i int, typ uint32, flags, addr uint64, off, size int, link, info uint32, entsize uint64) {
		s := b[shdrOff+64*i : shdrOff+64*(i+1)]
		for k := range s {
			s[k] = 0
		}
		binary.LittleEndian.PutUint32(s[0:], uint32(shoff[i]))
		binary.LittleEndian.PutUint32(s[4:], typ)
		binary.LittleEndian.PutUint64(s[8:], flags)
		binary.LittleEndian.PutUint64(s[16:], addr)
		binary.LittleEndian.PutUint64(s[24:], uint64(off))
		binary.LittleEndian.PutUint64(s[32:], uint64(size))
		binary.LittleEndian.PutUint32(s[40:], link)
		binary.LittleEndian.PutUint32(s[44:], info)
		binary.LittleEndian.PutUint64(s[48:], 8)
		binary.LittleEndian.PutUint64(s[56:], entsize)
	}
	sh(0, 0, 0, 0, 0, 0, 0, 0, 0)
	// the section's address differs from its file offset on purpose
	sh(1, 1, 3, 0xffffffff80200000, img.tblOff, img.tblSize, 0, 0, 0)
	sh(2, 2, 0, 0, symOff, symtab.Len(), 3, 1, 24)
	sh(3, 3, 0, 0, strOff, strtab.Len(), 0, 0, 0)
	sh(4, 3, 0, 0, shstrOff, shstr.Len(), 0, 0, 0)
	img.bytes = b
	return img
}

// c20Complete runs the real CompleteRedirects of ctx on a fresh copy of img
// and returns the resulting file.
func c20Complete(ctx *Context, img c20Image, dir string) ([]byte, *vlib.Failure) {
	p := filepath.Join(dir, "kernel.elf")
	if err := os.WriteFile(p, img.bytes, 0o644); err != nil {
		panic("c20: write image: " + err.Error())
	}
	log20 := c20TrapLog()
	defer log20()
	ctx.kernel = p
	pc := vlib.Catch(func() { ctx.CompleteRedirects() })
	if pc.Panicked {
		if msg, ok := pc.Value.(c20Abort); ok {
			m := strings.ReplaceAll(string(msg), dir, "<tmp>")
			return nil, vlib.Failf("CompleteRedirects aborted the build although the image defines every redirected symbol: %s", m)
		}
		return nil, vlib.Failf("CompleteRedirects panicked: %v", pc)
	}
	out, err := os.ReadFile(p)
	if err != nil {
		panic("c20: read image: " + err.Error())
	}
	return out, nil
}

func c20Pairs(b []byte) []string {
	var out []string
	for i := 0; i+16 <= len(b); i += 16 {
		out = append(out, fmt.Sprintf("%#x->%#x", binary.LittleEndian.Uint64(b[i:]), binary.LittleEndian.Uint64(b[i+8:])))
	}
	return out
}

// c20CheckImage is the image oracle for one tree; ctxA and ctxB are the
// contexts of two independent FindRedirects runs over it.
func c20CheckImage(ctxA, ctxB *Context, model []c20Entry) *vlib.Failure {
	dir, err := os.MkdirTemp(os.Getenv("VERIF_C20_TMP"), "c20img-")
	if err != nil {
		panic("c20: mkdirtemp: " + err.Error())
	}
	defer os.RemoveAll(dir)
	img := c20BuildImage(model)
	outA, fail := c20Complete(ctxA, img, dir)
	if fail != nil {
		return fail
	}
	if len(outA) != len(img.bytes) {
		return vlib.Failf("CompleteRedirects changed the size of the image from %d to %d bytes", len(img.bytes), len(outA))
	}
	n := 16 * len(model)
	for i := range outA {
		if (i < img.tblOff || i >= img.tblOff+n) && outA[i] != img.bytes[i] {
			where := "outside the .goredirectstbl section"
			if i >= img.tblOff && i < img.tblOff+img.tblSize {
				where = fmt.Sprintf("inside .goredirectstbl but behind the %d entries of the tree (section offset %d)", len(model), i-img.tblOff)
			}
			return vlib.Failf("CompleteRedirects changed image byte %d (%#x -> %#x), %s (section at %d, %d entries)",
				i, img.bytes[i], outA[i], where, img.tblOff, len(model))
		}
	}
	want := make([]string, 0, len(model))
	for _, e := range model {
		want = append(want, fmt.Sprintf("%#x->%#x", img.addr[e.Src], img.addr[e.Dst]))
	}
	got := c20Pairs(outA[img.tblOff : img.tblOff+n])
	gs, ws := append([]string(nil), got...), append([]string(nil), want...)
	sort.Strings(gs)
	sort.Strings(ws)
	if strings.Join(gs, " ") != strings.Join(ws, " ") {
		return vlib.Failf("redirect table written into the image differs from the annotations of the tree (as address pairs src->dst, sorted): image [%s]; expected [%s]",
			c20Clip(gs), c20Clip(ws))
	}
	outB, fail := c20Complete(ctxB, img, dir)
	if fail != nil {
		return fail
	}
	if !bytes.Equal(outA, outB) {
		a, b := c20Pairs(outA[img.tblOff:img.tblOff+n]), []string(nil)
		if len(outB) >= img.tblOff+n {
			b = c20Pairs(outB[img.tblOff : img.tblOff+n])
		}
		if os.Getenv("VERIF_REPLAY") != "" {
			fmt.Printf("C20 image table, first build:  %q\nC20 image table, second build: %q\n", a, b)
		}
		return vlib.Failf("two builds of the same tree wrote different kernel images (same %d redirects): the image is not reproducible", len(model))
	}
	return nil
}
