//go:build verif && go1.21

package main

import (
	"testing"

	"pgregory.net/rapid"
	"verifharness/vlib"
)

func TestVerifC20(t *testing.T) {
	_ = vlib.For("C20")
	rapid.Check(t, func(t *rapid.T) {})
}
