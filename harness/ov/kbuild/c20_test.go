//go:build verif && go1.21

package main

// C20 — kernel build finds every runtime redirect, exactly once, reproducibly.
//
// A case is the description of a Go source tree (directories, files, declarations
// and the comment lines around them). The tree is written into a fresh temporary
// directory, the REAL (*Context).FindRedirects is run with that directory as the
// working directory (this is how kbuild runs it: cwd = kernel root, Walk(".")),
// and its table is compared
//
//   - as a multiset with a model that is known by construction: one entry
//     (symbol as written, "<kernel import path>[/<dir>].<Func>") per exact
//     `//go:redirect-from <sym>` line in the doc comment of a plain function of a
//     non-test .go file, and nothing for any other line of the case;
//   - as a sequence with the tables of repeated builds of the same tree (fresh
//     Context each time): they must all be identical, element by element.
//
// One further case ({"kernel":true}) runs the same two oracles on
// $VERIF_REPO/kernel, with an independent line-based scanner as the model.
//
// What is deliberately NOT generated, because the statement does not decide it
// (see c20Validate, which rejects such cases): annotated methods, annotations
// trailing the function's own line, `//go:redirect-from` without a symbol or
// directly followed by other characters, symbols containing blanks, functions
// named init or _, directories/files that the go tool would not build (leading
// '_' or '.', testdata, vendor, GOOS/GOARCH suffixes, build constraints),
// directory names that need escaping in a linker symbol.

import (
	"runtime"
	"fmt"
	"go/ast"
	"go/parser"
	"go/token"
	"io/fs"
	"log"
	"os"
	"path/filepath"
	"regexp"
	"sort"
	"strings"
	"testing"

	"pgregory.net/rapid"
	"verifharness/vlib"
)

const (
	c20Prefix    = "github.com/ProjectSerenity/firefly/kernel"
	c20Directive = "//go:redirect-from"
)

// ---------------------------------------------------------------------------
// case description

// c20Line is one comment. K selects its shape:
//
//	redirect   //go:redirect-from<WS><Sym><TWS>          (the annotation, when in a plain function's doc)
//	spaced     // go:redirect-from <Sym>
//	mention    // <prose> //go:redirect-from <Sym>
//	case       //go:Redirect-From <Sym> and friends      (variant V)
//	near       //go:redirect <Sym>, //go:redirect-to ... (variant V)
//	block      /* //go:redirect-from <Sym> */  (V=0)  or the same over three lines (V=1)
//	prose      // <words>                                (variant V)
//	empty      //
//	directive  //go:nosplit, //go:noinline, //go:linkname ... (variant V)
type c20Line struct {
	K   string `json:"k"`
	Sym string `json:"sym,omitempty"`
	WS  string `json:"ws,omitempty"`
	TWS string `json:"tws,omitempty"`
	V   int    `json:"v,omitempty"`
}

// c20Item is one top-level element of a file.
//
//	func     plain function; Doc is its doc comment (attached, no blank line)
//	method   function with a receiver (never carries a redirect line)
//	var, const, type, group (parenthesised var block), funclit (var f = func(){})
//	blob     a declaration whose source line is Len bytes long (generated tables): a string
//	         constant (V=0) or a variable below one long prose comment line (V=1)
//	comment  a free-standing comment group (Doc holds its lines), always followed by a blank line
type c20Item struct {
	Kind     string    `json:"kind"`
	Name     string    `json:"name,omitempty"`
	Tight    bool      `json:"tight,omitempty"`    // no blank line between the previous element and this one
	Detached []c20Line `json:"detached,omitempty"` // comment group above the element, separated from it by a blank line
	Doc      []c20Line `json:"doc,omitempty"`      // comment lines directly above the declaration
	Body     string    `json:"body,omitempty"`     // func/method: "none" (no body), "empty" ({}), "stmts", "comments" (only comments)
	Inner    []c20Line `json:"inner,omitempty"`    // comments inside the body / struct / var block
	Lit      bool      `json:"lit,omitempty"`      // func body: the inner comments directly precede a function literal
	Trail    *c20Line  `json:"trail,omitempty"`    // comment trailing the last line of the declaration
	V        int       `json:"v,omitempty"`        // type: 0 struct, 1 interface; blob: 0 string literal, 1 comment line
	Len      int       `json:"len,omitempty"`      // blob: length of the long line
}

type c20File struct {
	Name        string    `json:"name"`
	Kind        string    `json:"kind"` // "go", "test" (_test.go), "other" (not a .go file)
	Pkg         string    `json:"pkg"`
	Junk        bool      `json:"junk,omitempty"` // other: content is not Go at all
	Header      []c20Line `json:"header,omitempty"`
	HeaderTight bool      `json:"header_tight,omitempty"` // header directly above the package clause (package doc)
	Items       []c20Item `json:"items,omitempty"`
	NoNL        bool      `json:"no_nl,omitempty"` // no newline at the end of the file
	// Link: the file is present in the tree as a symbolic link (as a source shared between trees
	// is): 1 = to "<name>.src" next to it, 2 = to a file outside the tree. The go tool follows
	// such links, the file is part of the package like any other.
	Link int `json:"link,omitempty"`
}

type c20Dir struct {
	Path  string    `json:"path"` // slash separated, "" = tree root
	Files []c20File `json:"files,omitempty"`
}

type c20Case struct {
	Kernel bool     `json:"kernel,omitempty"` // the deterministic sub-check on $VERIF_REPO/kernel
	Dirs   []c20Dir `json:"dirs,omitempty"`
	// GoMod (non-zero): the tree has a go.mod at its top that declares the kernel's module path
	// in one of the spellings the go tool accepts (index into c20GoMods + 1). However the file
	// spells it, the destination of a redirect is the function's import-path name.
	GoMod int `json:"gomod,omitempty"`
}

const c20KernelModule = "github.com/ProjectSerenity/firefly/kernel"

var c20GoMods = []string{
	"module " + c20KernelModule + "\n\ngo 1.17\n",
	"module \"" + c20KernelModule + "\"\n\ngo 1.17\n",
	"module `" + c20KernelModule + "`\n",
	"module (\n\t" + c20KernelModule + "\n)\n\ngo 1.17\n",
	"// the kernel proper\nmodule " + c20KernelModule + " // canonical path\n\ngo 1.17\n",
	"go 1.17\n\nmodule\t" + c20KernelModule + "\n",
	"module " + c20KernelModule + "\r\n\r\ngo 1.17\r\n",
}

type c20Entry struct{ Src, Dst string }

func (e c20Entry) String() string { return fmt.Sprintf("%q -> %q", e.Src, e.Dst) }

// ---------------------------------------------------------------------------
// rendering

var (
	c20CaseVariants = []string{"//go:Redirect-From ", "//GO:redirect-from ", "//go:REDIRECT-FROM ", "//Go:redirect-from "}
	c20NearVariants = []string{"//go:redirect ", "//go:redirect-to ", "//go:redirectfrom ", "//go:redirect_from ",
		"//go: redirect-from ", "///go:redirect-from ", "//go:redirect-fro ", "// +go:redirect-from ", "//-go:redirect-from ",
		"//go:redirect-\tfrom ", "//\tgo:redirect-from "}
	c20ProseVariants = []string{"// This function replaces the runtime's version.", "// TODO: revisit once the allocator is up.",
		"// see //go:nosplit and friends", "// redirect-from is handled by kbuild", "//nolint", "// Deprecated: do not use.",
		"// go:redirect", "//\tindented example code"}
	c20MentionPrefix  = []string{"// see ", "// was: ", "//  ", "// NOTE(x): "}
	c20DirectiveLines = []string{"//go:nosplit", "//go:noinline", "//go:linkname local runtime.remote", "//go:nowritebarrier",
		"//go:norace", "//go:noescape", "//go:nosplit ", "//go:generate echo //go:redirect",
		// build constraints (effective in a file header only): whether the go tool would compile
		// the file is not the build tool's question - the table lists every annotation of the tree
		"// +build gofuzz", "//go:build ignore", "// +build go1.7,!go1.8", "//go:build arm64 && !amd64",
		// line directives as generated code carries them (effective at column 1 only): they change
		// the file name and line positions are reported with, never the package a file belongs to
		"//line ../../tools/grammar/input.y:410000", "//line /usr/src/gen/tables.go:700000", "//line renamed.go:100000", "/*line sub/dir/other.go:300000:1*/"}
)

// c20PlainDirectives is the number of entries of c20DirectiveLines that are not line directives.
// A line directive renumbers the lines that follow it, and go/parser decides by line numbers
// whether a comment is a declaration's doc comment; so line directives are generated in
// free-standing comments only (file headers, detached groups, comment elements), with line
// numbers beyond any generated file, where they cannot change which comments are doc comments.
const c20PlainDirectives = 12

// c20LimitLineDirectives keeps at most one line directive per file, in a free-standing comment
// (a second one could renumber lines downwards and so join comments that a blank line separates).
func c20LimitLineDirectives(f *c20File) {
	seen := false
	free := func(ls []c20Line) {
		for i := range ls {
			if ls[i].K != "directive" {
				continue
			}
			v := ls[i].V
			if v < 0 {
				v = -v
			}
			if v%len(c20DirectiveLines) >= c20PlainDirectives {
				if seen {
					ls[i].V = v % len(c20DirectiveLines) % c20PlainDirectives
				}
				seen = true
			}
		}
	}
	free(f.Header)
	for i := range f.Items {
		it := &f.Items[i]
		free(it.Detached)
		if it.Kind == "comment" {
			free(it.Doc)
		} else {
			c20NoLineDirectives(it.Doc)
		}
		c20NoLineDirectives(it.Inner)
		if it.Trail != nil {
			// the block form (/*line f:n:c*/) takes effect wherever it stands, also at the end of a line
			tl := []c20Line{*it.Trail}
			c20NoLineDirectives(tl)
			*it.Trail = tl[0]
		}
	}
}

func c20NoLineDirectives(ls []c20Line) []c20Line {
	for i := range ls {
		if ls[i].K == "directive" {
			v := ls[i].V
			if v < 0 {
				v = -v
			}
			ls[i].V = v % len(c20DirectiveLines) % c20PlainDirectives
		}
	}
	return ls
}

func c20Pick(list []string, v int) string {
	if v < 0 {
		v = -v
	}
	return list[v%len(list)]
}

// text renders the comment. single forces a one-line form (trailing position).
func (l c20Line) text(single bool) string {
	switch l.K {
	case "redirect":
		return c20Directive + l.WS + l.Sym + l.TWS
	case "spaced":
		return "// go:redirect-from " + l.Sym
	case "mention":
		return c20Pick(c20MentionPrefix, l.V) + c20Directive + " " + l.Sym
	case "case":
		return c20Pick(c20CaseVariants, l.V) + l.Sym
	case "near":
		return c20Pick(c20NearVariants, l.V) + l.Sym
	case "block":
		if l.V%2 == 1 && !single {
			return "/*\n" + c20Directive + " " + l.Sym + "\n*/"
		}
		return "/* " + c20Directive + " " + l.Sym + " */"
	case "prose":
		return c20Pick(c20ProseVariants, l.V)
	case "empty":
		return "//"
	case "directive":
		return c20Pick(c20DirectiveLines, l.V)
	}
	panic("c20: bad line kind " + l.K)
}

// lookalike reports whether the rendered comment contains the text
// "go:redirect-from" in some form (so that it looks like an annotation).
func (l c20Line) lookalike() bool {
	switch l.K {
	case "redirect", "spaced", "mention", "case", "block":
		return true
	case "near":
		return strings.Contains(strings.ToLower(l.text(true)), "redirect")
	}
	return false
}

func c20WriteLines(b *strings.Builder, indent string, lines []c20Line) {
	for _, l := range lines {
		for _, part := range strings.Split(l.text(false), "\n") {
			if strings.HasPrefix(part, "*/") || strings.HasPrefix(part, c20Directive) && l.K == "block" {
				// inside a block comment: keep column 0 so that the text really
				// looks like a directive line
				b.WriteString(part)
			} else {
				b.WriteString(indent)
				b.WriteString(part)
			}
			b.WriteByte('\n')
		}
	}
}

func (it c20Item) trail() string {
	if it.Trail == nil {
		return ""
	}
	return " " + it.Trail.text(true)
}

// render writes the element (without the separating blank line before it).
func (it c20Item) render(b *strings.Builder) {
	if len(it.Detached) > 0 {
		c20WriteLines(b, "", it.Detached)
		b.WriteByte('\n')
	}
	c20WriteLines(b, "", it.Doc)
	switch it.Kind {
	case "comment":
		// Doc already written
	case "func", "method":
		head := "func " + it.Name
		if it.Kind == "method" {
			head = "func (r *" + it.Name + "Recv) " + it.Name
		}
		switch it.Body {
		case "none":
			b.WriteString(head + "(a, b uintptr) uintptr" + it.trail() + "\n")
		case "empty":
			b.WriteString(head + "() {}" + it.trail() + "\n")
		case "comments":
			b.WriteString(head + "() {\n")
			c20WriteLines(b, "\t", it.Inner)
			b.WriteString("}" + it.trail() + "\n")
		default: // stmts
			b.WriteString(head + "(x int) int {\n\tx++\n")
			c20WriteLines(b, "\t", it.Inner)
			if it.Lit {
				b.WriteString("\tg := func() {}\n\tg()\n")
			}
			b.WriteString("\treturn x\n}" + it.trail() + "\n")
		}
	case "var":
		b.WriteString("var " + it.Name + " int = 1" + it.trail() + "\n")
	case "const":
		b.WriteString("const " + it.Name + " = 1" + it.trail() + "\n")
	case "blob":
		if it.V%2 == 1 {
			b.WriteString("// " + strings.Repeat("generated table ", it.Len/16+1)[:it.Len] + "\n")
			b.WriteString("var " + it.Name + " = 0" + it.trail() + "\n")
		} else {
			b.WriteString("const " + it.Name + " = \"" + strings.Repeat("0123456789abcdef", it.Len/16+1)[:it.Len] + "\"" + it.trail() + "\n")
		}
	case "funclit":
		b.WriteString("var " + it.Name + " = func(x int) int {\n")
		c20WriteLines(b, "\t", it.Inner)
		b.WriteString("\treturn x\n}" + it.trail() + "\n")
	case "type":
		if it.V%2 == 1 {
			b.WriteString("type " + it.Name + " interface {\n")
			c20WriteLines(b, "\t", it.Inner)
			b.WriteString("\tM(x int) int\n}" + it.trail() + "\n")
		} else {
			b.WriteString("type " + it.Name + " struct {\n")
			c20WriteLines(b, "\t", it.Inner)
			b.WriteString("\tF func()\n}" + it.trail() + "\n")
		}
	case "group":
		b.WriteString("var (\n")
		c20WriteLines(b, "\t", it.Inner)
		b.WriteString("\t" + it.Name + " = func() {}\n)" + it.trail() + "\n")
	default:
		panic("c20: bad item kind " + it.Kind)
	}
}

const c20JunkText = "this is not Go {{{\n//go:redirect-from runtime.junk\nfunc (\n"

func (f c20File) render() string {
	if f.Junk {
		return c20JunkText
	}
	var b strings.Builder
	if len(f.Header) > 0 {
		c20WriteLines(&b, "", f.Header)
		if !f.HeaderTight {
			b.WriteByte('\n')
		}
	}
	b.WriteString("package " + f.Pkg + "\n")
	prevComment := false
	for _, it := range f.Items {
		if !it.Tight || prevComment {
			b.WriteByte('\n')
		}
		it.render(&b)
		prevComment = it.Kind == "comment"
	}
	s := b.String()
	if f.NoNL {
		s = strings.TrimSuffix(s, "\n")
	}
	return s
}

// ---------------------------------------------------------------------------
// model (by construction) and classification

func c20ImportPath(dir string) string {
	if dir == "" {
		return c20Prefix
	}
	return c20Prefix + "/" + dir
}

func c20Model(c c20Case) []c20Entry {
	var m []c20Entry
	for _, d := range c.Dirs {
		for _, f := range d.Files {
			if f.Kind != "go" {
				continue
			}
			for _, it := range f.Items {
				if it.Kind != "func" {
					continue
				}
				for _, l := range it.Doc {
					if l.K == "redirect" {
						m = append(m, c20Entry{l.Sym, c20ImportPath(d.Path) + "." + it.Name})
					}
				}
			}
		}
	}
	return m
}

func c20FuncOrOther(kind string) string {
	if kind == "func" || kind == "method" {
		return "func"
	}
	return "nonfunc-decl"
}

func c20Depth(p string) int {
	if p == "" {
		return 0
	}
	return strings.Count(p, "/") + 1
}

func c20Classify(c c20Case) (nontrivial bool, labels []string) {
	if c.Kernel {
		return false, []string{"real-kernel"}
	}
	set := map[string]bool{}
	add := func(l string) { set[l] = true }
	maxDepth, lookalikes, entries := 0, 0, 0
	twoInFile := false
	syms := map[string]int{}
	funcDirs := map[string]map[string]bool{}
	// look-alike labels: la:<shape>, la@<place>, la-in-<file kind>
	look := func(place, fileKind string, lines []c20Line) {
		for _, l := range lines {
			if !l.lookalike() {
				continue
			}
			lookalikes++
			add("la:" + l.K)
			add("la@" + place)
			if fileKind != "go" {
				add("la-in-" + fileKind + "-file")
				if l.K == "redirect" && place == "doc-of-func" {
					add("exact-annotation-on-func-in-" + fileKind + "-file")
				}
			}
		}
	}
	for _, d := range c.Dirs {
		if dp := c20Depth(d.Path); dp > maxDepth {
			maxDepth = dp
		}
		if strings.Contains(d.Path, "_test") {
			add("dir-name-contains-_test")
		}
		if len(d.Files) == 0 {
			add("empty-dir")
		}
		for _, f := range d.Files {
			switch {
			case f.Junk:
				add("junk-file")
			case f.Kind == "go" && strings.Contains(f.Name, "_test"):
				add("go-file-name-contains-_test")
			}
			if f.NoNL {
				add("no-final-newline")
			}
			if f.Link != 0 {
				add("source-file-is-a-symbolic-link")
			}
			look("file-header", f.Kind, f.Header)
			annotatedFuncs := 0
			for i, it := range f.Items {
				inner, trailing := "inside-func-body", "trailing-func"
				if it.Kind != "func" && it.Kind != "method" {
					inner, trailing = "inside-nonfunc-decl", "trailing-nonfunc-decl"
				}
				look("detached-group-above-decl", f.Kind, it.Detached)
				look(inner, f.Kind, it.Inner)
				if it.Lit && len(it.Inner) > 0 {
					look("above-func-literal", f.Kind, it.Inner[len(it.Inner)-1:])
				}
				if it.Trail != nil {
					look(trailing, f.Kind, []c20Line{*it.Trail})
				}
				if it.Kind != "func" || f.Kind != "go" {
					switch {
					case it.Kind == "comment" && it.Tight && i > 0 && f.Items[i-1].Kind != "comment":
						look("directly-below-"+c20FuncOrOther(f.Items[i-1].Kind), f.Kind, it.Doc)
					case it.Kind == "comment":
						look("free-comment", f.Kind, it.Doc)
					case it.Kind == "const":
						look("doc-of-var", f.Kind, it.Doc)
					default:
						look("doc-of-"+it.Kind, f.Kind, it.Doc)
					}
					continue
				}
				// plain function of a scanned file
				n := 0
				for li, l := range it.Doc {
					if l.K != "redirect" {
						look("doc-of-annotatable-func", "go", []c20Line{l})
						if l.K == "directive" && n > 0 {
							add("annotation-before-other-directive")
						}
						continue
					}
					n++
					entries++
					syms[l.Sym]++
					if li > 0 && li < len(it.Doc)-1 {
						add("annotation-between-other-doc-lines")
					}
					if l.WS != " " {
						add("annotation-extra-blanks")
					}
					if strings.Contains(l.WS, "\t") {
						add("annotation-tab")
					}
					if l.TWS != "" {
						add("annotation-trailing-blanks")
					}
				}
				if n == 0 {
					continue
				}
				annotatedFuncs++
				if n >= 2 {
					add("func-with-2+-annotations")
				}
				if it.Body == "none" {
					add("annotated-func-without-body")
				}
				if it.Tight && i > 0 && f.Items[i-1].Kind != "comment" && len(it.Detached) == 0 {
					add("annotated-doc-tight-after-" + c20FuncOrOther(f.Items[i-1].Kind))
				}
				if it.Tight && i == 0 && len(it.Detached) == 0 {
					add("annotated-doc-tight-after-package-clause")
				}
				if len(it.Detached) > 0 {
					add("annotated-func-with-detached-group-above")
				}
				if d.Path == "" {
					add("annotated-func-in-root-dir")
				}
				if funcDirs[it.Name] == nil {
					funcDirs[it.Name] = map[string]bool{}
				}
				funcDirs[it.Name][d.Path] = true
			}
			if annotatedFuncs >= 2 {
				twoInFile = true
				add("file-with-2+-annotated-funcs")
			}
			if annotatedFuncs >= 3 {
				add("file-with-3+-annotated-funcs")
			}
		}
	}
	for _, n := range syms {
		if n > 1 {
			add("duplicate-source-symbol")
		}
	}
	for _, ds := range funcDirs {
		if len(ds) > 1 {
			add("same-func-name-annotated-in-2-dirs")
		}
	}
	add(fmt.Sprintf("depth-%d", maxDepth))
	switch {
	case entries == 0:
		add("entries-0")
	case entries <= 3:
		add("entries-1..3")
	case entries <= 10:
		add("entries-4..10")
	default:
		add("entries-11+")
	}
	if lookalikes == 0 {
		add("no-lookalike")
	}
	if c.GoMod > 1 {
		add("go.mod-with-the-module-path-in-an-unusual-spelling")
	} else if c.GoMod == 1 {
		add("go.mod-present")
	}
	for l := range set {
		labels = append(labels, l)
	}
	sort.Strings(labels)
	return twoInFile && lookalikes >= 1, labels
}

// ---------------------------------------------------------------------------
// domain check of a case (generator contract; also guards hand-written replays)

var (
	c20IdentRe   = regexp.MustCompile(`^[A-Za-z][A-Za-z0-9_]*$`)
	c20DirSegRe  = regexp.MustCompile(`^[a-z][a-z0-9_]*$`)
	c20FileRe    = regexp.MustCompile(`^[A-Za-z0-9][A-Za-z0-9_.~]*$`)
	c20SymRe     = regexp.MustCompile(`^[^\s]([^\t\n\r]*[^\s])?$`) // no blank at either end, no tab or line break inside
	c20BlanksRe  = regexp.MustCompile(`^[ \t]+$`)
	c20OSArchRe  = regexp.MustCompile(`_(aix|android|darwin|dragonfly|freebsd|illumos|ios|js|linux|netbsd|openbsd|plan9|solaris|wasip1|windows|unix|386|amd64|arm|arm64|loong64|mips|mips64|mips64le|mipsle|ppc64|ppc64le|riscv64|s390x|wasm)(_test)?\.go$`)
	c20Forbidden = map[string]bool{"init": true, "main": true, "_": true}
	c20GoKeyword = map[string]bool{"break": true, "case": true, "chan": true, "const": true, "continue": true, "default": true,
		"defer": true, "else": true, "fallthrough": true, "for": true, "func": true, "go": true, "goto": true, "if": true,
		"import": true, "interface": true, "map": true, "package": true, "range": true, "return": true, "select": true,
		"struct": true, "switch": true, "type": true, "var": true}
)

func c20ValidLines(where string, lines []c20Line, allowRedirect bool) error {
	for _, l := range lines {
		switch l.K {
		case "redirect":
			if !allowRedirect {
				return fmt.Errorf("%s: exact redirect line where the statement does not decide", where)
			}
			if !c20BlanksRe.MatchString(l.WS) || (l.TWS != "" && !c20BlanksRe.MatchString(l.TWS)) {
				return fmt.Errorf("%s: redirect line needs blanks (only) around the symbol", where)
			}
			fallthrough
		case "spaced", "mention", "case", "near", "block":
			if !c20SymRe.MatchString(l.Sym) || strings.Contains(l.Sym, "*/") {
				return fmt.Errorf("%s: bad symbol %q", where, l.Sym)
			}
		case "prose", "empty", "directive":
		default:
			return fmt.Errorf("%s: unknown line kind %q", where, l.K)
		}
	}
	return nil
}

func c20Validate(c c20Case) error {
	if c.Kernel {
		return nil
	}
	dirs := map[string]bool{}
	for _, d := range c.Dirs {
		if dirs[d.Path] {
			return fmt.Errorf("directory %q twice", d.Path)
		}
		dirs[d.Path] = true
		if d.Path != "" {
			for _, seg := range strings.Split(d.Path, "/") {
				if !c20DirSegRe.MatchString(seg) || seg == "testdata" || seg == "vendor" {
					return fmt.Errorf("directory %q outside the domain", d.Path)
				}
			}
		}
		names := map[string]bool{}
		idents := map[string]bool{}
		for _, f := range d.Files {
			where := d.Path + "/" + f.Name
			nameOK := c20FileRe.MatchString(f.Name)
			if f.Kind == "other" && len(f.Name) > 1 && (f.Name[0] == '_' || f.Name[0] == '.') {
				// notes, editor and VCS files: not Go sources, whatever their name starts with
				nameOK = c20FileRe.MatchString(f.Name[1:])
			}
			if names[f.Name] || !nameOK {
				return fmt.Errorf("%s: bad or duplicate file name", where)
			}
			names[f.Name] = true
			isGo := filepath.Ext(f.Name) == ".go"
			isTest := strings.HasSuffix(f.Name, "_test.go")
			switch f.Kind {
			case "go":
				if !isGo || isTest {
					return fmt.Errorf("%s: kind go needs a non-test .go name", where)
				}
			case "test":
				if !isTest {
					return fmt.Errorf("%s: kind test needs a _test.go name", where)
				}
			case "other":
				if isGo {
					return fmt.Errorf("%s: kind other must not end in .go", where)
				}
			default:
				return fmt.Errorf("%s: unknown file kind %q", where, f.Kind)
			}
			if c20OSArchRe.MatchString(f.Name) {
				return fmt.Errorf("%s: GOOS/GOARCH file names are outside the domain", where)
			}
			if f.Junk && f.Kind != "other" {
				return fmt.Errorf("%s: only non-Go files may hold junk", where)
			}
			if !c20IdentRe.MatchString(f.Pkg) || c20GoKeyword[f.Pkg] || f.Pkg == "main" {
				return fmt.Errorf("%s: bad package name %q", where, f.Pkg)
			}
			if err := c20ValidLines(where+" header", f.Header, true); err != nil {
				return err
			}
			for _, it := range f.Items {
				w := where + ":" + it.Kind + " " + it.Name
				if it.Kind != "comment" {
					if !c20IdentRe.MatchString(it.Name) || c20Forbidden[it.Name] || c20GoKeyword[it.Name] {
						return fmt.Errorf("%s: bad name", w)
					}
					if idents[it.Name] {
						return fmt.Errorf("%s: name declared twice in the package", w)
					}
					idents[it.Name] = true
				}
				isFunc := it.Kind == "func" || it.Kind == "method"
				switch it.Kind {
				case "func", "method":
					switch it.Body {
					case "none", "empty", "stmts", "comments":
					default:
						return fmt.Errorf("%s: bad body kind %q", w, it.Body)
					}
				case "var", "const", "type", "group", "funclit":
				case "blob":
					if it.Len < 1 || it.Len > 1<<21 || len(it.Inner) > 0 {
						return fmt.Errorf("%s: bad blob", w)
					}
				case "comment":
					if len(it.Doc) == 0 || len(it.Detached) > 0 || it.Trail != nil || len(it.Inner) > 0 {
						return fmt.Errorf("%s: a comment element has doc lines only", w)
					}
				default:
					return fmt.Errorf("%s: unknown element kind", w)
				}
				if err := c20ValidLines(w+" detached", it.Detached, true); err != nil {
					return err
				}
				// an exact annotation above a method is not decided by the statement
				if err := c20ValidLines(w+" doc", it.Doc, it.Kind != "method"); err != nil {
					return err
				}
				if err := c20ValidLines(w+" inner", it.Inner, true); err != nil {
					return err
				}
				if it.Trail != nil {
					// an exact annotation trailing the function's own line is not decided by the statement
					if err := c20ValidLines(w+" trail", []c20Line{*it.Trail}, !isFunc); err != nil {
						return err
					}
				}
			}
		}
	}
	return nil
}

// ---------------------------------------------------------------------------
// harness self-check: the generator's claim about which comment lines form the
// doc comment of which function is compared with go/parser's FuncDecl.Doc (Go's
// definition of a doc comment). Disagreement is a harness error, never a
// violation. Test files and Go-looking non-Go files must parse as well.

func c20SelfCheck(c c20Case) error {
	fset := token.NewFileSet()
	for _, d := range c.Dirs {
		for _, f := range d.Files {
			if f.Junk {
				continue
			}
			src := f.render()
			af, err := parser.ParseFile(fset, f.Name, src, parser.ParseComments)
			if err != nil {
				return fmt.Errorf("generated file %s/%s does not parse: %v\n%s", d.Path, f.Name, err, src)
			}
			var got, want []string
			for _, decl := range af.Decls {
				fd, ok := decl.(*ast.FuncDecl)
				if !ok || fd.Doc == nil || fd.Recv != nil {
					continue
				}
				for _, cm := range fd.Doc.List {
					if strings.HasPrefix(cm.Text, c20Directive+" ") || strings.HasPrefix(cm.Text, c20Directive+"\t") {
						got = append(got, fd.Name.Name+" <- "+strings.TrimSpace(cm.Text[len(c20Directive):]))
					}
				}
			}
			for _, it := range f.Items {
				if it.Kind != "func" {
					continue
				}
				for _, l := range it.Doc {
					if l.K == "redirect" {
						want = append(want, it.Name+" <- "+l.Sym)
					}
				}
			}
			if strings.Join(got, "\n") != strings.Join(want, "\n") {
				return fmt.Errorf("generator and go/parser disagree on the doc annotations of %s/%s:\nparser: %q\ncase:   %q\n%s",
					d.Path, f.Name, got, want, src)
			}
		}
	}
	return nil
}

// ---------------------------------------------------------------------------
// driving the real code

type c20LogTrap struct{}

type c20Abort string

// Write turns log.Fatalf (ctx.Fatalf) into a recoverable panic before it
// reaches os.Exit.
func (c20LogTrap) Write(p []byte) (int, error) {
	// only a log call that is about to end the process is an aborted build; what the tool merely
	// says on the log (progress, summaries) is swallowed
	var pcs [24]uintptr
	frames := runtime.CallersFrames(pcs[:runtime.Callers(2, pcs[:])])
	for {
		fr, more := frames.Next()
		if strings.HasPrefix(fr.Function, "log.Fatal") || strings.HasPrefix(fr.Function, "log.(*Logger).Fatal") ||
			strings.HasPrefix(fr.Function, "log.Panic") || strings.HasPrefix(fr.Function, "log.(*Logger).Panic") {
			panic(c20Abort(strings.TrimSpace(string(p))))
		}
		if !more {
			break
		}
	}
	return len(p), nil
}

type c20Table struct {
	entries []c20Entry
	seq     []string // Comment|Src|Dst per entry, in table order
	ctx     *Context
}

// c20Find runs the real FindRedirects in the current directory with a fresh
// Context.
// c20TrapLog installs the log trap and returns the function that removes it.
func c20TrapLog() func() {
	log.SetOutput(c20LogTrap{})
	return func() { log.SetOutput(os.Stderr) }
}

func c20Find() (tab c20Table, fail *vlib.Failure) {
	defer c20TrapLog()()
	ctx := &Context{Architectures: []string{"amd64"}}
	tab.ctx = ctx
	pc := vlib.Catch(func() { ctx.FindRedirects() })
	if pc.Panicked {
		if msg, ok := pc.Value.(c20Abort); ok {
			return tab, vlib.Failf("FindRedirects aborted the build of a well-formed tree: %s", string(msg))
		}
		return tab, vlib.Failf("FindRedirects panicked: %v", pc)
	}
	for i, r := range ctx.Redirects {
		if r == nil {
			return tab, vlib.Failf("FindRedirects: table entry %d is nil", i)
		}
		tab.entries = append(tab.entries, c20Entry{r.SrcSymbol, r.DstSymbol})
		tab.seq = append(tab.seq, r.Comment+"|"+r.SrcSymbol+"|"+r.DstSymbol)
	}
	return tab, nil
}

func c20Sorted(es []c20Entry) []string {
	out := make([]string, len(es))
	for i, e := range es {
		out[i] = e.String()
	}
	sort.Strings(out)
	return out
}

// c20Diff compares two multisets; missing = in want but not in got.
func c20Diff(got, want []c20Entry) (missing, unexpected []string) {
	cnt := map[c20Entry]int{}
	for _, e := range want {
		cnt[e]++
	}
	for _, e := range got {
		cnt[e]--
	}
	for e, n := range cnt {
		for ; n > 0; n-- {
			missing = append(missing, e.String())
		}
		for ; n < 0; n++ {
			unexpected = append(unexpected, e.String())
		}
	}
	sort.Strings(missing)
	sort.Strings(unexpected)
	return
}

func c20Clip(l []string) string {
	if len(l) > 6 {
		return fmt.Sprintf("%s … (%d in all)", strings.Join(l[:6], "; "), len(l))
	}
	return strings.Join(l, "; ")
}

// c20Reps is the number of builds of one tree. The statement's "twice" is
// checked with at least 5 builds; small trees, where a build costs a few
// microseconds, get up to 32 so that an order that changes only in one build
// out of eight is still seen reliably (and a failing case stays reproducible
// while it is minimised).
func c20Reps(goFiles int) int {
	if goFiles < 1 {
		goFiles = 1
	}
	r := 64 / goFiles
	if r < 5 {
		r = 5
	}
	if r > 32 {
		r = 32
	}
	return r
}

// c20CheckDir runs both oracles in dir against the model.
func c20CheckDir(dir string, model []c20Entry, reps int) *vlib.Failure {
	old, err := os.Getwd()
	if err != nil {
		panic("c20: getwd: " + err.Error())
	}
	if err := os.Chdir(dir); err != nil {
		panic("c20: chdir: " + err.Error())
	}
	defer os.Chdir(old)

	first, fail := c20Find()
	if fail != nil {
		return fail
	}
	if missing, unexpected := c20Diff(first.entries, model); len(missing)+len(unexpected) > 0 {
		return vlib.Failf("redirect table differs from the annotations of the tree: %d entries for %d annotations; missing [%s]; not annotated [%s]",
			len(first.entries), len(model), c20Clip(missing), c20Clip(unexpected))
	}
	var second c20Table
	for i := 1; i < reps; i++ {
		again, fail := c20Find()
		if fail != nil {
			return fail
		}
		second = again
		if strings.Join(again.seq, "\n") == strings.Join(first.seq, "\n") {
			continue
		}
		if missing, unexpected := c20Diff(again.entries, first.entries); len(missing)+len(unexpected) > 0 {
			return vlib.Failf("building the same tree again gave a different table: entries that vanished [%s]; new entries [%s]",
				c20Clip(missing), c20Clip(unexpected))
		}
		// deterministic text (rapid only minimises reproducible messages): the sorted
		// content only; a replay also prints the two orders it happened to see
		if os.Getenv("VERIF_REPLAY") != "" {
			fmt.Printf("C20 order, first build: %q\nC20 order, build %d:     %q\n", first.seq, i+1, again.seq)
		}
		return vlib.Failf("building the same tree again (fresh Context, %d builds) gave the same %d entries in a different order, so the redirect table in the image is not reproducible; entries: [%s]",
			reps, len(first.entries), c20Clip(c20Sorted(first.entries)))
	}
	if second.ctx == nil {
		panic("c20: fewer than two builds")
	}
	return c20CheckImage(first.ctx, second.ctx, first.entries)
}

func c20Run(c c20Case) *vlib.Failure {
	defer vlib.Guard("C20", c, nil)()
	if c.Kernel {
		return c20RunKernel()
	}
	root, err := os.MkdirTemp(os.Getenv("VERIF_C20_TMP"), "c20tree-")
	if err != nil {
		panic("c20: mkdirtemp: " + err.Error())
	}
	defer os.RemoveAll(root)
	goFiles, bytesWritten := 0, 0
	for _, d := range c.Dirs {
		dp := filepath.Join(root, filepath.FromSlash(d.Path))
		if err := os.MkdirAll(dp, 0o755); err != nil {
			panic("c20: mkdir: " + err.Error())
		}
		for _, f := range d.Files {
			text := f.render()
			bytesWritten += len(text)
			target := filepath.Join(dp, f.Name)
			switch f.Link {
			case 1:
				target += ".src"
			case 2:
				shared := root + "-shared"
				if err := os.MkdirAll(shared, 0o755); err != nil {
					panic("c20: mkdir: " + err.Error())
				}
				defer os.RemoveAll(shared)
				target = filepath.Join(shared, fmt.Sprintf("%d-%s.src", goFiles+bytesWritten, f.Name))
			}
			if err := os.WriteFile(target, []byte(text), 0o644); err != nil {
				panic("c20: write: " + err.Error())
			}
			if f.Link != 0 {
				to := target
				if f.Link == 1 {
					to = f.Name + ".src" // relative link
				}
				if err := os.Symlink(to, filepath.Join(dp, f.Name)); err != nil {
					panic("c20: symlink: " + err.Error())
				}
			}
			if f.Kind == "go" {
				goFiles++
			}
		}
	}
	if c.GoMod > 0 && c.GoMod <= len(c20GoMods) {
		if err := os.WriteFile(filepath.Join(root, "go.mod"), []byte(c20GoMods[c.GoMod-1]), 0o644); err != nil {
			panic("c20: write: " + err.Error())
		}
	}
	reps := c20Reps(goFiles)
	if bytesWritten > 100<<10 && reps > 6 {
		reps = 6 // trees with generated tables: a build costs milliseconds
	}
	return c20CheckDir(root, c20Model(c), reps)
}

// ---------------------------------------------------------------------------
// the real kernel tree against an independent line-based scanner

// c20ScanLines finds the annotations of one file without parsing Go: an
// annotation is a line starting (column 0) with "//go:redirect-from" followed by
// a blank, inside the run of column-0 comment lines that directly precedes a
// line starting with "func <identifier>".
func c20ScanLines(src string) (out [][2]string) {
	var pending []string
	inBlock := false
	for _, line := range strings.Split(src, "\n") {
		line = strings.TrimSuffix(line, "\r")
		if inBlock {
			if strings.Contains(line, "*/") {
				inBlock = false
			}
			continue
		}
		switch {
		case strings.HasPrefix(line, "//"):
			rest := strings.TrimPrefix(line, c20Directive)
			if rest != line && rest != "" && (rest[0] == ' ' || rest[0] == '\t') {
				pending = append(pending, strings.TrimSpace(rest))
			}
		case strings.HasPrefix(line, "/*"):
			if !strings.Contains(line[2:], "*/") {
				inBlock = true
			}
		case strings.HasPrefix(line, "func "):
			rest := strings.TrimLeft(line[5:], " ")
			end := strings.IndexAny(rest, "([ ")
			if end > 0 { // end == 0: method receiver
				for _, sym := range pending {
					out = append(out, [2]string{sym, rest[:end]})
				}
			}
			pending = nil
		default:
			pending = nil
		}
	}
	return out
}

func c20KernelRoot() string {
	repo := os.Getenv("VERIF_REPO")
	if repo == "" {
		repo = "/repo"
	}
	return filepath.Join(repo, "kernel")
}

func c20RunKernel() *vlib.Failure {
	root := c20KernelRoot()
	var model []c20Entry
	err := filepath.WalkDir(root, func(p string, d fs.DirEntry, err error) error {
		if err != nil {
			return err
		}
		if d.IsDir() || !strings.HasSuffix(p, ".go") || strings.HasSuffix(p, "_test.go") {
			return nil
		}
		b, err := os.ReadFile(p)
		if err != nil {
			return err
		}
		rel, err := filepath.Rel(root, filepath.Dir(p))
		if err != nil {
			return err
		}
		dir := filepath.ToSlash(rel)
		if dir == "." {
			dir = ""
		}
		for _, a := range c20ScanLines(string(b)) {
			model = append(model, c20Entry{a[0], c20ImportPath(dir) + "." + a[1]})
		}
		return nil
	})
	if err != nil {
		panic("c20: cannot scan " + root + ": " + err.Error())
	}
	if len(model) == 0 {
		panic("c20: the line scanner found no annotation in " + root)
	}
	return c20CheckDir(root, model, 5)
}

// ---------------------------------------------------------------------------
// generators

var (
	c20SymPkgs  = []string{"runtime", "runtime", "runtime/internal/sys", "runtime/internal/atomic", "main", "sync", "internal/cpu", "reflect"}
	c20SymNames = []string{"init", "sysReserve", "sysMap", "sysAlloc", "nanotime", "getRandomData", "gopanic", "throw", "mallocgc",
		"(*mcache).refill", "newproc1", "memmove", "x", "µs", "init.0", "gcenable.func1", "lock2",
		// linker symbols contain blanks too (type..eq.[2]interface {}): the symbol is everything
		// between the directive and the end of the line, less the blanks around it
		"type..eq.[2]interface {}", "(*T[go.shape.struct { F uintptr }]).m"}
	c20DirNames  = []string{"mm", "pmm", "vmm", "kfmt", "cpu", "hal", "goruntime", "sync", "kmain", "driver", "video", "console", "tty", "acpi", "aml", "x1", "a_b", "kfmt_test", "testutil", "internal", "test"}
	c20FileBases = []string{"a", "boot", "mem", "alloc", "panic", "stub", "test", "testing", "xtest", "test_util", "util_test_helper", "go", "doc", "b2"}
	c20OtherExts = []string{".txt", ".s", ".go.bak", ".gox", ".md", ".go~", ".GO", ".h", "", ".go.orig", ".goo"}
	c20FuncNames = []string{"Kmain", "Panic", "panicString", "runtimeInit", "sysReserve", "sysMap", "sysAlloc", "nanotime", "getRandomData", "AllocFrame", "f", "g", "Init", "handle", "main_"}
	c20WS        = []string{" ", " ", " ", "  ", "\t", " \t", "\t ", "     "}
	c20TWS       = []string{"", "", "", "", " ", "\t", "  \t"}
	c20Bodies    = []string{"stmts", "stmts", "empty", "none", "comments"}
)

func c20GenSym(t *rapid.T) string {
	return rapid.SampledFrom(c20SymPkgs).Draw(t, "sympkg") + "." + rapid.SampledFrom(c20SymNames).Draw(t, "symname")
}

// c20GenLine draws one comment line. pRedirect is the percentage of exact
// `//go:redirect-from` lines; the rest is split between neutral lines and the
// other look-alikes.
func c20GenLine(t *rapid.T, pRedirect int, allowRedirect bool) c20Line {
	r := rapid.IntRange(0, 99).Draw(t, "linekind")
	if r < pRedirect && allowRedirect {
		return c20Line{K: "redirect", Sym: c20GenSym(t), WS: rapid.SampledFrom(c20WS).Draw(t, "ws"), TWS: rapid.SampledFrom(c20TWS).Draw(t, "tws")}
	}
	k := rapid.SampledFrom([]string{"prose", "prose", "prose", "directive", "directive", "empty", "spaced", "mention", "case", "near", "block"}).Draw(t, "otherkind")
	l := c20Line{K: k}
	switch k {
	case "prose", "directive", "case", "near", "mention", "block":
		l.V = rapid.IntRange(0, 15).Draw(t, "variant")
	}
	switch k {
	case "spaced", "mention", "case", "near", "block":
		l.Sym = c20GenSym(t)
	}
	return l
}

func c20GenLines(t *rapid.T, min, max, pRedirect int, allowRedirect bool) []c20Line {
	n := rapid.IntRange(min, max).Draw(t, "nlines")
	var ls []c20Line
	for i := 0; i < n; i++ {
		ls = append(ls, c20GenLine(t, pRedirect, allowRedirect))
	}
	return ls
}

func c20Unique(used map[string]bool, base string) string {
	name := base
	for i := 2; used[name]; i++ {
		name = fmt.Sprintf("%s%d", base, i)
	}
	used[name] = true
	return name
}

func c20UniqueFile(used map[string]bool, stem, suffix string) string {
	name := stem + suffix
	for i := 2; used[name]; i++ {
		name = fmt.Sprintf("%s%d%s", stem, i, suffix)
	}
	used[name] = true
	return name
}

func c20GenItem(t *rapid.T, idents map[string]bool) c20Item {
	kind := rapid.SampledFrom([]string{"func", "func", "func", "func", "func", "func", "func", "func", "func", "func",
		"method", "var", "var", "const", "type", "type", "group", "funclit", "comment", "comment", "comment"}).Draw(t, "itemkind")
	if rapid.IntRange(0, 39).Draw(t, "blob") == 0 {
		kind = "blob"
	}
	it := c20Item{Kind: kind, Tight: rapid.IntRange(0, 3).Draw(t, "tight") == 0}
	if kind == "comment" {
		it.Doc = c20GenLines(t, 1, 3, 55, true)
		return it
	}
	if rapid.IntRange(0, 5).Draw(t, "hasdetached") == 0 {
		it.Detached = c20GenLines(t, 1, 3, 60, true)
	}
	trail := func(allowRedirect bool) {
		if rapid.IntRange(0, 4).Draw(t, "hastrail") == 0 {
			l := c20GenLine(t, 60, allowRedirect)
			it.Trail = &l
		}
	}
	switch kind {
	case "func", "method":
		it.Name = c20Unique(idents, rapid.SampledFrom(c20FuncNames).Draw(t, "funcname"))
		it.Body = rapid.SampledFrom(c20Bodies).Draw(t, "body")
		switch rapid.IntRange(0, 9).Draw(t, "docshape") {
		case 0, 1:
			// no doc comment
		case 2, 3:
			// the usual shape: prose, then directives
			it.Doc = append(c20GenLines(t, 0, 3, 0, false), c20GenLines(t, 1, 3, 70, kind == "func")...)
		default:
			it.Doc = c20GenLines(t, 1, 6, 40, kind == "func")
		}
		if it.Body == "stmts" || it.Body == "comments" {
			if rapid.IntRange(0, 2).Draw(t, "hasinner") == 0 {
				it.Inner = c20GenLines(t, 1, 2, 60, true)
				it.Lit = it.Body == "stmts" && rapid.Bool().Draw(t, "lit")
			}
		}
		trail(false)
	default:
		it.Name = c20Unique(idents, map[string]string{"var": "v", "const": "c", "type": "T", "group": "gv", "funclit": "fl", "blob": "tbl"}[kind])
		if kind == "blob" {
			// line lengths around the buffer sizes a line reader may use
			it.Len = rapid.SampledFrom([]int{200, 4095, 4096, 4097, 65535, 65536, 65537, 70000, 140000}).Draw(t, "bloblen")
			it.V = rapid.IntRange(0, 1).Draw(t, "blobshape")
		}
		if rapid.IntRange(0, 2).Draw(t, "hasdoc") != 0 {
			it.Doc = c20GenLines(t, 1, 3, 60, true)
		}
		if kind == "type" {
			it.V = rapid.IntRange(0, 1).Draw(t, "typeshape")
		}
		if kind == "type" || kind == "group" || kind == "funclit" {
			if rapid.IntRange(0, 1).Draw(t, "hasinner") == 0 {
				it.Inner = c20GenLines(t, 1, 2, 60, true)
			}
		}
		trail(true)
	}
	return it
}

func c20PkgName(dir string) string {
	if dir == "" {
		return "kernel"
	}
	return dir[strings.LastIndex(dir, "/")+1:]
}

func c20GenFile(t *rapid.T, dir string, names, idents map[string]bool) c20File {
	kind := rapid.SampledFrom([]string{"go", "go", "go", "go", "go", "go", "go", "test", "test", "other"}).Draw(t, "filekind")
	base := rapid.SampledFrom(c20FileBases).Draw(t, "filebase")
	f := c20File{Kind: kind, Pkg: c20PkgName(dir)}
	switch kind {
	case "go":
		f.Name = c20UniqueFile(names, base, ".go")
	case "test":
		f.Name = c20UniqueFile(names, base, "_test.go")
		if rapid.Bool().Draw(t, "xtest") {
			f.Pkg += "_test"
		}
	default:
		f.Name = c20UniqueFile(names, rapid.SampledFrom([]string{"", "", "", "_", "."}).Draw(t, "otherlead")+base+"_f", rapid.SampledFrom(c20OtherExts).Draw(t, "ext"))
		f.Junk = rapid.IntRange(0, 3).Draw(t, "junk") == 0
		if f.Junk {
			return f
		}
	}
	if rapid.IntRange(0, 4).Draw(t, "hasheader") == 0 {
		f.Header = c20GenLines(t, 1, 3, 50, true)
		f.HeaderTight = rapid.Bool().Draw(t, "headertight")
	}
	// test and non-Go files declare into their own name space so that the
	// package stays free of duplicate declarations
	ids := idents
	if kind != "go" {
		ids = map[string]bool{}
	}
	n := rapid.IntRange(0, 7).Draw(t, "nitems")
	for i := 0; i < n; i++ {
		it := c20GenItem(t, ids)
		if kind != "go" && it.Name != "" {
			it.Name = it.Name + "X" + strings.NewReplacer(".", "D", "~", "T", "_", "U").Replace(f.Name)
		}
		f.Items = append(f.Items, it)
	}
	f.NoNL = rapid.IntRange(0, 9).Draw(t, "nonl") == 0
	if kind != "other" && rapid.IntRange(0, 11).Draw(t, "symlink") == 0 {
		f.Link = rapid.IntRange(1, 2).Draw(t, "linkkind")
	}
	c20LimitLineDirectives(&f)
	return f
}

func c20GenCase(t *rapid.T) c20Case {
	var c c20Case
	ndirs := rapid.IntRange(1, 6).Draw(t, "ndirs")
	paths := []string{""}
	used := map[string]bool{"": true}
	for len(paths) < ndirs {
		parent := paths[rapid.IntRange(0, len(paths)-1).Draw(t, "parent")]
		if rapid.IntRange(0, 2).Draw(t, "deepen") != 0 {
			parent = paths[len(paths)-1] // favour chains, so that depth 3..5 is common
		}
		if c20Depth(parent) >= 5 {
			parent = ""
		}
		name := rapid.SampledFrom(c20DirNames).Draw(t, "dirname")
		p := name
		if parent != "" {
			p = parent + "/" + name
		}
		for i := 2; used[p]; i++ {
			p = fmt.Sprintf("%s%d", strings.TrimRight(p, "0123456789"), i)
		}
		used[p] = true
		paths = append(paths, p)
	}
	for _, p := range paths {
		d := c20Dir{Path: p}
		nfiles := rapid.IntRange(0, 4).Draw(t, "nfiles")
		names := map[string]bool{}
		idents := map[string]bool{}
		for i := 0; i < nfiles; i++ {
			d.Files = append(d.Files, c20GenFile(t, p, names, idents))
		}
		c.Dirs = append(c.Dirs, d)
	}
	if rapid.IntRange(0, 2).Draw(t, "hasgomod") == 0 {
		c.GoMod = rapid.IntRange(1, len(c20GoMods)).Draw(t, "gomod")
	}
	return c
}

// ---------------------------------------------------------------------------
// tests

func c20Check(t vlib.TB, c c20Case) *vlib.Failure {
	if err := c20Validate(c); err != nil {
		t.Fatalf("VERIF-HARNESS C20 case outside the property's domain: %v", err)
	}
	if err := c20SelfCheck(c); err != nil {
		t.Fatalf("VERIF-HARNESS C20 generator model unsound: %v", err)
	}
	return c20Run(c)
}

func TestVerifC20(t *testing.T) {
	st := vlib.For("C20")
	defer vlib.Flush()

	// deterministic sub-check: the real kernel tree
	// (VERIF_C20_SKIP_KERNEL=1 is a debugging knob: generated trees only)
	if os.Getenv("VERIF_C20_SKIP_KERNEL") == "" {
		k := c20Case{Kernel: true}
		if _, err := os.Stat(c20KernelRoot()); err != nil {
			t.Fatalf("VERIF-HARNESS C20 kernel tree not found: %v", err)
		}
		_, kl := c20Classify(k)
		st.Case(k, false, kl...)
		vlib.Report(t, "C20", k, c20Run(k))
	}

	rapid.Check(t, func(t *rapid.T) {
		c := c20GenCase(t)
		fail := c20Check(t, c)
		nt, labels := c20Classify(c)
		st.Case(c, nt, labels...)
		vlib.Report(t, "C20", c, fail)
	})
}

func TestVerifC20Replay(t *testing.T) {
	var c c20Case
	ok, err := vlib.LoadReplay(&c)
	if !ok {
		t.Skip("no replay requested")
	}
	if err != nil {
		t.Fatalf("VERIF-HARNESS cannot load replay: %v", err)
	}
	vlib.Report(t, "C20", c, c20Check(t, c))
}
