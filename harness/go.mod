module verifharness

go 1.23

require (
	github.com/ProjectSerenity/firefly/kernel v0.0.0
	pgregory.net/rapid v1.3.0
)

replace github.com/ProjectSerenity/firefly/kernel => /repo/kernel
require github.com/ProjectSerenity/firefly/kbuild v0.0.0
replace github.com/ProjectSerenity/firefly/kbuild => /repo/kbuild
