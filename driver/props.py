"""Per-property configuration of the verification driver."""
K = 'github.com/ProjectSerenity/firefly/kernel'
B = 'github.com/ProjectSerenity/firefly/kbuild'

PROPS = {
    'C15': {
        'pkg': K + '/kfmt',
        'tests': [
            {'name': 'TestVerifC15', 'checks_quick': 60000, 'checks_thorough': 1600000},
            {'name': 'TestVerifC15Raw', 'checks_quick': 20000, 'checks_thorough': 400000, 'shards_quick': 2},
        ],
        'fuzz': [{'name': 'FuzzVerifC15', 'seconds': 90}],
        'rule': 'rapid generates a format AST (literal runs, %%, %[width]verb with verb in d/x/o/s/t) plus an argument '
                'list (every built-in integer type at boundary values, strings/byte slices, bools, wrong types, too '
                'few / too many); the output is compared with an independent reference formatter (itself cross-checked '
                'against fmt.Sprintf) and AllocsPerRun must be 0. Non-trivial = >=2 verbs, >=1 explicit width and >=1 '
                'argument that is an integer boundary value, a type mismatch, missing or surplus; distinct = different '
                'hash of the JSON case. The Raw test feeds arbitrary format bytes + arguments and only requires no panic '
                '(non-trivial there = >=2 percent signs and >=1 argument).',
        'technique': 'rapid-generated format/argument cases vs. independent reference formatter (differential with fmt), AllocsPerRun, native fuzzing for no-panic',
        'level_text': 'Generated-input search: every generated format/argument case is compared byte-for-byte with a reference formatter written from the statement and must not allocate; arbitrary format bytes must not panic. Exploration, not proof: the space is infinite, the generator aims at integer boundaries, widths around the 31 clamp and argument-count mismatches.',
        'level_note': 'Trusts the reference formatter (cross-checked against fmt.Sprintf on the common sub-domain) and testing.AllocsPerRun on the host toolchain; escape analysis of the kernel toolchain may differ.',
        'assumptions': ['negative octal/hex with a width: sign inside or outside the width are both accepted',
                        '%t with a width: padded or unpadded are both accepted',
                        'allocation freedom is measured with pre-boxed arguments and a non-allocating writer'],
    },
}

PMM_ASSUME = ['the memory map is delivered as a real multiboot2 block (memory-map tag); C10 decides that the block is decoded correctly',
              'vmm.EarlyReserveRegion / vmm.Map are replaced through the package seams by host memory and a recorder',
              'frames consumed by the early allocator during Init are learnt from the frames passed to the map seam']

PROPS['C01'] = {
    'pkg': K + '/mm/pmm',
    'tests': [{'name': 'TestVerifC01', 'checks_quick': 40000, 'checks_thorough': 200000}],
    'rule': 'rapid generates a sorted non-overlapping memory map (1-8 regions, aligned or not, word-boundary frame counts, '
            'all region types), a kernel placement with page-aligned start inside one available region, and an '
            'alloc/free/drain/free-all history; pmm.Init runs on the real multiboot block and every frame returned by '
            'mm.AllocFrame is checked against a set model (inside available RAM, not kernel, not early-consumed, not held). '
            'Non-trivial = Init succeeded and (>=2 pools or a kernel inside a pool or a free followed by re-allocation of that '
            'frame); distinct = hash of the JSON case.',
    'technique': 'rapid model-based history testing against a set model of physical frames',
    'level_text': 'Generated maps, kernel placements and alloc/free histories are executed against the real allocator and a set model; every returned frame is checked for membership and exclusivity after every step. Exploration of an infinite domain, aimed at bitmap word boundaries and unaligned regions.',
    'level_note': 'Trusts the harness set model and the multiboot builder; early-consumed frames are taken from the map seam.',
    'assumptions': PMM_ASSUME,
}
PROPS['C02'] = {
    'pkg': K + '/mm/pmm',
    'tests': [{'name': 'TestVerifC02', 'checks_quick': 60000, 'checks_thorough': 300000}],
    'rule': 'memory maps and kernel placements as in C01 (incl. sub-page regions, kernel covering a region); n early '
            'allocations up to exhaustion + 5. Oracle: each frame wholly inside available RAM, outside the kernel, strictly '
            'ascending; nothing after out-of-memory; replay from reset state identical; real hand-over marks exactly kernel + '
            'early frames. Non-trivial = >=2 available regions with a whole frame, >=2 allocations and a jump over the '
            'kernel or into the next region.',
    'technique': 'rapid generated maps vs. set-membership / monotonicity oracle and replay round-trip',
    'level_text': 'Each generated map/kernel placement/allocation count is run through the real boot allocator; membership, strict monotonicity, out-of-memory stickiness, replay equality and the real hand-over into the bitmap allocator are asserted. Exploration.',
    'level_note': 'Does not require that no usable frame is skipped (the statement does not promise it); skipped frames are reported as a statistic.',
    'assumptions': PMM_ASSUME,
}
PROPS['C03'] = {
    'pkg': K + '/mm/pmm',
    'tests': [{'name': 'TestVerifC03', 'checks_quick': 40000, 'checks_thorough': 200000}],
    'rule': 'as C01, with a pool of 1/63/64/65/128/129 frames forced into half of the cases and histories that also free '
            'never-allocated, out-of-pool and twice-freed frames. Oracle: Init nil or (justified) out-of-memory, never a '
            'panic; totals on the log line and in the allocator equal the model at every step; rejected frees change '
            'nothing; draining yields exactly the usable set; a freed frame is exactly what comes back. Non-trivial = a '
            'pool with size mod 64 in {0,1,63} that was fully drained, or >=1 rejected free.',
    'technique': 'rapid model-based history testing: counters, error contract and exhaustive drain against a set model',
    'level_text': 'Generated maps and histories; after every operation the reported totals must equal the model, every bad free must be rejected without state change, and a final drain must yield exactly the usable frames. Exploration aimed at bitmap word boundaries.',
    'level_note': 'An out-of-memory report from Init is accepted only when the map cannot hold a generous upper bound of the allocator state.',
    'assumptions': PMM_ASSUME + ['frees of kernel-image or early-consumed frames are not generated (unspecified)'],
}

PROPS['C08'] = {
    'pkg': K + '/sync',
    'tests': [
        {'name': 'TestVerifC08', 'checks_quick': 3000, 'checks_thorough': 60000, 'shards_quick': 4, 'shards_thorough': 8},
        {'name': 'TestVerifC08Stress', 'checks_quick': 60, 'checks_thorough': 1500, 'shards_quick': 1, 'shards_thorough': 1},
    ],
    'rule': '(1) rapid generates a linear history of (worker, acquire|try|release) executed by hand-shake on per-worker '
            'goroutines and compared with an exact model (holder, set of blocked workers): try returns true iff free, an '
            'Acquire issued while held must not return before a Release, exactly one waiter gets in per Release. '
            'Non-trivial = >=1 Acquire issued while the lock was held. (2) generated per-worker programs (2-16 workers, '
            'critical-section lengths, try percentage) run freely on all cores; holders counter, non-atomic counter and a '
            '4-word record must stay consistent. Non-trivial = measured contention (failed tries or acquire attempts that '
            'saw the lock held) > 0. distinct = hash of the JSON case.',
    'technique': 'rapid model-based sequential histories + generated parallel stress with in-critical-section invariants',
    'level_text': 'The sequential specification of Acquire/TryToAcquire/Release is decided exactly under a harness-owned schedule; mutual exclusion and visibility under true parallelism are sampled over generated programs with measured contention. Schedules are sampled, not enumerated.',
    'level_note': 'yieldFn is set to runtime.Gosched (as the repository test does); x86-TSO hides memory-ordering defects; a defect needing one rare interleaving of two instructions can be missed.',
    'assumptions': ['blocked = did not return within 300us while the model says the lock is held (delay can only hide a defect, never fake one)',
                    'an Acquire that should proceed is given 5s'],
    'timeout_quick': 240,
}

PROPS['C09'] = {
    'pkg': K + '/mm/pmm',
    'tests': [{'name': 'TestVerifC09', 'checks_quick': 3000, 'checks_thorough': 12000, 'shards_quick': 2, 'shards_thorough': 4}],
    'rule': 'rapid generates 1-3 pools of 1-130 frames (initialised through the real pmm.Init) and 2-16 worker programs '
            '(iterations, alloc percentage, bogus-free percentage, hold limit, salt) that run truly in parallel; an '
            'ownership table updated with atomic swap detects a frame held twice; afterwards reserved totals, per-pool '
            'free counters vs. bitmap bits and an exhaustive drain are checked; a progress watchdog detects blocked calls; '
            'deterministic probes check that every return path releases the lock and that both calls wait for it. '
            'Non-trivial = >=4 workers, out-of-memory hit at least once and measured lock contention > 0.',
    'technique': 'rapid-generated parallel workloads with ownership-table invariant, quiescent-state accounting and deterministic lock-discipline probes',
    'level_text': 'Sampled truly-parallel schedules on 16 cores with small pools (constant collisions, regular out-of-memory) plus exact, schedule-independent lock-discipline probes on all five return paths. Schedules are sampled, not enumerated.',
    'level_note': 'The spinlock yields through runtime.Gosched via a verif-only export shim; "blocks forever" = no call completes for 8s, reproduced by forcing the lock free.',
    'assumptions': PMM_ASSUME + ['double frees are exercised only in the sequential lock-discipline probe (a concurrent double free may legitimately free a frame re-allocated to someone else)'],
    'timeout_quick': 300,
}
