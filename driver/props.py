"""Per-property configuration of the verification driver.

Each property has its own file driver/props.d/<id>.py defining PROP = {...}:
  pkg            import path of the package whose test binary hosts the harness
  tests          list of generated tests: {name, kind ('rapid'|'plain'), checks_quick, checks_thorough,
                 shards_quick, shards_thorough, shrinktime, steps}
  fuzz           optional native fuzz targets (thorough tier): {name, seconds, workers}
  rule           how cases are generated and what makes one non-trivial (goes into the evidence file)
  technique, level_text, level_note, assumptions   (MANIFEST.json / evidence)
  timeout_quick / timeout_thorough   seconds per test binary
"""
import glob, os, runpy

PROPS = {}
NOT_APPLICABLE = {}
_d = os.path.join(os.path.dirname(os.path.abspath(__file__)), 'props.d')
for _f in sorted(glob.glob(os.path.join(_d, 'C*.py'))):
    _ns = runpy.run_path(_f)
    PROPS[os.path.basename(_f)[:-3]] = _ns['PROP']
