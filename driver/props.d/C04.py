"""Driver configuration of property C04 (loaded by driver/props.py)."""
K = 'github.com/ProjectSerenity/firefly/kernel'

VMM_ASSUME = ['simulated machine: physical memory = host pages (frame = host address >> 12), CR3 = harness variable, software MMU interprets the present bit and bits 12-51 only (no TLB caching beyond "was a flush issued", no A/D bits, no huge pages)',
              'the kernel reaches page tables through its own seams (ptePtrFn/nextAddrFn/activePDTFn/switchPDTFn/flushTLBEntryFn), translated by the software MMU from the current CR3',
              'temporary mappings hand the caller the host alias of the frame; the real MapTemporary/Unmap still run']

PROP = {
    'pkg': K + '/mm/vmm',
    'tests': [{'name': 'TestVerifC04', 'checks_quick': 60000, 'checks_thorough': 1500000}],
    'rule': 'rapid generates a history (<=60 ops quick, <=300 thorough) over 1-3 address spaces of Map/Unmap/'
            'PageDirectoryTable.Map/Unmap (active and inactive)/MapRegion/IdentityMapRegion/MapTemporary/Translate/Activate '
            'with pages from per-level index pools (shared and distinct upper tables, both canonical halves, the '
            'temporary-mapping page), 40-bit frames, all flag subsets, and "fail the k-th frame allocation of this op". '
            'After every op an independent software-MMU enumeration of every space must equal the model exactly '
            '(two-sided), Translate must agree, changed pages must be flushed, inactive-space ops must leave every '
            'table frame of the active space byte-identical, injected failures must be returned and change nothing. '
            'Non-trivial = history with >=2 live mappings sharing an upper table, or a remap, or unmap-then-map, or an '
            'inactive-space op, or an injected failure that fired; distinct = hash of the JSON case.',
    'technique': 'rapid stateful history testing on a simulated MMU with an exact enumeration oracle and fault injection',
    'level_text': 'Model-based: the real page-table code runs against a simulated machine; after each generated operation the complete set of present leaf entries of every address space is compared with a map model, so both missing and spurious translations, stale flags, unclear new tables and missing TLB flushes are visible. Exploration of an infinite history space.',
    'level_note': 'Relative to the software MMU model (present bit + frame bits); huge pages, A/D bits and real TLB behaviour are not modelled.',
    'assumptions': VMM_ASSUME,
}
