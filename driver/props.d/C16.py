"""Driver configuration of property C16 (loaded by driver/props.py)."""
K = 'github.com/ProjectSerenity/firefly/kernel'

PROP = {
    'pkg': K + '/hal',
    'tests': [{'name': 'TestVerifC16Hal', 'checks_quick': 120000, 'checks_thorough': 2000000, 'shards_quick': 8},
              {'name': 'TestVerifC16Kfmt', 'checks_quick': 80000, 'checks_thorough': 1500000}],
    'rule': 'Two layers, one test binary (package hal). '
            'TestVerifC16Hal: rapid generates 0-10 mock drivers (console / tty / other; consoles are reference text grids of '
            '1-12 x 1-12 cells that optionally implement FontSetter / LogoSetter; in about half of the cases every tty is '
            'the real tty.VT behind a recording wrapper, otherwise a recording mock that rejects writes while unattached) '
            'with detection orders from {-128,-127,-1,0,0,1,127} in a random registration order, each driver: probe '
            'returns nil / init fails with a unique message / init succeeds; log chunks carrying unique tokens (0-3000 '
            'bytes, with / without trailing newline, newline in the middle, []byte or string) are emitted before '
            'DetectHardware, inside every Probe (kfmt.Printf), inside every DriverInit (through the writer hal hands in) '
            'and after DetectHardware; the early ring starts at a generated physical position. The driver list is '
            'installed through the device shim, multiboot gets an empty info block. Every case is executed twice: once '
            'with a recorder installed as sink from the start (measures the complete log, nothing can be dropped) and '
            'once for real (early ring). Oracle: see assumptions. '
            'Non-trivial (hal layer) = >=1 console and >=1 tty initialise successfully (either order) and there is a '
            'failing driver or a second successful console/tty, and the harness logged >0 bytes before the link. '
            'TestVerifC16Kfmt: chunked writes (0-5000 bytes, total <=10000) through Printf / Fprintf(GetOutputSink()) / '
            'Fprintf(nil) / Write / PrefixWriter into the early ring from a generated physical ring position, interleaved '
            'with partial reads of the ring, then SetOutputSink(recorder), then more output; oracle = queue model of '
            'capacity 2047 (oldest dropped first) and a line model of PrefixWriter, compared byte for byte. Non-trivial '
            '(kfmt layer) = >=2 non-empty writes before and >=1 write after the switch. distinct = hash of the JSON case.',
    'technique': 'rapid-generated bring-up scenarios against mock drivers / the real VT: structural oracle on probe order and '
                 'the active pair, differential log oracle (lossless reference run vs. early-ring run) and reference '
                 'terminal; queue model of the early ring',
    'level_text': 'Generated-input search over driver sets, registration orders, failing probes/inits and log volumes on '
                  'both sides of the ring capacity; the early ring is additionally compared byte for byte with a queue '
                  'model from every physical ring position. Exploration, not proof.',
    'level_note': 'The bytes hal logs itself are not predicted: they are measured in a second execution of the same case '
                  'with a recording sink installed from the start (hal and the mocks are deterministic).',
    'assumptions': [
        'drivers are mocks (plus the real tty.VT); real console drivers are covered by C18/C19',
        'the complete log of a case is measured by a lossless reference execution of the same case (sink installed '
        'before the first byte); the early-ring execution must deliver a suffix of the pre-link part of at least '
        'min(volume, 2047) bytes followed by exactly the post-link part',
        'a token must be present only if the measured volume from its first byte to the link is <= 2047 bytes',
        'each detected driver (non-nil probe) is initialised exactly once, before the next probe',
        'nothing is asserted about SetLogo/SetFont, nor about ActiveTTY() being set before a console exists (it may be '
        'nil or the first terminal)',
        'mock terminals reject writes while unattached, as tty.VT does',
    ],
    'timeout_quick': 300,
}
