"""Driver configuration of property C01 (loaded by driver/props.py)."""
K = 'github.com/ProjectSerenity/firefly/kernel'
B = 'github.com/ProjectSerenity/firefly/kbuild'

PROP = {'pkg': 'github.com/ProjectSerenity/firefly/kernel/mm/pmm',
 'tests': [{'name': 'TestVerifC01', 'checks_quick': 120000, 'checks_thorough': 3000000}],
 'rule': 'rapid generates a sorted non-overlapping memory map (1-8 regions, aligned or not, word-boundary frame '
         'counts, all region types), a kernel placement with page-aligned start inside one available region, and an '
         'alloc/free/drain/free-all history; pmm.Init runs on the real multiboot block and every frame returned by '
         'mm.AllocFrame is checked against a set model (inside available RAM, not kernel, not early-consumed, not '
         'held). Non-trivial = Init succeeded and (>=2 pools or a kernel inside a pool or a free followed by '
         're-allocation of that frame); distinct = hash of the JSON case.',
 'technique': 'rapid model-based history testing against a set model of physical frames',
 'level_text': 'Generated maps, kernel placements and alloc/free histories are executed against the real allocator and '
               'a set model; every returned frame is checked for membership and exclusivity after every step. '
               'Exploration of an infinite domain, aimed at bitmap word boundaries and unaligned regions.',
 'level_note': 'Trusts the harness set model and the multiboot builder; early-consumed frames are taken from the map '
               'seam.',
 'assumptions': ['the memory map is delivered as a real multiboot2 block (memory-map tag); C10 decides that the block '
                 'is decoded correctly',
                 'vmm.EarlyReserveRegion / vmm.Map are replaced through the package seams by host memory and a '
                 'recorder',
                 'frames consumed by the early allocator during Init are learnt from the frames passed to the map '
                 'seam']}
