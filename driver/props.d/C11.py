"""Driver configuration of property C11 (loaded by driver/props.py)."""
K = 'github.com/ProjectSerenity/firefly/kernel'

PROP = {
    'pkg': K + '/device/acpi/aml',
    'tests': [{'name': 'TestVerifC11', 'checks_quick': 40000, 'checks_thorough': 1200000}],
    'rule': 'rapid generates a namespace (objects in the root, in the predefined scopes and nested up to 3 deep inside '
            'Device/ThermalZone/Processor/PowerResource) and then chooses how each object is written: lexically nested, '
            'hoisted into a Scope directive (absolute, relative or single-segment path, or the root named by its prefix alone: Scope(\\)), declared with a path-prefixed or '
            '^-prefixed name, with minimal or non-minimal PkgLength encodings, split over 1-3 tables; method bodies '
            '(Store/operators/If/Else/While/Return/Increment, references, forward and nested invocations with exact '
            'argument counts, and Name/Mutex/Event/OperationRegion/Field declarations placed directly in the body or inside '
            'If, Else and While blocks) are generated afterwards from the symbols visible by ACPI search rules. Objects '
            'declared by a method body are expected in the scope of the method. The harness encoder '
            'is independent of the parser. Oracle: ParseAML succeeds for every table; the namespace view of the tree '
            '(children of a scope block; for Device-like objects the children of their nested scope block) equals the '
            'model two-sidedly, each object with kind, name and arguments (constants by value, strings/buffers by bytes, '
            'packages recursively, field units by offset/width/access/lock/update, regions, method flags, processor and '
            'power-resource operands); every method invocation is bound to the right method with exactly the declared '
            'number of arguments, compared structurally. Non-trivial = program with >=1 Scope directive or '
            'path/caret-prefixed name AND >=1 invocation with arguments.',
    'technique': 'rapid grammar-based program generation with namespace-by-construction model and independent encoder (round trip through the real parser)',
    'level_text': 'Grammar-based generation of well-formed AML with the expected namespace known by construction; the parser output is compared two-sidedly with that model. Exploration of the supported grammar subset; classes that are recorded findings are constructed around and counted.',
    'level_note': 'Trusts the harness encoder and the by-construction scoping model; method-body statement nesting (If/While bodies) is not asserted, only invocations and the objects a body declares (found by walking through If/Else/While nodes, which open no scope).',
    'assumptions': ['operands of OperationRegion are constants; Name data are constants, strings, buffers with constant size, packages',
                    'names are unique per program, except that a method may carry the name of a method of an enclosing scope (a simple name then designates the innermost one declared by the same or an earlier table); lookup rules in general are decided by C13',
                    'package elements may name other objects (bound to exactly that object); elements that name a method are not generated: AML cannot tell a reference from an invocation there',
                    'Scope directives and path prefixes refer to objects declared earlier (same or earlier table); method calls may be forward within a table'],
}
