"""Driver configuration of property C08 (loaded by driver/props.py)."""
K = 'github.com/ProjectSerenity/firefly/kernel'
B = 'github.com/ProjectSerenity/firefly/kbuild'

PROP = {'pkg': 'github.com/ProjectSerenity/firefly/kernel/sync',
 'tests': [{'name': 'TestVerifC08',
            'checks_quick': 8000,
            'checks_thorough': 300000,
            'shards_quick': 4,
            'shards_thorough': 8},
           {'name': 'TestVerifC08Stress',
            'checks_quick': 120,
            'checks_thorough': 4000,
            'shards_quick': 1,
            'shards_thorough': 1},
           {'name': 'TestVerifC08Litmus',
            'checks_quick': 80,
            'checks_thorough': 3000,
            'shards_quick': 1,
            'shards_thorough': 1},
           {'name': 'TestVerifC08Refusals', 'kind': 'plain', 'tiers': ['thorough']}],
 'rule': '(1) rapid generates a linear history of (worker, acquire|try|release) executed by hand-shake on per-worker '
         'goroutines and compared with an exact model (holder, set of blocked workers): try returns true iff free, an '
         'Acquire issued while held must not return before a Release, exactly one waiter gets in per Release. '
         'Non-trivial = >=1 Acquire issued while the lock was held. (2) generated per-worker programs (2-16 workers, '
         'critical-section lengths, try percentage) run freely on all cores; holders counter, non-atomic counter and a '
         '4-word record must stay consistent. Non-trivial = measured contention (failed tries or acquire attempts that '
         'saw the lock held) > 0. (3) two locks, two tasks: each releases its own lock and at once tries the other one, '
         'thousands of rounds per case on a spin barrier; both tries failing in one round is impossible for a correct '
         'lock (store-buffering litmus). Non-trivial = at least two different outcomes seen among the rounds of the '
         'case. (4, thorough tier only) 2^32 + 2^16 try-acquires during one hold: every one must be refused. '
         'distinct = hash of the JSON case.',
 'technique': 'rapid model-based sequential histories + generated parallel stress with in-critical-section invariants '
              '+ generated two-lock litmus rounds',
 'level_text': 'The sequential specification of Acquire/TryToAcquire/Release is decided exactly under a harness-owned '
               'schedule; mutual exclusion and visibility under true parallelism are sampled over generated programs '
               'with measured contention. Schedules are sampled, not enumerated.',
 'level_note': 'yieldFn is set to runtime.Gosched (as the repository test does); x86-TSO hides most memory-ordering '
               'defects (the store-to-load reordering it does allow is attacked by the two-lock litmus); a defect '
               'needing one rare interleaving of two instructions can be missed.',
 'assumptions': ['blocked = did not return within 300us while the model says the lock is held (delay can only hide a '
                 'defect, never fake one)',
                 'an Acquire that should proceed is given 5s'],
 'timeout_quick': 240}
