"""Driver configuration of property C07 (loaded by driver/props.py)."""
K = 'github.com/ProjectSerenity/firefly/kernel'

VMM_ASSUME = ['simulated machine: physical memory = host pages (frame = host address >> 12), CR3 = harness variable, software MMU interprets the present bit and bits 12-51 only (no TLB caching beyond "was a flush issued", no A/D bits, no huge pages)',
              'the kernel reaches page tables through its own seams (ptePtrFn/nextAddrFn/activePDTFn/switchPDTFn/flushTLBEntryFn), translated by the software MMU from the current CR3',
              'temporary mappings hand the caller the host alias of the frame; the real MapTemporary/Unmap still run']

PROP = {
    'pkg': K + '/mm/vmm',
    'tests': [{'name': 'TestVerifC07', 'checks_quick': 150000, 'checks_thorough': 5000000},
              {'name': 'TestVerifC07Tables', 'checks_quick': 12000, 'checks_thorough': 300000},
              {'name': 'TestVerifC07Pmm', 'pkg': K + '/mm/pmm', 'checks_quick': 8000, 'checks_thorough': 300000}],
    'rule': 'Three tests. (real tables) short histories of region mappings run by the C04 machine - real Map on junk-filled '
            'frames, software MMU: after every operation exactly the pages of the mapped regions translate. (pmm side) pmm.Init over generated memory maps, half of them sized so that the allocator state '
            '(pool headers + bitmaps) is within one word of a page multiple: the pages Init maps through the region it '
            'reserved must be exactly the pages that cover the reserved size, each once, none outside. (vmm side) '
            'rapid generates sequences (<=40) of EarlyReserveRegion / MapRegion / IdentityMapRegion with sizes from '
            '{0,1,4095,4096,4097, k pages+tail, remaining-space +-{0,1,4095,4096,4097}, 2^62, 2^63, 2^64-4096..2^64-1, any '
            'uint64, large chunks that move the cursor near the bottom}; the map seam records (page, frame, flags) and can '
            'fail at the j-th call. Oracle (arbitrary-precision arithmetic): success iff the rounded size fits below the '
            'cursor; aligned, below every earlier region and the temporary-mapping page, long enough; failure leaves the '
            'cursor unchanged; region mapping = exactly ceil(size/4096) consecutive page->frame pairs with the flags. '
            'Non-trivial = >=3 successful reservations, or a size within a page of the remaining space, or a size in the '
            'overflow band (>= 2^64-4094).',
    'technique': 'rapid-generated request sequences vs. arbitrary-precision interval model',
    'level_text': 'Generated request sequences against an interval model computed in big-integer arithmetic; the generator aims at the page-rounding and 2^64 wrap boundaries and at the exhausted-space boundary. Exploration.',
    'level_note': 'Requests needing more than 2^20 map calls are answered by a failing map seam and only required to report an error.',
    'assumptions': ['the map seam is a recorder (C04 decides that Map itself is right)'],
}
