"""Driver configuration of property C14 (loaded by driver/props.py)."""
K = 'github.com/ProjectSerenity/firefly/kernel'
B = 'github.com/ProjectSerenity/firefly/kbuild'

PROP = {'pkg': 'github.com/ProjectSerenity/firefly/kernel/device/acpi',
 'tests': [{'name': 'TestVerifC14', 'checks_quick': 100000, 'checks_thorough': 4000000}],
 'rule': 'rapid generates a firmware image model: search area of 64 bytes .. 64 KiB filled with pseudo-random bytes; '
         'root-pointer structures at generated 16-byte slots (the real one at the first slot, at the last slot where '
         'it still fits, or anywhere; revision 0 = 20 bytes, revisions 1/2/3/4/6/255 = 36 bytes followed by arbitrary '
         'bytes), 0-3 decoys before it with the signature but every checksum broken (and an arbitrary Length field), '
         'complete checksum-valid copies that do NOT sit on a 16-byte boundary, further valid structures and decoys '
         'after it, or no valid structure at all; root table RSDT (4-byte entries, revision 0) or XSDT (8-byte '
         'entries) with header revision 0-3 and 0-10 tables of distinct signatures in a generated order, bodies of '
         '0 bytes .. 9 KB, about a quarter corrupted by changing one byte (checksum byte, first byte after the length, '
         'last byte, anywhere), placed packed / 16-aligned / page-aligned / ending exactly at a page end / crossing '
         'page boundaries; optional FADT (44 .. 400 bytes, typical sizes 116/244/276) with 32- and/or 64-bit DSDT '
         'pointer and a DSDT that may itself be corrupted. The image is laid out in MAP_32BIT guarded memory whose '
         'pages are inaccessible until the driver maps them through its mapFn/identityMapFn seams; the real probe '
         'function and DriverInit run on it and are compared with the model: which structure wins, 32- vs 64-bit '
         'root address, the exact {signature -> address} table map, one log report per corrupted table and none for '
         'intact ones, no fault (= every byte was mapped before it was read). Non-trivial = >=3 listed tables of '
         'which >=1 corrupted one is not the last entry, or >=1 decoy before the winning root pointer, or the root '
         'pointer in the last slot where it fits; distinct = different hash of the JSON case.',
 'technique': 'rapid-generated firmware image models laid out in guarded, map-on-demand host memory; real probe + '
              'DriverInit compared two-sidedly with a reference model of RSDP search and table enumeration',
 'level_text': 'Generated-input search: every generated firmware image is run through the real RSDP scan and table '
               'enumeration and compared with a model written from the statement (nothing missing, nothing extra, '
               'right addresses, corrupted tables reported and skipped). Exploration, not proof: image space is '
               'infinite; the generator aims at slot positions, decoys, entry sizes, corruption positions and page '
               'placement.',
 'level_note': 'Host memory stands in for physical memory: pages are PROT_NONE until the driver identity-maps them, so '
               'reading an unmapped byte is observed as a fault (mprotect granularity = the 4 KiB page size of the '
               'kernel). The shipped search area constants are checked to be 0xe0000-0xfffff and then redirected to '
               'the image; the scan alignment is used as shipped.',
 'assumptions': ['the root pointer structure and every decoy lie wholly inside the search area (quantifier); a '
                 'signature in a slot where the structure no longer fits is not generated',
                 'revision != 0 root pointers are valid only with both checksums right and Length 36; decoys have '
                 'both checksums broken ("one valid, one not" is unspecified)',
                 'the root table itself always has a valid checksum and exactly as many entries as its length says',
                 'a corrupted table differs from a valid one in one byte that is not part of its signature or length',
                 'while F-C14b is open only FADTs whose DSDT pointer candidates (bytes 40, 140, 152) agree are '
                 'generated; otherwise the ACPI rule decides (X_DSDT when present and non-zero, else DSDT)',
                 'while F-C14c is open tables are placed so that their length alone tells how many pages they occupy',
                 'the report of a corrupted table is any log line (io.Writer handed to DriverInit or the kfmt sink) '
                 'that contains the word "checksum" and the table signature']}
