"""Driver configuration of property C14 (loaded by driver/props.py)."""
K = 'github.com/ProjectSerenity/firefly/kernel'
B = 'github.com/ProjectSerenity/firefly/kbuild'

PROP = {'pkg': 'github.com/ProjectSerenity/firefly/kernel/device/acpi',
 'tests': [{'name': 'TestVerifC14', 'checks_quick': 40000, 'checks_thorough': 1600000}],
 'rule': 'placeholder',
 'technique': 'placeholder',
 'level_text': 'placeholder',
 'level_note': 'placeholder',
 'assumptions': []}
