"""Driver configuration of property C18 (loaded by driver/props.py)."""
K = 'github.com/ProjectSerenity/firefly/kernel'

PROP = {
    'pkg': K + '/device/tty',
    'tests': [{'name': 'TestVerifC18', 'checks_quick': 8000, 'checks_thorough': 200000},
              {'name': 'TestVerifC18Vga', 'checks_quick': 8000, 'checks_thorough': 200000},
              {'name': 'TestVerifC18Fb', 'checks_quick': 4000, 'checks_thorough': 100000}],
    'rule': 'placeholder',
    'technique': 'placeholder',
    'level_text': 'placeholder',
    'level_note': '',
    'assumptions': [],
}
