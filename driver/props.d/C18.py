"""Driver configuration of property C18 (loaded by driver/props.py)."""
K = 'github.com/ProjectSerenity/firefly/kernel'

PROP = {
    'pkg': K + '/device/tty',
    'tests': [{'name': 'TestVerifC18', 'checks_quick': 16000, 'checks_thorough': 500000, 'shrinktime': '10s'},
              {'name': 'TestVerifC18Vga', 'checks_quick': 16000, 'checks_thorough': 400000, 'shrinktime': '10s'},
              {'name': 'TestVerifC18Fb', 'checks_quick': 8000, 'checks_thorough': 200000, 'shrinktime': '10s'}],
    'rule': 'The C17 histories (<=400 ops: WriteByte/Write with control bytes, SetCursorPosition, about 9% '
            'SetState(active/inactive), about 1% re-attachment to a freshly generated console of the same kind - always '
            'preceded by SetState(inactive), as hal does) run against three console kinds, one rapid test each: a '
            'reference text grid 1..12 x 1..12 (TestVerifC18); the real VgaTextConsole, 1..12 x 1..10, 80x25 or 1..100 x '
            '1..50 (TestVerifC18Vga); the real VesaFbConsole with 1..9 x 1..7 cells (thorough: ~3% up to 40x20), bpp in '
            '{8,15,16,24,32}, 3-4 colour layouts per depth, each of the three shipped Terminus fonts, 0..glyph-1 '
            'remainder pixels right of / below the grid, pitch = row bytes + 0..64, no logo or a generated logo of '
            'height 1..40 (any width <= console, alignment, palette) set through SetLogo before SetFont '
            '(TestVerifC18Fb). Real consoles are brought up through DriverInit with mapRegionFn pointed at guarded '
            'host memory pre-filled with a position-dependent pattern that shares no byte value with default-colour '
            'pixels. After every op: active -> every console cell equals the cell of the terminal\'s own viewport '
            '(text mode: 16-bit cell value; framebuffer: harness-rendered glyph in the packed colours), logo scanlines, '
            'scanlines below the grid and memory behind the framebuffer byte-identical to set-up, bytes right of the '
            'last column equal to the set-up value of the same offset 0..k glyph rows further down (k = scrolls '
            'requested so far); inactive -> no drawing call (grid) / no byte of the mapping changed (real consoles). '
            'Non-trivial = deactivate -> writes that scroll -> activate, or >=3 buffer scrolls while active; distinct '
            '= different hash of the JSON case.',
    'technique': 'rapid-generated op histories; console contents vs. the terminal viewport after every op (reference '
                 'grid, real text-mode driver, real framebuffer driver with an independent glyph renderer on guarded memory)',
    'level_text': 'Generated-input search: after every op of a generated history the complete console (every cell, every '
                  'byte of the mapped framebuffer including logo rows, remainder strips, row padding and the slack '
                  'behind it) is compared with the terminal\'s viewport and with the set-up snapshot. Exploration, not '
                  'proof.',
    'level_note': 'The terminal only ever draws in the default colours 7 on 0, so colour conversion of other palette '
                  'entries is not exercised (property C19). The 4th byte of a 32-bpp pixel is not asserted.',
    'assumptions': ['a console Scroll may move whole scanlines: bytes right of the last column travel with their scanline '
                    '(never receive cell content); logo rows, rows below the grid and memory behind the framebuffer '
                    'must not change at all',
                    'on the reference grid a Write outside the grid counts as drawing outside it; a Fill rectangle is '
                    'clipped to the grid; lines vacated by Scroll are undefined until redrawn',
                    'the space glyph of the three shipped fonts is blank (checked at start), so Fill and a written '
                    'space look the same',
                    'colour layouts keep every component inside the bytes the driver writes (2 for 15/16 bpp, 3 for '
                    '24/32 bpp)',
                    'consoles with an empty cell grid (framebuffer smaller than one glyph, 0-column text mode) are not '
                    'generated: there is no viewport to show'],
}
