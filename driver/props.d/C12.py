"""Driver configuration of property C12 (loaded by driver/props.py)."""
K = 'github.com/ProjectSerenity/firefly/kernel'

PROP = {
    'pkg': K + '/device/acpi/aml',
    'tests': [{'name': 'TestVerifC12', 'checks_quick': 120000, 'checks_thorough': 1500000, 'shrinktime': '40s'}],
    'fuzz': [{'name': 'FuzzVerifC12', 'seconds': 150}],
    'rule': 'three sources, every parse executed in a persistent child process (a stack overflow is a fatal error in Go): '
            '(a) byte strings biased to opcode bytes, name characters, prefix bytes and PkgLength lead bytes; (b) '
            'structure-aware mutations (truncate, bit flip, byte substitution, PkgLength corruption, self-referential '
            'names, splice, swap, duplicate, insert) of well-formed programs from the C11 generator, optionally after valid '
            'earlier tables; (c) the same mutations of the three shipped tables. Oracle in the worker: ParseAML returns nil '
            'or its parse error; no panic, no process death, verdict within 6 s (a hang is re-checked twice in fresh '
            'workers); every []byte stored in the tree lies inside a table; parent/child/sibling links agree in both '
            'directions, no cycle, no freed object linked; PrettyPrint of a successfully parsed tree does not panic. '
            'Non-trivial = the parser got past the first object (>= 2 objects created beyond the predefined scopes).',
    'technique': 'rapid generation + structure-aware mutation with process-isolated oracle; native coverage-guided fuzzing in the thorough tier',
    'level_text': 'Generated and mutated inputs are parsed by the real parser in an isolated worker; memory-safety style post-conditions (slice containment, tree link invariants, printability) and termination are checked for both accepted and rejected inputs. Exploration; coverage-guided fuzzing extends it in the thorough tier.',
    'level_note': 'A panic in PrettyPrint after a REJECTED parse is only counted (the kernel never prints such a tree). "Proportional bound" is approximated by a 6 s deadline for inputs of at most a few hundred KiB.',
    'assumptions': ['the table header is well-formed (Length = actual length); only the AML body is hostile'],
    'timeout_quick': 900,
}
