"""Driver configuration of property C06 (loaded by driver/props.py)."""
K = 'github.com/ProjectSerenity/firefly/kernel'

VMM_ASSUME = ['simulated machine: physical memory = host pages (frame = host address >> 12), CR3 = harness variable, software MMU interprets the present bit and bits 12-51 only (no TLB caching beyond "was a flush issued", no A/D bits, no huge pages)',
              'the kernel reaches page tables through its own seams (ptePtrFn/nextAddrFn/activePDTFn/switchPDTFn/flushTLBEntryFn), translated by the software MMU from the current CR3',
              'temporary mappings hand the caller the host alias of the frame; the real MapTemporary/Unmap still run']

PROP = {
    'pkg': K + '/mm/vmm',
    'tests': [{'name': 'TestVerifC06', 'checks_quick': 60000, 'checks_thorough': 1500000}],
    'rule': 'on the simulated machine (physical memory = memfd, so a virtual page can be a read-only alias of a frame) '
            'the vmm is brought up through Init or reserveZeroedFrame; rapid generates histories of (a) attempts to map the '
            'shared zero frame through Map/MapTemporary/MapRegion/IdentityMapRegion/PageDirectoryTable.Map (active and '
            'inactive) with and without RW, (b) pages that alias the zero frame or one of two content-filled frames, mapped '
            'with generated leaf flags, (c) page faults on those pages or on unmapped pool pages with generated offset, '
            'error code, upper-level flag knock-outs and injected allocation / temporary-mapping failures, (d) GPFs. '
            'Oracle: no space ever holds a present RW leaf on the zero frame and the frame stays zero; a fault returns '
            'iff all levels are present and the leaf is read-only + CoW, and then the page has a freshly allocated frame, '
            'RW set, CoW clear, other flags unchanged, contents equal to what the page showed, every other leaf and the '
            'source frame unchanged, TLB entry flushed; everything else panics. Non-trivial = a recovered fault on a frame '
            'shared by >=2 pages, or a non-recoverable flag combination with all levels present, or an injected failure '
            'during a CoW fault.',
    'technique': 'rapid stateful history testing of the real fault handler on a simulated MMU with memfd-aliased pages and fault injection',
    'level_text': 'The real page-fault handler is driven end to end on the simulated machine with generated page states, fault descriptions and injected failures; recovery is checked against an exact post-condition (fresh frame, flags, contents, isolation, flush), and every non-recoverable situation must end in a panic. Exploration.',
    'level_note': 'Relative to the software MMU; "resumes" = the handler returns normally, "kernel panic" = Go panic recovered by the harness.',
    'assumptions': VMM_ASSUME,
}
