"""Driver configuration of property C03 (loaded by driver/props.py)."""
K = 'github.com/ProjectSerenity/firefly/kernel'
B = 'github.com/ProjectSerenity/firefly/kbuild'

PROP = {'pkg': 'github.com/ProjectSerenity/firefly/kernel/mm/pmm',
 'tests': [{'name': 'TestVerifC03', 'checks_quick': 120000, 'checks_thorough': 3000000}],
 'rule': 'as C01, with a pool of 1/63/64/65/128/129 frames forced into half of the cases and histories that also free '
         'never-allocated, out-of-pool and twice-freed frames. Oracle: Init nil or (justified) out-of-memory, never a '
         'panic; totals on the log line and in the allocator equal the model at every step; rejected frees change '
         'nothing; draining yields exactly the usable set; a freed frame is exactly what comes back. Non-trivial = a '
         'pool with size mod 64 in {0,1,63} that was fully drained, or >=1 rejected free.',
 'technique': 'rapid model-based history testing: counters, error contract and exhaustive drain against a set model',
 'level_text': 'Generated maps and histories; after every operation the reported totals must equal the model, every '
               'bad free must be rejected without state change, and a final drain must yield exactly the usable '
               'frames. Exploration aimed at bitmap word boundaries.',
 'level_note': 'An out-of-memory report from Init is accepted only when the map cannot hold a generous upper bound of '
               'the allocator state.',
 'assumptions': ['the memory map is delivered as a real multiboot2 block (memory-map tag); C10 decides that the block '
                 'is decoded correctly',
                 'vmm.EarlyReserveRegion / vmm.Map are replaced through the package seams by host memory and a '
                 'recorder',
                 'frames consumed by the early allocator during Init are learnt from the frames passed to the map seam',
                 'frees of kernel-image or early-consumed frames are not generated (unspecified)']}
