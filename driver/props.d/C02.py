"""Driver configuration of property C02 (loaded by driver/props.py)."""
K = 'github.com/ProjectSerenity/firefly/kernel'
B = 'github.com/ProjectSerenity/firefly/kbuild'

PROP = {'pkg': 'github.com/ProjectSerenity/firefly/kernel/mm/pmm',
 'tests': [{'name': 'TestVerifC02', 'checks_quick': 200000, 'checks_thorough': 5000000}],
 'rule': 'memory maps and kernel placements as in C01 (incl. sub-page regions, kernel covering a region); n early '
         'allocations up to exhaustion + 5. Oracle: each frame wholly inside available RAM, outside the kernel, '
         'strictly ascending; nothing after out-of-memory; replay from reset state identical; real hand-over marks '
         'exactly kernel + early frames. Non-trivial = >=2 available regions with a whole frame, >=2 allocations and a '
         'jump over the kernel or into the next region.',
 'technique': 'rapid generated maps vs. set-membership / monotonicity oracle and replay round-trip',
 'level_text': 'Each generated map/kernel placement/allocation count is run through the real boot allocator; '
               'membership, strict monotonicity, out-of-memory stickiness, replay equality and the real hand-over into '
               'the bitmap allocator are asserted. Exploration.',
 'level_note': 'Does not require that no usable frame is skipped (the statement does not promise it); skipped frames '
               'are reported as a statistic.',
 'assumptions': ['the memory map is delivered as a real multiboot2 block (memory-map tag); C10 decides that the block '
                 'is decoded correctly',
                 'vmm.EarlyReserveRegion / vmm.Map are replaced through the package seams by host memory and a '
                 'recorder',
                 'frames consumed by the early allocator during Init are learnt from the frames passed to the map '
                 'seam']}
