"""Driver configuration of property C17 (loaded by driver/props.py)."""
K = 'github.com/ProjectSerenity/firefly/kernel'

PROP = {
    'pkg': K + '/device/tty',
    'tests': [{'name': 'TestVerifC17', 'checks_quick': 80000, 'checks_thorough': 1600000, 'shrinktime': '10s'}],
    'rule': 'rapid generates a console geometry (w,h in 1..12 with 1 over-represented; thorough tier: ~10% of the cases '
            '13..200 x 1..60), scrollback 0..6, tab width 0..9 and a history of <=400 ops: WriteByte / Write(chunk) with '
            'bytes weighted to printable, \\n, \\b, \\t, \\r, space, 0x00, 0xff, any byte (chunks also as long printable '
            'runs and as runs of short lines), SetCursorPosition(x,y) with 0, in-range, grid-edge, 0..210 and '
            '2^16/2^31/2^32-1 coordinates, SetState(active/inactive) and (about 1% of the ops) re-AttachTo a console of '
            'another geometry. The console is a harness text grid. After every op CursorPosition(), the viewport '
            'origin, State() and every (char, fg, bg) triple of the terminal buffer are compared with a reference '
            'terminal written from the statement; the cursor must lie inside the viewport; a panic (a write outside '
            'the bounds-checked buffer) is a violation. Non-trivial = the history wraps at least once after the last '
            'column and scrolls the buffer at least once (scrollback exhausted); distinct = different hash of the JSON '
            'case.',
    'technique': 'rapid-generated op histories vs. a reference terminal model (state comparison after every op)',
    'level_text': 'Generated-input search: histories of writes, cursor moves, state changes and re-attachments are run '
                  'on the real VT and on a reference terminal written from the statement; the complete terminal state '
                  '(cursor, viewport origin, every buffer cell) is compared after every op. Exploration, not proof: the '
                  'generator aims at 1-column / 1-row consoles, scrollback 0, tab width 0, backspace in column one, '
                  'wrap at the last column and line feeds on the last line.',
    'level_note': 'The console is a harness mock (what reaches a console is property C18). Writes outside the buffer are '
                  'detected through Go bounds checks of the []uint8 buffer.',
    'assumptions': ['one case in six takes the size the terminal is told from the shipped framebuffer driver (VesaFbConsole with a shipped font, set up for W x H glyph cells plus spare pixels and pitch padding); the reference terminal then has W x H cells - the cells that fit into the pixels', 'consoles with an empty cell grid (0 columns or 0 rows) are outside the quantifier: the cursor cannot '
                    'stay inside an empty viewport (the VT index-panics on the first stored byte there)',
                    'AttachTo starts a fresh reference terminal of the new geometry (blank buffer, cursor (1,1), '
                    'viewport at the top); the terminal state (active/inactive) is kept',
                    'SetCursorPosition clips each coordinate to the nearest viewport edge (tty.Device documentation)'],
}
