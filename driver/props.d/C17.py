"""Driver configuration of property C17 (loaded by driver/props.py)."""
K = 'github.com/ProjectSerenity/firefly/kernel'

PROP = {
    'pkg': K + '/device/tty',
    'tests': [{'name': 'TestVerifC17', 'checks_quick': 20000, 'checks_thorough': 600000}],
    'rule': 'placeholder',
    'technique': 'placeholder',
    'level_text': 'placeholder',
    'level_note': '',
    'assumptions': [],
}
