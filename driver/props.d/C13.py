"""Driver configuration of property C13 (loaded by driver/props.py)."""
K = 'github.com/ProjectSerenity/firefly/kernel'

PROP = {
    'pkg': K + '/device/acpi/aml',
    'tests': [{'name': 'TestVerifC13', 'checks_quick': 12000, 'checks_thorough': 600000, 'shrinktime': '60s'}],
    'fuzz': [{'name': 'FuzzVerifC13Find', 'seconds': 60}],
    'rule': 'rapid generates histories (<=200 ops, positional encoding "k-th live attached node mod n") of '
            'newNamedObject / newObject (named by the caller the way the parser names field elements, or left unnamed) / '
            'append(parent, detached subtree) / appendAfter(parent, detached subtree, sibling) / detach / free(leaf, attached '
            'or detached) / free of an object that still has children (must panic) / create+append / chain (up to 100 '
            'nested scopes) on a tree whose index 0 is the root; names come from a 5-name alphabet '
            '{AAAA,AAAB,A0AA,_AAA,__9_} (some differ in one byte only) so collisions and shadowing are common; kinds are 4 named, 5 not-named opcodes and the '
            'Scope directive. A reference tree (parent + ordered child slice per slot) is updated alongside; after EVERY '
            'primitive operation every slot is compared (parentIndex, first/lastArgIndex, prev/next of every child, no sibling '
            'links without a parent), the tree is walked from the root forwards and backwards (must visit exactly the attached '
            'nodes, never a freed index), ObjectAt(freed)==nil, NumArgs/ArgAt and ClosestNamedAncestor of every live node equal '
            'the reference, and an allocation must return a freed slot (pool length unchanged) whenever one exists. Interleaved '
            'lookups: an expression is built on the current tree (walk down from the scope / the root / where k carets lead; '
            'random names; a name that lives in an enclosing scope, single or multi segment; the path to the deepest node with '
            'segment counts up to 100; raw bytes) in every form (\\, \\SEG, \\+dual/multi prefix, ^..^, ^..^SEG(s), SEG, joined '
            'SEGSEG.., 0x2e/0x2f+count prefixed, a prefixed path minus its last segment as the parser passes when relocating, '
            'trailing garbage) and Find is evaluated from the chosen scope and then from every other attached scope. Oracle = '
            'reference resolver written from the statement (absolute from the root; each ^ one level up, failing above the '
            'root; an unprefixed single segment: starting scope then each enclosing scope; everything else downward only; a '
            'node\'s children are its scope; the FIRST child in list order that carries the name wins when names collide; '
            'unnamed objects are never designated). Malformed expressions (empty, 1-3 bytes, prefix bytes only, non-name bytes, '
            'ragged length, segment count 0/1 or not matching) must not crash and must return a live index or InvalidIndex. '
            'Non-trivial = the history reuses a freed slot (so >=1 free happened before) AND contains >=1 lookup that needs the '
            'upward search or has a ^; lookups that must fail are counted separately (extra_counters '
            'lookup:well-formed-must-fail / lookup:well-formed, sweep:*). distinct = different hash of the JSON case.',
    'technique': 'rapid-generated operation histories (stateful, model-based) against a reference tree; lookups against a '
                 'reference resolver; native fuzzing of Find on a fixed tree',
    'level_text': 'Generated-input search: every history step is followed by a complete two-directional comparison of the '
                  'object pool with a reference tree, and every lookup is compared with a resolver written from the '
                  'statement. Exploration, not proof: histories are bounded to 200 operations and names to five.',
    'level_note': 'Trusts the reference tree/resolver (c13_model_test.go). The thorough tier adds coverage-guided fuzzing of '
                  'Find(scope, bytes) on one fixed tree (45 bushy nodes + a 96-deep chain).',
    'assumptions': ['index 0 is the root scope and is never freed or attached below another node',
                    'documented preconditions are respected: only detached nodes (tops of detached subtrees) are attached, never '
                    'below their own subtree; appendAfter gets a sibling that is a child of the given parent; detach gets the real '
                    'parent; only argument-less objects are freed (the other case must panic)',
                    'a refused free() of an attached object that still has children may already have detached it from its parent '
                    '(the code detaches before it checks); the statement says nothing about the state after the documented '
                    'panic, so both outcomes are accepted as long as the tree stays well-formed and nothing is freed',
                    'after one or more ^ a single segment is looked up in that scope only (ACPI: the search rules do not apply to '
                    'names with a parent prefix)',
                    'a dual/multi prefix byte followed by exactly one segment less than it announces (what relocateNamedObjects '
                    'passes: the path minus its last segment) is resolved downward only, like the full path would be',
                    'a multi-name prefix with segment count 0 or 1, or a count that matches neither n nor n+1 segments, is treated '
                    'as malformed (no crash, live-or-invalid result only)',
                    'scopes handed to Find are live attached objects (the parser never passes anything else); Find(InvalidIndex, e) '
                    'is only required not to crash'],
}
