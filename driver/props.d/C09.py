"""Driver configuration of property C09 (loaded by driver/props.py)."""
K = 'github.com/ProjectSerenity/firefly/kernel'
B = 'github.com/ProjectSerenity/firefly/kbuild'

PROP = {'pkg': 'github.com/ProjectSerenity/firefly/kernel/mm/pmm',
 'tests': [{'name': 'TestVerifC09',
            'checks_quick': 6000,
            'checks_thorough': 80000,
            'shards_quick': 2,
            'shards_thorough': 4}],
 'rule': 'rapid generates 1-3 pools of 1-130 frames (initialised through the real pmm.Init) and 2-16 worker programs '
         '(iterations, alloc percentage, bogus-free percentage, hold limit, salt) that run truly in parallel; an '
         'ownership table updated with atomic swap detects a frame held twice; afterwards reserved totals, per-pool '
         'free counters vs. bitmap bits and an exhaustive drain are checked; a progress watchdog detects blocked '
         'calls; deterministic probes check that every return path releases the lock and that both calls wait for it. '
         'Non-trivial = >=4 workers, out-of-memory hit at least once and calls measured to be under way at the same moment (how the allocator keeps them apart is its business).',
 'technique': 'rapid-generated parallel workloads with ownership-table invariant, quiescent-state accounting and '
              'deterministic lock-discipline probes',
 'level_text': 'Sampled truly-parallel schedules on 16 cores with small pools (constant collisions, regular '
               'out-of-memory) plus exact, schedule-independent lock-discipline probes on all five return paths. '
               'Schedules are sampled, not enumerated.',
 'level_note': 'The spinlock yields through runtime.Gosched via a verif-only export shim; "blocks forever" = no call '
               'completes for 8s, reproduced by forcing the lock free.',
 'assumptions': ['the memory map is delivered as a real multiboot2 block (memory-map tag); C10 decides that the block '
                 'is decoded correctly',
                 'vmm.EarlyReserveRegion / vmm.Map are replaced through the package seams by host memory and a '
                 'recorder',
                 'frames consumed by the early allocator during Init are learnt from the frames passed to the map seam',
                 'concurrent frees of a frame that is free target one frame that provably stays free during the concurrent phase (the highest usable frame, when the workers together never hold as many frames as exist): freeing an arbitrary free frame concurrently could legitimately free a frame that was just re-allocated to someone else'],
 'timeout_quick': 300}
