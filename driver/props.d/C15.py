"""Driver configuration of property C15 (loaded by driver/props.py)."""
K = 'github.com/ProjectSerenity/firefly/kernel'
B = 'github.com/ProjectSerenity/firefly/kbuild'

PROP = {'pkg': 'github.com/ProjectSerenity/firefly/kernel/kfmt',
 'tests': [{'name': 'TestVerifC15', 'checks_quick': 200000, 'checks_thorough': 3000000},
           {'name': 'TestVerifC15Raw', 'checks_quick': 60000, 'checks_thorough': 1000000, 'shards_quick': 2},
           {'name': 'TestVerifC15Early', 'kind': 'plain'}],
 'fuzz': [{'name': 'FuzzVerifC15', 'seconds': 90}],
 'rule': 'rapid generates a format AST (literal runs, %%, %[width]verb with verb in d/x/o/s/t) plus an argument list '
         '(every built-in integer type at boundary values, strings/byte slices, bools, wrong types, too few / too '
         'many); the output is compared with an independent reference formatter (itself cross-checked against '
         'fmt.Sprintf) and AllocsPerRun must be 0. Non-trivial = >=2 verbs, >=1 explicit width and >=1 argument that '
         'is an integer boundary value, a type mismatch, missing or surplus; distinct = different hash of the JSON '
         'case. The Raw test feeds arbitrary format bytes + arguments and only requires no panic (non-trivial there = '
         '>=2 percent signs and >=1 argument). A fixed matrix of ~130 calls (every verb x integer type x width class, the '
         'line pmm.Init prints, missing/surplus/wrong arguments) is also made from an init function that runs BEFORE '
         'package kfmt\'s own initialiser (helper package reached by go:linkname), as the kernel does during early boot; '
         'its output must equal what the same calls write later.',
 'technique': 'rapid-generated format/argument cases vs. independent reference formatter (differential with fmt), '
              'AllocsPerRun, native fuzzing for no-panic',
 'level_text': 'Generated-input search: every generated format/argument case is compared byte-for-byte with a '
               'reference formatter written from the statement and must not allocate; arbitrary format bytes must not '
               'panic. Exploration, not proof: the space is infinite, the generator aims at integer boundaries, widths '
               'around the 31 clamp and argument-count mismatches.',
 'level_note': 'Trusts the reference formatter (cross-checked against fmt.Sprintf on the common sub-domain) and '
               'testing.AllocsPerRun on the host toolchain; escape analysis of the kernel toolchain may differ.',
 'assumptions': ['negative octal/hex with a width: sign inside or outside the width are both accepted',
                 '%t with a width: padded or unpadded are both accepted',
                 'allocation freedom is measured with pre-boxed arguments and a non-allocating writer']}
