"""Driver configuration of property C19 (loaded by driver/props.py)."""
K = 'github.com/ProjectSerenity/firefly/kernel'

PROP = {
    'pkg': K + '/device/video/console',
    'tests': [{'name': 'TestVerifC19Fb', 'checks_quick': 120000, 'checks_thorough': 4000000},
              {'name': 'TestVerifC19Text', 'checks_quick': 60000, 'checks_thorough': 2000000, 'shards_quick': 2}],
    'rule': 'rapid generates a console and an op list (1..25 / 1..30 ops) over Write(ch,fg,bg,x,y), Fill(x,y,w,h,fg,bg), '
            'Scroll(dir,lines); every x/y/width/height/line-count argument is drawn relative to the grid edge from {0, 1, '
            'edge-1, edge, edge+1, 2^31, 2^32-1, 2^32-1-k (wraps a 32-bit sum back into the grid), 2^31+-1, any uint32, '
            'uniform in [0, edge+1]}. Text mode: 1..100 x 1..50 cells. Framebuffer: depth 8/15/16/24/32, RGB and BGR mask '
            'layouts (5/5/5, 5/6/5, 5/5/5-in-16, 8/8/8), generated font (glyph width 8..16, height 1..32, random bitmap '
            'for all 256 glyphs expanded from a drawn seed), 0..8 x 0..8 cells plus right/bottom remainder strips '
            '(width/height are not multiples of the glyph), pitch = row bytes + 0..64, optional generated logo (height '
            '1..40, width <= console width, left/centre/right) installed through SetLogo before SetFont, 0..6 palette '
            'entries replaced before anything is drawn; the buffer is set up through DriverInit (mapRegionFn seam) '
            'inside guard pages, END or START abutting an inaccessible page, pre-filled with a known pattern. After '
            'every op the whole buffer is compared with a byte-level (text: cell-level) reference model. Non-trivial '
            '(framebuffer) = pitch > row bytes or logo offset > 0, and >=1 op with an argument beyond the grid edge, and '
            '>=1 in-grid op; (text mode has neither padding nor logo) = >=1 op beyond the edge and >=1 in-grid op. '
            'distinct = different hash of the JSON case.',
    'technique': 'rapid-generated console geometries and op lists vs. byte-level reference renderer, guarded memory',
    'level_text': 'Generated-input search: each generated geometry/op list is rendered by the real driver into a '
                  'bounds-checked buffer between inaccessible pages and compared byte for byte with a reference model '
                  'written from the statement after every operation. Exploration, not proof: geometries are small '
                  '(<= 8x8 cells, <= 100x50 text cells) and arguments are aimed at the grid edges and the 32-bit wrap.',
    'level_note': 'A stray access surfaces as an index panic of the bounds-checked framebuffer slice (the driver only '
                  'reaches memory through that slice); the guard pages are a second net. Every driver call runs on its '
                  'own goroutine; a call that burns more than 2.5 s of CPU time (runaway loop over rows that are not in the '
                  'grid) is reported unshrunk and ends the shard. While finding F-C19c is listed as open, grids without '
                  'cells are constructed around (counted under excluded_by_construction).',
    'assumptions': ['palette entries are installed directly in the console palette before anything is drawn '
                    '(SetPaletteColor\'s colour replacement pass over the framebuffer is not part of C19)',
                    'the fourth byte of a 32 bpp pixel inside a painted cell is not asserted',
                    'Scroll: rows vacated by the scroll are not asserted; bytes outside the cells (row padding, '
                    'remainder strips) may stay or take the byte of the scanline a whole-scanline move brings there',
                    'text-mode Fill with a colour above 15: only the blank character of the addressed cells is asserted',
                    'framebuffers narrower or lower than one glyph (grid without cells) are in scope; framebuffers of '
                    'zero width/height, logos taller than the framebuffer and 32 bpp layouts with a component in the top '
                    'byte are not generated',
                    'font and logo bitmaps are a splitmix64 expansion of a rapid-drawn seed (pure function of the case)'],
}
