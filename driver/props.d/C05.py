"""Driver configuration of property C05 (loaded by driver/props.py)."""
K = 'github.com/ProjectSerenity/firefly/kernel'

VMM_ASSUME = ['simulated machine: physical memory = host pages (frame = host address >> 12), CR3 = harness variable, software MMU interprets the present bit and bits 12-51 only (no TLB caching beyond "was a flush issued", no A/D bits, no huge pages)',
              'the kernel reaches page tables through its own seams (ptePtrFn/nextAddrFn/activePDTFn/switchPDTFn/flushTLBEntryFn), translated by the software MMU from the current CR3',
              'temporary mappings hand the caller the host alias of the frame; the real MapTemporary/Unmap still run']

PROP = {
    'pkg': K + '/mm/vmm',
    'tests': [{'name': 'TestVerifC05', 'checks_quick': 100000, 'checks_thorough': 3000000}],
    'rule': 'rapid generates a kernel offset, 0-10 ELF sections that do not share a page (1 byte .. 40 pages, aligned or not, '
            'all writable/allocated/executable combinations, some below the kernel range) and 0-6 early reservations made '
            'through the real EarlyReserveRegion + Map in a boot address space on the simulated machine, optionally an '
            'injected allocation / temporary-mapping failure; setupPDTForKernel then runs for real. Oracle: software-MMU '
            'enumeration of the new root = exactly {section pages -> load frames with RW iff writable, NX iff not '
            'executable, never user} + {reserved pages -> previous frames}; new root active; on injected failure an error '
            'and CR3 unchanged. Non-trivial = >=2 sections in range with different write/execute permissions and >=1 '
            'reservation.',
    'technique': 'rapid-generated section tables on a simulated MMU with two-sided enumeration oracle',
    'level_text': 'Generated section layouts and reservations run through the real kernel address-space construction on the simulated machine; the resulting page tables are enumerated completely and compared two-sidedly with the expected mapping and permissions. Exploration.',
    'level_note': 'Sections are delivered through the visitElfSections seam (C10 decides multiboot decoding); relative to the software MMU model.',
    'assumptions': VMM_ASSUME + ['sections do not share a page with one another (as the linker script lays them out)', 'every reserved page is mapped before vmm initialisation (real callers map what they reserve)'],
}
