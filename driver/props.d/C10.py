"""Driver configuration of property C10 (loaded by driver/props.py)."""
K = 'github.com/ProjectSerenity/firefly/kernel'
B = 'github.com/ProjectSerenity/firefly/kbuild'

PROP = {'pkg': 'github.com/ProjectSerenity/firefly/kernel/multiboot',
 'tests': [{'name': 'TestVerifC10', 'checks_quick': 40000, 'checks_thorough': 1600000},
           {'name': 'TestVerifC10Captured', 'kind': 'plain'}],
 'fuzz': [{'name': 'FuzzVerifC10', 'seconds': 90}],
 'rule': 'placeholder',
 'technique': 'placeholder',
 'level_text': 'placeholder',
 'level_note': 'placeholder',
 'assumptions': []}
