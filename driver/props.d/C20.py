"""Driver configuration of property C20 (loaded by driver/props.py)."""
K = 'github.com/ProjectSerenity/firefly/kernel'
B = 'github.com/ProjectSerenity/firefly/kbuild'

PROP = {'pkg': B,
 'tests': [{'name': 'TestVerifC20', 'checks_quick': 6000, 'checks_thorough': 240000}],
 'rule': 'placeholder',
 'technique': 'placeholder',
 'level_text': 'placeholder',
 'level_note': 'placeholder',
 'assumptions': []}
