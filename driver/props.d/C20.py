"""Driver configuration of property C20 (loaded by driver/props.py)."""
K = 'github.com/ProjectSerenity/firefly/kernel'
B = 'github.com/ProjectSerenity/firefly/kbuild'

PROP = {'pkg': B,
 'tests': [{'name': 'TestVerifC20', 'checks_quick': 8000, 'checks_thorough': 320000}],
 'rule': 'rapid generates the description of a Go source tree: 1-6 directories (root included) up to depth 5, 0-4 files '
         'each (non-test .go files, _test.go files, non-Go files such as .go.bak/.gox/.s, some of them not Go at all), '
         '0-7 top-level elements per file: plain functions (with/without body) whose doc comment mixes 0-6 lines of '
         'prose, other //go: directives, exact `//go:redirect-from <sym>` lines (1+ blanks/tabs before, optional '
         'blanks after the symbol, duplicate symbols allowed) and look-alikes (`// go:redirect-from`, mid-line '
         'mentions, other case, //go:redirect-to and friends, /* */ blocks); methods; var/const/type/var-group/'
         'func-literal declarations and free-standing comments that carry the exact directive text in their doc, in a '
         'group detached by a blank line, inside bodies (also directly above a func literal), trailing a line, directly '
         'below the previous declaration, above the package clause; elements with or without a blank line between '
         'them. The tree is written to a fresh temp directory (removed after the case) and the real FindRedirects runs '
         'with it as working directory. Model by construction: one (symbol, kernel-import-path[/dir].Func) per exact '
         'directive line in the doc of a plain function of a non-test .go file; compared as a multiset. The build is '
         'repeated (fresh Context; max(5, min(32, 64/#go files)) builds) and every table must equal the first one '
         'element by element (position text, source, destination). Every shard first runs the same two oracles on '
         '$VERIF_REPO/kernel against an independent line-based scanner (case {"kernel":true}). Non-trivial = tree with '
         '>=2 annotated functions in one file and >=1 look-alike; distinct = different hash of the JSON tree.',
 'technique': 'rapid-generated source trees vs. a by-construction model (multiset) + repeated-build sequence equality; '
              'real kernel tree vs. an independent line scanner',
 'level_text': 'Generated-input search: every generated tree is built several times with the real FindRedirects; the '
               'table must match the annotations the generator put into the tree (and nothing else) and be identical, '
               'in order, across builds; the real CompleteRedirects then writes the table into a synthetic ELF image that must '
               'carry exactly those entries and be byte-identical across builds. Exploration, not proof: the space of source trees is infinite, the generator '
               'aims at the comment positions that go/parser does and does not attach to a function as its doc.',
 'level_note': 'The model relies on the generator knowing which comment lines form a function\'s doc comment; this is '
               'cross-checked against go/parser (FuncDecl.Doc) for every generated file as a harness self-check '
               '(VERIF-HARNESS, never a violation). Order non-determinism is detected statistically: a reordering that '
               'shows in 1 of 8 builds is missed by 5 builds of one tree with probability ~0.5, by the whole run '
               'practically never. The image stage runs the real CompleteRedirects on a harness-built ELF64 file '
               '(sentinel-filled .goredirectstbl, symbol table with every source/destination symbol plus look-alike '
               'decoys): the written table is compared as a multiset of address pairs, every other byte of the file '
               'must be unchanged, and two builds must give byte-identical images. The real linker output is not '
               'available offline, so section flags, symbol binding and padding are the harness\'s choice.',
 'assumptions': ['the tree is scanned with the kernel root as working directory; the root package is '
                 'github.com/ProjectSerenity/firefly/kernel and a function in <dir> is named <that>/<dir>.<Func>',
                 'an annotation is a doc-comment line `//go:redirect-from`, 1+ blanks/tabs, a symbol without blanks, '
                 'optional trailing blanks; the symbol "as written" excludes the surrounding blanks',
                 'not generated because the statement does not decide them: annotated methods, the directive trailing '
                 'the function\'s own line, the directive without a symbol or directly followed by other characters, '
                 'symbols containing blanks, functions named init/_/main, package main, files and directories the go '
                 'tool would not build (leading _ or ., testdata, vendor, GOOS/GOARCH suffixes, build constraints), '
                 'directory names that need escaping in a linker symbol, generic functions, CRLF line ends, symlinks',
                 'generated files are syntactically valid Go but are not type-checked (FindRedirects only parses)']}
